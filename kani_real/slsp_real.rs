// K-real harnesses, compiled INSIDE the real crate as a child module of
// src/protocols/light_client/components/send_last_state_proof.rs (scratch copy), so the private items are visible.
// Real types: numext U256, ckb_types EpochNumberWithFraction.  Standing cuts (DESIGN.md 3.1):
//   alloc::fmt::format -> String::new(); log -> no-op; U256::_div_with_rem -> division contract;
//   compact_to_difficulty -> two-entry table chosen by the harness (deterministic).
use super::*;
use ckb_types::{core::EpochNumberWithFraction, U256};

fn any_u256() -> U256 { U256(kani::any()) }
/// a block difficulty that proof-of-work can reach: below 2^128 (the products with 16-bit epoch lengths cannot overflow)
fn pow_u256() -> U256 { let a: [u64; 2] = kani::any(); U256([a[0], a[1], 0, 0]) }
fn stub_format(_a: std::fmt::Arguments<'_>) -> String { String::new() }
fn stub_log(_a: std::fmt::Arguments, _l: log::Level, _t: &(&str, &'static str, &'static str), _line: u32, _kvs: Option<&[(&str, &str)]>) {}
fn stub_div_with_rem(this: &U256, other: &U256) -> Option<(U256, U256)> {
    if other.is_zero() { return None; }
    let q = any_u256();
    let r = any_u256();
    kani::assume(r < *other);
    let (prod, of) = q.overflowing_mul(other);
    kani::assume(!of);
    let (sum, of2) = prod.overflowing_add(&r);
    kani::assume(!of2);
    kani::assume(sum == *this);
    Some((q, r))
}
static mut D1: [u64; 4] = [0; 4];
static mut D2: [u64; 4] = [0; 4];
static mut C1: u32 = 0;
fn stub_c2d(compact: u32) -> U256 { unsafe { if compact == C1 { U256(D1) } else { U256(D2) } } }
fn set_table(c1: u32, d1: &U256, d2: &U256) { unsafe { C1 = c1; D1 = d1.0; D2 = d2.0; } }

/// an epoch as it arrives from the wire: any 24/16/16-bit fields (from_full_value_unchecked)
fn wire_epoch() -> EpochNumberWithFraction { EpochNumberWithFraction::from_full_value_unchecked(kani::any()) }

// ---------------------------------------------------------------------------------------------------
// O14.3 / C10: the difficulty checks never abort, whatever numbers a peer supplies
// ---------------------------------------------------------------------------------------------------
#[kani::proof]
#[kani::unwind(5)]
#[kani::stub(alloc::fmt::format, stub_format)]
#[kani::stub(log::__private_api::log, stub_log)]
#[kani::stub(numext_fixed_uint::U256::_div_with_rem, stub_div_with_rem)]
#[kani::stub(ckb_types::utilities::compact_to_difficulty, stub_c2d)]
fn vtd_no_panic_wide() {
    // as vtd_no_panic, with ARBITRARY 256-bit block difficulties (beyond what proof-of-work can reach)
    let d1 = any_u256(); let d2 = any_u256();
    let c0: u32 = kani::any(); let cn: u32 = kani::any();
    set_table(c0, &d1, &d2);
    let se = wire_epoch(); let ee = wire_epoch();
    kani::assume(ee.number().wrapping_sub(se.number()) <= 3 || se.number().wrapping_sub(ee.number()) <= 3);
    let t0 = any_u256(); let t1 = any_u256();
    let _ = verify_total_difficulty(se, c0, &t0, ee, cn, &t1, 2);
    let _ = verify_tau(se, c0, ee, cn, 2);
}

#[kani::proof]
#[kani::unwind(5)]
#[kani::stub(alloc::fmt::format, stub_format)]
#[kani::stub(log::__private_api::log, stub_log)]
#[kani::stub(numext_fixed_uint::U256::_div_with_rem, stub_div_with_rem)]
#[kani::stub(ckb_types::utilities::compact_to_difficulty, stub_c2d)]
fn vtd_no_panic() {
    let d1 = pow_u256(); let d2 = pow_u256();
    let c0: u32 = kani::any(); let cn: u32 = kani::any();
    set_table(c0, &d1, &d2);
    let se = wire_epoch(); let ee = wire_epoch();
    // loop bound: at most 3 epoch switches (either direction of the subtraction)
    kani::assume(ee.number().wrapping_sub(se.number()) <= 3 || se.number().wrapping_sub(ee.number()) <= 3);
    let t0 = any_u256(); let t1 = any_u256();
    let _ = verify_total_difficulty(se, c0, &t0, ee, cn, &t1, 2);
}

#[kani::proof]
#[kani::unwind(5)]
#[kani::stub(alloc::fmt::format, stub_format)]
#[kani::stub(log::__private_api::log, stub_log)]
#[kani::stub(numext_fixed_uint::U256::_div_with_rem, stub_div_with_rem)]
#[kani::stub(ckb_types::utilities::compact_to_difficulty, stub_c2d)]
fn vtau_no_panic() {
    let d1 = pow_u256(); let d2 = pow_u256();
    let c0: u32 = kani::any(); let cn: u32 = kani::any();
    set_table(c0, &d1, &d2);
    let se = wire_epoch(); let ee = wire_epoch();
    kani::assume(ee.number().wrapping_sub(se.number()) <= 3 || se.number().wrapping_sub(ee.number()) <= 3);
    let _ = verify_tau(se, c0, ee, cn, 2);
}

// ---------------------------------------------------------------------------------------------------
// kernels, all inputs
// ---------------------------------------------------------------------------------------------------
#[kani::proof]
#[kani::unwind(5)]
#[kani::stub(alloc::fmt::format, stub_format)]
#[kani::stub(log::__private_api::log, stub_log)]
#[kani::stub(numext_fixed_uint::U256::_div_with_rem, stub_div_with_rem)]
fn tau_kernels() {
    let s = any_u256(); let e = any_u256();
    let n: u64 = kani::any(); kani::assume(n <= 3);
    let t = EpochDifficultyTrend::new(&s, &e);
    // check_tau: true iff e within [s / 2^n, s * 2^n] (floor division, saturating multiplication)
    let ok = t.check_tau(2, n);
    let two = U256::from(2u64);
    let mut hi = s.clone(); let mut lo = s.clone();
    let mut i = 0;
    while i < n { hi = hi.saturating_mul(&two); lo = lo >> 1u8; i += 1; }
    assert!(ok == (e <= hi && e >= lo), "SPEC tau: check_tau differs from s/2^n <= e <= s*2^n");
    // calculate_tau_exponent: Some(k) => k < limit and the documented bracket holds
    if let Some(k) = t.calculate_tau_exponent(2, n) {
        assert!(k == 0 || k < n, "SPEC tau: exponent not below the limit");
        if s == e { assert!(k == 0, "SPEC tau: unchanged trend must give 0"); }
        if s < e {
            let mut a = s.clone(); let mut j = 0;
            while j < k { a = a.saturating_mul(&two); j += 1; }
            assert!(k == 0 || a < e, "SPEC tau: s*2^k < e violated");
            assert!(e <= a.saturating_mul(&two), "SPEC tau: e <= s*2^(k+1) violated");
        }
        kani::cover!(k == 2, "exponent 2 reached");
    }
    kani::cover!(ok && s < e && n == 3, "increase accepted");
    kani::cover!(!ok, "a trend rejected");
}

#[kani::proof]
#[kani::unwind(3)]
fn split_kernels() {
    let n: u64 = kani::any(); let k: u64 = kani::any();
    // callers guarantee k < n (calculate_tau_exponent) and n >= 2
    kani::assume(n >= 2 && k < n && n < (1u64 << 24));   // n = difference of two 24-bit epoch numbers
    let which: u8 = kani::any(); kani::assume(which < 3);
    let t = match which { 0 => EpochDifficultyTrend::Unchanged,
        1 => EpochDifficultyTrend::Increased { start: U256::zero(), end: U256::one() },
        _ => EpochDifficultyTrend::Decreased { start: U256::one(), end: U256::zero() } };
    if which == 0 { kani::assume(k == 0); }
    let lim = if kani::any() { EstimatedLimit::Min } else { EstimatedLimit::Max };
    let d = t.clone().split_epochs(lim, n, k);
    assert!(d.start.epochs_count() + d.end.epochs_count() == n, "SPEC split: the two groups do not add up to n");
    let r = d.remove_last_epoch();
    assert!(r.start.epochs_count() + r.end.epochs_count() == n - 1, "SPEC split: remove_last_epoch must drop exactly one epoch");
    kani::cover!(n == 5 && k == 2);
}

// ---------------------------------------------------------------------------------------------------
// O14.2 soundness: Ok => not decreasing; same epoch / one switch exact; more switches within the tau envelope
// ---------------------------------------------------------------------------------------------------
#[kani::proof]
#[kani::unwind(5)]
#[kani::stub(alloc::fmt::format, stub_format)]
#[kani::stub(log::__private_api::log, stub_log)]
#[kani::stub(numext_fixed_uint::U256::_div_with_rem, stub_div_with_rem)]
#[kani::stub(ckb_types::utilities::compact_to_difficulty, stub_c2d)]
fn vtd_sound_q() { vtd_sound_body::<2>(); }

#[kani::proof]
#[kani::unwind(5)]
#[kani::stub(alloc::fmt::format, stub_format)]
#[kani::stub(log::__private_api::log, stub_log)]
#[kani::stub(numext_fixed_uint::U256::_div_with_rem, stub_div_with_rem)]
#[kani::stub(ckb_types::utilities::compact_to_difficulty, stub_c2d)]
fn vtd_sound() { vtd_sound_body::<3>(); }

#[kani::proof]
#[kani::unwind(5)]
#[kani::stub(alloc::fmt::format, stub_format)]
#[kani::stub(log::__private_api::log, stub_log)]
#[kani::stub(numext_fixed_uint::U256::_div_with_rem, stub_div_with_rem)]
#[kani::stub(ckb_types::utilities::compact_to_difficulty, stub_c2d)]
fn vtd_sound_q1() { vtd_sound_body_w::<1, 32>(); }

#[kani::proof]
#[kani::unwind(5)]
#[kani::stub(alloc::fmt::format, stub_format)]
#[kani::stub(log::__private_api::log, stub_log)]
#[kani::stub(numext_fixed_uint::U256::_div_with_rem, stub_div_with_rem)]
#[kani::stub(ckb_types::utilities::compact_to_difficulty, stub_c2d)]
fn vtd_no_panic_q() {
    // quick-tier variant of vtd_no_panic: at most ONE epoch switch in either direction (the underflow / overflow sites sit before the loop)
    let d1 = pow_u256(); let d2 = pow_u256();
    let c0: u32 = kani::any(); let cn: u32 = kani::any();
    set_table(c0, &d1, &d2);
    let se = wire_epoch(); let ee = wire_epoch();
    kani::assume(ee.number().wrapping_sub(se.number()) <= 1 || se.number().wrapping_sub(ee.number()) <= 1);
    let t0 = any_u256(); let t1 = any_u256();
    let _ = verify_total_difficulty(se, c0, &t0, ee, cn, &t1, 2);
}

fn vtd_sound_body<const MAXN: u64>() { vtd_sound_body_w::<MAXN, 64>() }
fn vtd_sound_body_w<const MAXN: u64, const BITS: u32>() {
    // block difficulties < 2^BITS, BITS <= 64 (stated bound; the specification's own products then cannot overflow)
    let a: u64 = kani::any(); let b: u64 = kani::any();
    if BITS < 64 { kani::assume(a < (1u64 << BITS) && b < (1u64 << BITS)); }
    let b0 = U256([a, 0, 0, 0]); let bn = U256([b, 0, 0, 0]);
    let c0: u32 = kani::any(); let cn: u32 = kani::any();
    set_table(c0, &b0, &bn);
    let bn_eff = if cn == c0 { b0.clone() } else { bn.clone() };
    let se = wire_epoch(); let ee = wire_epoch();
    // well-formed, ordered end points (ill-formed ones are the subject of vtd_no_panic)
    kani::assume(se.is_well_formed() && ee.is_well_formed());
    kani::assume(ee.number() >= se.number() && ee.number() - se.number() <= MAXN);
    kani::assume(ee.number() > se.number() || ee.index() >= se.index());
    let t0 = any_u256(); let t1 = any_u256();
    let r = verify_total_difficulty(se, c0, &t0, ee, cn, &t1, 2);
    if r.is_ok() {
        assert!(t1 >= t0, "SPEC total difficulty: a decrease was accepted");
        let total = &t1 - &t0;
        let n = ee.number() - se.number();
        if n == 0 {
            let (want, of) = b0.overflowing_mul(&U256::from(ee.index() - se.index()));
            assert!(!of && total == want, "SPEC total difficulty: mismatch inside one epoch accepted");
        } else {
            let (u1, o1) = b0.overflowing_mul(&U256::from(se.length() - se.index() - 1));
            let (u2, o2) = bn_eff.overflowing_mul(&U256::from(ee.index() + 1));
            let (un, o3) = u1.overflowing_add(&u2);
            assert!(!o1 && !o2 && !o3, "SPEC total difficulty: unaligned part overflows yet accepted");
            // the EPOCH difficulties (block difficulty x length of its OWN epoch) of the two end points are within tau^n of each other
            {
                let (es, _) = b0.overflowing_mul(&U256::from(se.length()));
                let (ee_d, _) = bn_eff.overflowing_mul(&U256::from(ee.length()));
                let two = U256::from(2u64);
                let mut up = es.clone(); let mut dn = es.clone();
                let mut i = 0;
                while i < n { up = up.saturating_mul(&two); dn = dn >> 1u8; i += 1; }
                assert!(ee_d <= up, "SPEC total difficulty: epoch difficulty growth faster than tau per epoch accepted");
                assert!(ee_d >= dn, "SPEC total difficulty: epoch difficulty shrinkage faster than tau per epoch accepted");
            }
            if n == 1 {
                assert!(total == un, "SPEC total difficulty: mismatch across exactly one epoch switch accepted");
            } else {
                // tau envelope from the start epoch difficulty E: sum_{i=1}^{n-1} floor(E/2^i) <= total - unaligned <= sum E*2^i
                let (e0, _) = b0.overflowing_mul(&U256::from(se.length()));
                assert!(total >= un, "SPEC total difficulty: total below the unaligned part accepted");
                let mid = &total - &un;
                let two = U256::from(2u64);
                let mut hi = U256::zero(); let mut lo = U256::zero();
                let mut up = e0.clone(); let mut dn = e0.clone();
                let mut i = 1;
                while i < n { up = up.saturating_mul(&two); dn = dn >> 1u8; hi = hi.saturating_add(&up); lo = lo.saturating_add(&dn); i += 1; }
                assert!(mid <= hi, "SPEC total difficulty: growth faster than tau per epoch accepted");
                assert!(mid >= lo, "SPEC total difficulty: shrinkage faster than tau per epoch accepted");
                kani::cover!(n == MAXN, "maximal number of switches accepted");
            }
        }
        kani::cover!(n == 1, "one switch accepted");
        kani::cover!(n == 0 && ee.index() > se.index(), "same epoch accepted");
    }
}

// ---------------------------------------------------------------------------------------------------
// O14.1 completeness: every legal history is accepted by both checks (probe P20: narrow operands)
// ---------------------------------------------------------------------------------------------------
fn tiny_u256() -> U256 { let a: u32 = kani::any(); U256([(a >> 8) as u64, 0, 0, 0]) }
fn small_u256() -> U256 { let a: u64 = kani::any(); U256([a >> 8, 0, 0, 0]) }
fn legal_step(prev: &U256, next: &U256) -> bool {
    let two = U256::from(2u64);
    *next <= prev.saturating_mul(&two) && next.saturating_mul(&two) >= *prev
}

#[kani::proof]
#[kani::unwind(5)]
#[kani::stub(alloc::fmt::format, stub_format)]
#[kani::stub(log::__private_api::log, stub_log)]
#[kani::stub(numext_fixed_uint::U256::_div_with_rem, stub_div_with_rem)]
#[kani::stub(ckb_types::utilities::compact_to_difficulty, stub_c2d)]
fn complete_n2() {
    // two epoch switches: start epoch s, one full middle epoch, end epoch s+2
    let b0 = small_u256(); let bn = small_u256();
    kani::assume(!b0.is_zero() && !bn.is_zero());
    let c0: u32 = kani::any(); let cn: u32 = kani::any();
    kani::assume(c0 != cn);
    set_table(c0, &b0, &bn);
    let s: u64 = kani::any(); kani::assume(s < 1000);
    let l0: u64 = kani::any(); let i0: u64 = kani::any(); kani::assume(l0 >= 1 && l0 < 16 && i0 < l0);
    let ln: u64 = kani::any(); let i_n: u64 = kani::any(); kani::assume(ln >= 1 && ln < 16 && i_n < ln);
    let se = EpochNumberWithFraction::new_unchecked(s, i0, l0);
    let ee = EpochNumberWithFraction::new_unchecked(s + 2, i_n, ln);
    let e0 = &b0 * l0;
    let e2 = &bn * ln;
    let e1 = small_u256();
    kani::assume(legal_step(&e0, &e1) && legal_step(&e1, &e2));
    let t0 = small_u256();
    let total = &(&b0 * (l0 - i0 - 1)) + &e1;
    let total = &total + &(&bn * (i_n + 1));
    let t1 = &t0 + &total;
    let tau_ok = verify_tau(se, c0, ee, cn, 2);
    assert!(matches!(tau_ok, Ok(true)), "SPEC completeness: legal history rejected by verify_tau");
    let r = verify_total_difficulty(se, c0, &t0, ee, cn, &t1, 2);
    assert!(r.is_ok(), "SPEC completeness: legal history rejected by verify_total_difficulty");
    kani::cover!(e1 > e0 && e2 < e1, "up then down");
}

#[kani::proof]
#[kani::unwind(5)]
#[kani::stub(alloc::fmt::format, stub_format)]
#[kani::stub(log::__private_api::log, stub_log)]
#[kani::stub(numext_fixed_uint::U256::_div_with_rem, stub_div_with_rem)]
#[kani::stub(ckb_types::utilities::compact_to_difficulty, stub_c2d)]
fn complete_n01() {
    // same epoch, and exactly one switch: the true totals must be accepted
    let b0 = small_u256(); let bn = small_u256();
    kani::assume(!b0.is_zero() && !bn.is_zero());
    let c0: u32 = kani::any(); let cn: u32 = kani::any();
    kani::assume(c0 != cn);
    set_table(c0, &b0, &bn);
    let s: u64 = kani::any(); kani::assume(s < 1000);
    let l0: u64 = kani::any(); let i0: u64 = kani::any(); kani::assume(l0 >= 1 && l0 < 16 && i0 < l0);
    let t0 = small_u256();
    let se = EpochNumberWithFraction::new_unchecked(s, i0, l0);
    if kani::any() {
        let i1: u64 = kani::any(); kani::assume(i1 >= i0 && i1 < l0);
        let ee = EpochNumberWithFraction::new_unchecked(s, i1, l0);
        let t1 = &t0 + &(&b0 * (i1 - i0));
        assert!(matches!(verify_tau(se, c0, ee, c0, 2), Ok(true)), "SPEC completeness: same-epoch history rejected by verify_tau");
        assert!(verify_total_difficulty(se, c0, &t0, ee, c0, &t1, 2).is_ok(), "SPEC completeness: same-epoch history rejected");
    } else {
        let ln: u64 = kani::any(); let i_n: u64 = kani::any(); kani::assume(ln >= 1 && ln < 16 && i_n < ln);
        let ee = EpochNumberWithFraction::new_unchecked(s + 1, i_n, ln);
        let e0 = &b0 * l0; let e1 = &bn * ln;
        kani::assume(legal_step(&e0, &e1));
        let t1 = &(&t0 + &(&b0 * (l0 - i0 - 1))) + &(&bn * (i_n + 1));
        assert!(matches!(verify_tau(se, c0, ee, cn, 2), Ok(true)), "SPEC completeness: one-switch history rejected by verify_tau");
        assert!(verify_total_difficulty(se, c0, &t0, ee, cn, &t1, 2).is_ok(), "SPEC completeness: one-switch history rejected");
        kani::cover!(e1 > e0, "difficulty increased across the switch");
    }
}

#[kani::proof]
#[kani::unwind(5)]
#[kani::stub(alloc::fmt::format, stub_format)]
#[kani::stub(log::__private_api::log, stub_log)]
#[kani::stub(numext_fixed_uint::U256::_div_with_rem, stub_div_with_rem)]
#[kani::stub(ckb_types::utilities::compact_to_difficulty, stub_c2d)]
fn complete_n01_q() {
    // quick-tier variant of complete_n01: block difficulties < 2^24, epoch lengths < 8
    // same epoch, and exactly one switch: the true totals must be accepted
    let b0 = tiny_u256(); let bn = tiny_u256();
    kani::assume(!b0.is_zero() && !bn.is_zero());
    let c0: u32 = kani::any(); let cn: u32 = kani::any();
    kani::assume(c0 != cn);
    set_table(c0, &b0, &bn);
    let s: u64 = kani::any(); kani::assume(s < 1000);
    let l0: u64 = kani::any(); let i0: u64 = kani::any(); kani::assume(l0 >= 1 && l0 < 8 && i0 < l0);
    let t0 = tiny_u256();
    let se = EpochNumberWithFraction::new_unchecked(s, i0, l0);
    if kani::any() {
        let i1: u64 = kani::any(); kani::assume(i1 >= i0 && i1 < l0);
        let ee = EpochNumberWithFraction::new_unchecked(s, i1, l0);
        let t1 = &t0 + &(&b0 * (i1 - i0));
        assert!(matches!(verify_tau(se, c0, ee, c0, 2), Ok(true)), "SPEC completeness: same-epoch history rejected by verify_tau");
        assert!(verify_total_difficulty(se, c0, &t0, ee, c0, &t1, 2).is_ok(), "SPEC completeness: same-epoch history rejected");
    } else {
        let ln: u64 = kani::any(); let i_n: u64 = kani::any(); kani::assume(ln >= 1 && ln < 8 && i_n < ln);
        let ee = EpochNumberWithFraction::new_unchecked(s + 1, i_n, ln);
        let e0 = &b0 * l0; let e1 = &bn * ln;
        kani::assume(legal_step(&e0, &e1));
        let t1 = &(&t0 + &(&b0 * (l0 - i0 - 1))) + &(&bn * (i_n + 1));
        assert!(matches!(verify_tau(se, c0, ee, cn, 2), Ok(true)), "SPEC completeness: one-switch history rejected by verify_tau");
        assert!(verify_total_difficulty(se, c0, &t0, ee, cn, &t1, 2).is_ok(), "SPEC completeness: one-switch history rejected");
        kani::cover!(e1 > e0, "difficulty increased across the switch");
    }
}

#[kani::proof]
#[kani::unwind(5)]
#[kani::stub(alloc::fmt::format, stub_format)]
#[kani::stub(log::__private_api::log, stub_log)]
#[kani::stub(numext_fixed_uint::U256::_div_with_rem, stub_div_with_rem)]
#[kani::stub(ckb_types::utilities::compact_to_difficulty, stub_c2d)]
fn complete_n0_q() {
    // quick tier: the true total of a history INSIDE ONE EPOCH is accepted by both checks (one switch and more: thorough tier)
    let b0 = small_u256(); let bn = small_u256();
    kani::assume(!b0.is_zero());
    let c0: u32 = kani::any(); let cn: u32 = kani::any();
    kani::assume(c0 != cn);
    set_table(c0, &b0, &bn);
    let s: u64 = kani::any(); kani::assume(s < 1000);
    let l0: u64 = kani::any(); let i0: u64 = kani::any(); kani::assume(l0 >= 1 && l0 < 16 && i0 < l0);
    let t0 = small_u256();
    let se = EpochNumberWithFraction::new_unchecked(s, i0, l0);
    let i1: u64 = kani::any(); kani::assume(i1 >= i0 && i1 < l0);
    let ee = EpochNumberWithFraction::new_unchecked(s, i1, l0);
    let t1 = &t0 + &(&b0 * (i1 - i0));
    assert!(matches!(verify_tau(se, c0, ee, c0, 2), Ok(true)), "SPEC completeness: same-epoch history rejected by verify_tau");
    assert!(verify_total_difficulty(se, c0, &t0, ee, c0, &t1, 2).is_ok(), "SPEC completeness: same-epoch history rejected");
    kani::cover!(i1 > i0, "several blocks inside the epoch");
}

#[kani::proof]
#[kani::unwind(5)]
#[kani::stub(alloc::fmt::format, stub_format)]
#[kani::stub(log::__private_api::log, stub_log)]
#[kani::stub(numext_fixed_uint::U256::_div_with_rem, stub_div_with_rem)]
#[kani::stub(ckb_types::utilities::compact_to_difficulty, stub_c2d)]
fn vtd_sound_q0() { vtd_sound_body_w::<0, 64>(); }

// ---------------------------------------------------------------------------------------------------
// quick-tier variants ACROSS EXACTLY ONE EPOCH SWITCH with narrow block difficulties (the algorithm sees a difficulty only through products with
// 16-bit epoch fields, so a wrong operand / off-by-one / wrong epoch in those products already shows at 8 bits)
// ---------------------------------------------------------------------------------------------------
#[kani::proof]
#[kani::unwind(5)]
#[kani::stub(alloc::fmt::format, stub_format)]
#[kani::stub(log::__private_api::log, stub_log)]
#[kani::stub(numext_fixed_uint::U256::_div_with_rem, stub_div_with_rem)]
#[kani::stub(ckb_types::utilities::compact_to_difficulty, stub_c2d)]
fn vtd_sound_q1s() { vtd_sound_body_w::<1, 8>(); }

#[kani::proof]
#[kani::unwind(5)]
#[kani::stub(alloc::fmt::format, stub_format)]
#[kani::stub(log::__private_api::log, stub_log)]
#[kani::stub(numext_fixed_uint::U256::_div_with_rem, stub_div_with_rem)]
#[kani::stub(ckb_types::utilities::compact_to_difficulty, stub_c2d)]
fn complete_n1_qs() {
    // exactly one switch, block difficulties < 2^8, epoch lengths < 8, start total < 2^24
    let a: u8 = kani::any(); let b: u8 = kani::any();
    kani::assume(a != 0 && b != 0);
    let b0 = U256([a as u64, 0, 0, 0]); let bn = U256([b as u64, 0, 0, 0]);
    let c0: u32 = kani::any(); let cn: u32 = kani::any();
    kani::assume(c0 != cn);
    set_table(c0, &b0, &bn);
    let s: u64 = kani::any(); kani::assume(s < 1000);
    let l0: u64 = kani::any(); let i0: u64 = kani::any(); kani::assume(l0 >= 1 && l0 < 8 && i0 < l0);
    let t0 = tiny_u256();
    let se = EpochNumberWithFraction::new_unchecked(s, i0, l0);
    let ln: u64 = kani::any(); let i_n: u64 = kani::any(); kani::assume(ln >= 1 && ln < 8 && i_n < ln);
    let ee = EpochNumberWithFraction::new_unchecked(s + 1, i_n, ln);
    let e0 = &b0 * l0; let e1 = &bn * ln;
    kani::assume(legal_step(&e0, &e1));
    let t1 = &(&t0 + &(&b0 * (l0 - i0 - 1))) + &(&bn * (i_n + 1));
    assert!(matches!(verify_tau(se, c0, ee, cn, 2), Ok(true)), "SPEC completeness: one-switch history rejected by verify_tau");
    assert!(verify_total_difficulty(se, c0, &t0, ee, cn, &t1, 2).is_ok(), "SPEC completeness: one-switch history rejected");
    kani::cover!(e1 > e0 && l0 != ln && i0 + 1 == l0, "difficulty increased across the switch, different epoch lengths, start at the last block of its epoch");
}

// ---------------------------------------------------------------------------------------------------
// verify_tau is EXACT: across n >= 1 epoch switches Ok(b) with b == (end epoch difficulty within [start / tau^n, start * tau^n]) - epoch difficulty = block
// difficulty x length of its OWN epoch; a later start epoch is an error; inside one epoch Ok(true) iff the compact targets agree
// ---------------------------------------------------------------------------------------------------
#[kani::proof]
#[kani::unwind(5)]
#[kani::stub(alloc::fmt::format, stub_format)]
#[kani::stub(log::__private_api::log, stub_log)]
#[kani::stub(numext_fixed_uint::U256::_div_with_rem, stub_div_with_rem)]
#[kani::stub(ckb_types::utilities::compact_to_difficulty, stub_c2d)]
fn vtau_exact_q() {
    let a: u16 = kani::any(); let b: u16 = kani::any();
    let b0 = U256([a as u64, 0, 0, 0]); let bn = U256([b as u64, 0, 0, 0]);
    let c0: u32 = kani::any(); let cn: u32 = kani::any();
    set_table(c0, &b0, &bn);
    let bn_eff = if cn == c0 { b0.clone() } else { bn.clone() };
    let se = wire_epoch(); let ee = wire_epoch();
    // n <= 3 switches in either direction (loop bound)
    kani::assume(ee.number().wrapping_sub(se.number()) <= 3 || se.number().wrapping_sub(ee.number()) <= 3);
    let r = verify_tau(se, c0, ee, cn, 2);
    if se.number() == ee.number() {
        assert!(matches!(r, Ok(true)) == (c0 == cn) && (r.is_ok() || c0 != cn), "SPEC tau: inside one epoch verify_tau must be Ok(true) iff the compact targets agree (an error otherwise)");
    } else if se.number() > ee.number() {
        assert!(r.is_err(), "SPEC tau: a start epoch later than the end epoch was not rejected");
    } else {
        let n = ee.number() - se.number();
        let (es, _) = b0.overflowing_mul(&U256::from(se.length()));
        let (ed, _) = bn_eff.overflowing_mul(&U256::from(ee.length()));
        let two = U256::from(2u64);
        let mut up = es.clone(); let mut dn = es.clone();
        let mut i = 0;
        while i < n { up = up.saturating_mul(&two); dn = dn >> 1u8; i += 1; }
        let within = ed <= up && ed >= dn;
        match r { Ok(b) => assert!(b == within, "SPEC tau: verify_tau does not report exactly whether the epoch difficulty changed by at most tau per epoch"),
                  Err(_) => assert!(false, "SPEC tau: verify_tau failed on ordered epochs") }
        kani::cover!(within && n == 2 && se.length() != ee.length(), "two switches, different epoch lengths, within tau");
        kani::cover!(!within && c0 == cn, "same compact target, epoch lengths too different");
    }
}
