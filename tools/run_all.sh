#!/bin/bash
# run_all.sh <tier> [props...]: run the checks one after the other on /repo itself, writing evidence; summary in .cache/run_all.<tier>.log
T="${1:-quick}"; shift
cd /verif
P="$@"; [ -z "$P" ] && P=$(python3 -c "import sys; sys.path.insert(0,'props'); import manifest_table as m; print(' '.join(sorted(m.CLAIMED)))")
L=.cache/run_all.$T.log; mkdir -p .cache
for c in $P; do
  s=$(date +%s)
  ./check $c --tier $T > .cache/run_all.$c.$T.out 2>&1; rc=$?
  e=$(( $(date +%s) - s ))
  echo "$(date +%T) $c tier=$T rc=$rc wall=${e}s $(grep -c KNOWN-FINDING .cache/run_all.$c.$T.out) known | $(tail -1 .cache/run_all.$c.$T.out | cut -c1-160)" >> $L
done
