#!/usr/bin/env python3
"""Regenerates the section of DESIGN.md that lists the seeded changes and which obligations catch them (from /verif/seeded/*/meta.json)."""
import json, glob, os, re
rows = []
for m in sorted(glob.glob('/verif/seeded/*/meta.json')):
    d = json.load(open(m)); sid = d['id']
    notes = os.path.join(os.path.dirname(m), 'notes.md')
    title = ''
    if os.path.exists(notes):
        for l in open(notes):
            if l.startswith('#'):
                title = re.sub(r'^#+\s*', '', l).strip(); title = re.sub(r'^(C\d+\w*\s*[/:-]?\s*)?[Mm]utation\s*\d+\s*[-:]*\s*', '', title); break
    if d['detected']:
        how = ', '.join(d['caught_by'][:3]) + (' (thorough tier only)' if d.get('detected_only_by_thorough_tier') else '')
    else:
        inc = [k for k, v in d['checks_run'].items() if v['exit_code'] == 2]
        how = '**not detected**' + (' (exit 2: inconclusive)' if inc else '')
    rows.append('| %s | %s | %s |' % (sid, title[:150].replace('|', '/'), how))
det = sum(1 for r in rows if 'not detected' not in r)
out = ['', '## 12. Seeded changes (independent sub-agents) and what catches them', '',
       'Each change was written by a fresh sub-agent that saw only the text of one property and its own scratch worktree; each was confirmed by me in a scratch',
       'worktree (demonstration passes on the clean tree, fails with the change; the existing 115 tests pass with the change) and then checked with `tools/mutrun.sh`',
       '(the property\'s own check - quick tier unless noted - against a copy of /repo with the change applied).  `seeded/<id>/` holds patch, demonstration, notes and',
       '`meta.json` (what was run, exit codes, violated obligations).  **%d of %d are detected** by the check of the property they were written against.' % (det, len(rows)), '',
       '| id | change | caught by (obligation of that property\'s check) |', '|---|---|---|'] + rows + ['']
s = open('/verif/DESIGN.md').read()
s = re.sub(r'\n## 12\. Seeded changes.*\Z', '', s, flags=re.S)
open('/verif/DESIGN.md', 'w').write(s.rstrip('\n') + '\n' + '\n'.join(out))
print('%d / %d detected' % (det, len(rows)))
