"""Verbatim extraction of items from Rust source by brace matching (string / char / comment aware).

The extracted text is what engine K-model compiles against the model prelude; it is regenerated from
/repo's working tree on every run.  A missing item raises ExtractError (=> INCONCLUSIVE, never a pass).
"""
import re, os, hashlib


class ExtractError(Exception):
    pass


def match_brace(src, j):
    """src[j] == '{' -> index of the matching '}'."""
    depth = 0; k = j; n = len(src)
    while k < n:
        c = src[k]
        if src.startswith('//', k):
            k = src.index('\n', k); continue
        if src.startswith('/*', k):
            k = src.index('*/', k) + 2; continue
        if c == '"':
            k += 1
            while src[k] != '"':
                if src[k] == '\\': k += 1
                k += 1
            k += 1; continue
        if c == "'":
            m2 = re.match(r"'(\\.|[^\\'])'", src[k:])
            if m2: k += m2.end(); continue
            k += 1; continue
        if c == '{': depth += 1
        elif c == '}':
            depth -= 1
            if depth == 0: return k
        k += 1
    raise ExtractError('unbalanced braces')


class Source:
    def __init__(self, repo, rel):
        self.rel = rel
        self.path = os.path.join(repo, rel)
        try:
            self.src = open(self.path).read()
        except OSError as e:
            raise ExtractError('cannot read %s: %s' % (rel, e))

    def _span(self, header_re, attrs=False, start=0, end=None):
        m = re.compile(header_re, re.M).search(self.src, start, end if end is not None else len(self.src))
        if not m:
            raise ExtractError('item not found in %s: %s' % (self.rel, header_re))
        s = m.start()
        j = self.src.find('{', m.end() - 1)
        # first ';' that is not nested in ( ) or [ ]  (array types such as `[usize; 2]` in a signature are not the end of an item)
        semi = -1; depth = 0; k = m.end() - 1
        while k < len(self.src) and (j < 0 or k < j):
            ch = self.src[k]
            if ch in '([': depth += 1
            elif ch in ')]': depth -= 1
            elif ch == ';' and depth <= 0: semi = k; break
            k += 1
        if j < 0 or (0 <= semi < j and not re.search(r'\bwhere\b', self.src[m.end():j])):
            # item without a body (const, type alias, tuple struct)
            e = semi
        else:
            e = match_brace(self.src, j)
        if attrs:
            # include directly preceding attribute / doc lines
            while True:
                ls = self.src.rfind('\n', 0, s - 1) + 1
                line = self.src[ls:s - 1] if s > 0 else ''
                if s > 0 and re.match(r'\s*(#\[|///)', line) and self.src[s - 1] == '\n':
                    s = ls
                else:
                    break
        return s, e + 1

    def item(self, header_re, attrs=False):
        s, e = self._span(header_re, attrs)
        return Piece(self, self.src[s:e], self.src.count('\n', 0, s) + 1, header_re)

    def method(self, impl_re, fn_name, wrap=None):
        """Method `fn_name` of the impl block matching impl_re, optionally wrapped in `wrap { }`."""
        s, e = self._span(impl_re)
        pat = r'^[ \t]*(?:#\[[^\]]*\]\s*)*(?:pub(?:\([a-z]+\))? )?(?:const )?(?:async )?fn ' + re.escape(fn_name) + r'\b'
        ms, me = self._span(pat, start=s, end=e)
        text = self.src[ms:me]
        line = self.src.count('\n', 0, ms) + 1
        p = Piece(self, text, line, '%s :: %s' % (impl_re, fn_name))
        if wrap:
            p.prefix = wrap + ' {\n'
            p.suffix = '\n}'
        return p

    def consts(self, pat):
        out = []
        for m in re.finditer(pat, self.src, re.M):
            out.append(Piece(self, m.group(0), self.src.count('\n', 0, m.start()) + 1, pat))
        if not out:
            raise ExtractError('no constant matched in %s: %s' % (self.rel, pat))
        return out


class Piece:
    def __init__(self, source, text, line, what):
        self.source = source; self.text = text; self.line = line; self.what = what
        self.prefix = ''; self.suffix = ''

    def sub(self, pat, repl, count=0, required=True):
        """Model-only textual adaptation (recorded in evidence)."""
        new, n = re.subn(pat, repl, self.text, count=count)
        if required and n == 0:
            raise ExtractError('adaptation pattern not found in %s: %s' % (self.what, pat))
        self.text = new
        return self

    def sha(self):
        return hashlib.sha256(self.text.encode()).hexdigest()[:16]


class Raw:
    """Literal glue text placed between extracted pieces (not from the repo)."""
    def __init__(self, text):
        self.text = text; self.prefix = ''; self.suffix = ''; self.source = None; self.line = 0; self.what = 'glue'


def assemble(pieces, out_path):
    """Write extracted.rs; returns (linemap, functions) where linemap = [(first_line, last_line, rel, repo_first_line)]."""
    lines = 1
    chunks = []
    linemap = []
    funcs = []
    for p in pieces:
        txt = p.prefix + p.text + p.suffix + '\n\n'
        n = txt.count('\n')
        if p.source is not None:
            off = p.prefix.count('\n')
            linemap.append((lines + off, lines + off + p.text.count('\n'), p.source.rel, p.line))
            funcs.append({'file': p.source.rel, 'item': p.what, 'line': p.line, 'sha256_16': p.sha()})
        chunks.append(txt)
        lines += n
    open(out_path, 'w').write(''.join(chunks))
    return linemap, funcs


def map_line(linemap, line):
    for a, b, rel, first in linemap:
        if a <= line <= b:
            return rel, first + (line - a)
    return None, None
