#!/usr/bin/env python3
"""devunit.py <prop-module> <ob-id-regex>: prepare the K-model unit of the first matching obligation in /var/tmp/verif-dev (kept) and print
the cargo kani command line - a development aid (fast compile / solve loop outside ./check)."""
import sys, os, re, importlib
HERE = os.path.dirname(os.path.dirname(os.path.abspath(__file__)))
sys.path.insert(0, os.path.join(HERE, 'tools')); sys.path.insert(0, os.path.join(HERE, 'props'))
os.environ['VERIF_KEEP_SCRATCH'] = '1'
import vlib, engines, shutil
vlib._scratch = '/var/tmp/verif-dev'
os.makedirs(vlib._scratch, exist_ok=True)
mod = importlib.import_module(sys.argv[1])
o = [o for o in mod.obligations() if re.search(sys.argv[2], o.ob_id) and o.engine == 'K-model'][0]
shutil.rmtree(os.path.join(vlib._scratch, 'kmodel', o.unit), ignore_errors=True)
info = engines.prepare_unit(o.unit, o.extract_fn)
print(info['error'] or '')
print(o.kani_cmd(info))
