"""Engine M: MIR control-flow graph + z3 (DESIGN.md 3.3).

The CFG of one function is read from `rustc -Zunpretty=mir`; every switchInt outcome is a free choice (all data
havoc'd), so the path set over-approximates the real one: UNSAT("a path reaches T avoiding edge e") is sound for the
real code.  The z3 formula's models are exactly the simple paths of the CFG (one Bool per edge, degree
conservation, strictly increasing integer rank along chosen edges).  A SAT answer is re-derived by plain graph
search before it is reported.
"""
import re, time
from collections import deque
import z3


class MirError(Exception):
    pass


class Call:
    def __init__(self, block, dest, callee, args, ret):
        self.block = block; self.dest = dest; self.callee = callee; self.args = args; self.ret = ret

    def __repr__(self):
        return 'call@%s %s = %s -> %s' % (self.block, self.dest, self.callee[:60], self.ret)


def _split_call(text):
    """`_5 = path::<T, (A, B)>::f(move _1, const 2)` -> (dest, callee, args); the argument list is the LAST top-level
    parenthesised group (type arguments may contain parentheses themselves)."""
    text = text.strip()
    if not text.endswith(')'):
        return None
    depth = 0; i = len(text) - 1
    while i >= 0:
        c = text[i]
        if c == ')': depth += 1
        elif c == '(':
            depth -= 1
            if depth == 0: break
        i -= 1
    if i <= 0:
        return None
    head = text[:i]; args = text[i + 1:-1]
    m = re.match(r'(\S+(?: as [^=]*)?|\(\*_\d+\)[^=]*?) = (.*)$', head)
    if m:
        return m.group(1), m.group(2), args
    return None, head, args


class Cfg:
    def __init__(self, mir, fn_re):
        m = re.search(r'^fn [^\n]*?' + fn_re + r'[^\n]*\{\n', mir, re.M)
        if not m:
            raise MirError('no MIR function matches /%s/' % fn_re)
        m2 = re.compile(r'^fn [^\n]*?' + fn_re + r'[^\n]*\{\n', re.M).search(mir, m.end())
        if m2:
            raise MirError('more than one MIR function matches /%s/' % fn_re)
        end = mir.index('\n}\n', m.end())
        self.mir = mir; self.start = m.start()
        self.name = mir[m.start():mir.index('(', m.start())][3:]
        self.body = mir[m.start():end]
        self.blocks = {}
        self.cleanup = set()
        for b in re.finditer(r'^    (bb\d+)( \(cleanup\))?: \{\n(.*?)^    \}', self.body, re.M | re.S):
            self.blocks[b.group(1)] = b.group(3)
            if b.group(2):
                self.cleanup.add(b.group(1))
        if not self.blocks:
            raise MirError('no basic blocks parsed')
        self.edges = []     # (src, label, dst)
        self.calls = {}
        self.term = {}
        for b, text in self.blocks.items():
            lines = [l.strip() for l in text.strip().split('\n') if l.strip()]
            term = lines[-1] if lines else ''
            self.term[b] = term
            if b in self.cleanup:
                continue
            mm = re.search(r'-> \[(.*)\];$', term)
            if mm:
                for part in mm.group(1).split(', '):
                    if ': ' not in part:
                        continue
                    lab, tgt = part.rsplit(': ', 1)
                    if tgt.startswith('bb') and lab.strip() != 'unwind':
                        self.edges.append((b, lab.strip(), tgt.strip()))
            else:
                mm = re.search(r'-> (bb\d+);$', term)
                if mm:
                    self.edges.append((b, 'goto', mm.group(1)))
            mc = re.match(r'(.*) -> \[return: (bb\d+)', term)
            if mc and not term.startswith(('drop(', 'assert(', 'switchInt(', 'falseEdge', 'falseUnwind')):
                parsed = _split_call(mc.group(1))
                if parsed:
                    self.calls[b] = Call(b, parsed[0], parsed[1], parsed[2], mc.group(2))
        self.succ = {}
        for a, l, c in self.edges:
            self.succ.setdefault(a, []).append((l, c))

    # ---- locating things ---------------------------------------------------------------------------
    def find_calls(self, callee_re, required=True):
        out = [c for c in self.calls.values() if re.search(callee_re, c.callee)]
        out.sort(key=lambda c: int(c.block[2:]))
        if required and not out:
            raise MirError('no call site matching /%s/ in %s' % (callee_re, self.name))
        return out

    def find_blocks(self, stmt_re):
        """Names of the (non-cleanup) blocks that contain a statement / terminator matching `stmt_re` (e.g. the assignment of the success value to
        the return place: `_0 = ...::Ok(`)."""
        return sorted([b for b, t in self.blocks.items() if b not in self.cleanup and re.search(stmt_re, t)], key=lambda b: int(b[2:]))

    def called_by_direct_callee(self, callee_re):
        """Is a call matching `callee_re` made by an in-crate function that THIS function calls directly?  (Used to tell
        'the check was moved into a helper' - cannot be decided intra-procedurally - from 'the check is gone'.)"""
        names = set()
        for c in self.calls.values():
            mm = re.search(r'([A-Za-z_][A-Za-z_0-9]*)(?:::<[^()]*>)?$', c.callee.strip())
            if mm:
                names.add(mm.group(1))
        for n in names:
            for fm in re.finditer(r'^fn [^\n]*?\b' + re.escape(n) + r'\([^\n]*\{\n', self.mir, re.M):
                if fm.start() == self.start:
                    continue
                try:
                    end = self.mir.index('\n}\n', fm.end())
                except ValueError:
                    continue
                body = self.mir[fm.end():end]
                for line in body.split('\n'):
                    if '-> [return:' in line or '-> bb' in line:
                        parsed = _split_call(line.strip().split(' -> ')[0])
                        if parsed and re.search(callee_re, parsed[1]):
                            return n
        return None

    def _follow(self, block, local, depth=8):
        """From `block`, follow straight-line code until `local` (or a copy / move / reference / Try::branch /
        discriminant / is_ok()/is_some() of it) is switched on.
        Returns (switch_block, {label: target}, mode) with mode in {'disc','bool','nbool'}: for 'bool' the `otherwise`
        arm means Ok/Some/true, for 'nbool' it means Err/None/false."""
        cur = block; loc = local; mode = 'disc'
        flip = lambda m: {'bool': 'nbool', 'nbool': 'bool', 'disc': 'nbool'}[m]
        for _ in range(depth):
            text = self.blocks[cur]
            for line in text.split('\n'):
                line = line.strip()
                mm = re.match(r'(_\d+) = (?:move |copy |&)?' + re.escape(loc) + r';$', line)
                if mm: loc = mm.group(1); continue
                mm = re.match(r'(_\d+) = discriminant\(' + re.escape(loc) + r'\);$', line)
                if mm: loc = mm.group(1); continue
                mm = re.match(r'(_\d+) = Not\((?:move |copy )?' + re.escape(loc) + r'\);$', line)
                if mm: loc = mm.group(1); mode = flip(mode) if mode != 'disc' else 'nbool'; continue
            term = self.term[cur]
            mm = re.match(r'switchInt\((?:move |copy )?' + re.escape(loc) + r'\) -> \[(.*)\];$', term)
            if mm:
                tg = {}
                for part in mm.group(1).split(', '):
                    lab, t = part.rsplit(': ', 1)
                    tg[lab.strip()] = t.strip()
                return cur, tg, mode
            mm = re.match(r'(_\d+) = <.* as (?:std::ops::)?Try>::branch\((?:move |copy )?' + re.escape(loc) + r'\) -> \[return: (bb\d+)', term)
            if mm:
                loc = mm.group(1); cur = mm.group(2); continue
            mm = re.match(r'(_\d+) = (?:Result|Option|std::result::Result|std::option::Option)::<.*>::(is_ok|is_some|is_err|is_none)\((?:move |copy )?' + re.escape(loc) + r'\) -> \[return: (bb\d+)', term)
            if mm:
                loc = mm.group(1); cur = mm.group(3)
                mode = 'bool' if mm.group(2) in ('is_ok', 'is_some') else 'nbool'
                continue
            mm = re.match(r'(_\d+) = (?:std::result::)?Result::<.*>::(?:map_err|map)::<.*\((?:move |copy )?' + re.escape(loc) + r'[,)].* -> \[return: (bb\d+)', term)
            if mm:
                # map / map_err keep the Ok / Err discriminant
                loc = mm.group(1); cur = mm.group(2); continue
            mm = re.match(r'goto -> (bb\d+);$', term)
            if mm:
                cur = mm.group(1); continue
            break
        raise MirError('result of the call in %s is not switched on (local %s)' % (block, local))

    def _two_way(self, call, pos, neg):
        sw, tg, mode = self._follow(call.ret, call.dest)
        if mode == 'disc':
            if '0' not in tg or '1' not in tg:
                raise MirError('switch on the result of %r has no 0/1 arms: %s' % (call, tg))
            return None, sw, tg
        if '0' not in tg or 'otherwise' not in tg:
            raise MirError('switch on the bool of %r has no 0/otherwise arms: %s' % (call, tg))
        t, f = (sw, tg['otherwise']), (sw, tg['0'])
        if mode == 'nbool':
            t, f = f, t
        return {pos: t, neg: f}, sw, tg

    def result_edges(self, call):
        """Ok / Err (or Continue / Break) edges of a call returning Result (discriminant 0 / 1, or via is_ok())."""
        d, sw, tg = self._two_way(call, 'ok', 'err')
        return d or {'ok': (sw, tg['0']), 'err': (sw, tg['1'])}

    def option_edges(self, call):
        d, sw, tg = self._two_way(call, 'some', 'none')
        return d or {'none': (sw, tg['0']), 'some': (sw, tg['1'])}

    def bool_edges(self, call):
        sw, tg, mode = self._follow(call.ret, call.dest)
        if '0' not in tg or 'otherwise' not in tg:
            raise MirError('switch on the bool of %r has no 0/otherwise arms: %s' % (call, tg))
        f, t = (sw, tg['0']), (sw, tg['otherwise'])
        if mode == 'nbool':
            f, t = t, f
        return {'true': t, 'false': f}

    # ---- plain graph search (cross-check of z3 answers) ----------------------------------------------
    def bfs(self, src, targets, forbidden=()):
        forb = set(forbidden)
        prev = {src: None}
        dq = deque([src])
        targets = set(targets)
        while dq:
            b = dq.popleft()
            if b in targets:
                path = []
                x = b
                while x is not None:
                    path.append(x); x = prev[x]
                return list(reversed(path))
            for l, c in self.succ.get(b, []):
                if (b, c) in forb or c in prev:
                    continue
                prev[c] = b; dq.append(c)
        return None


class Query:
    """Accumulates the z3 queries of one obligation."""

    def __init__(self, cfg):
        self.cfg = cfg
        self.n_queries = 0; self.n_unsat = 0; self.n_sat = 0; self.solver_s = 0.0
        self.failures = []; self.errors = []; self.paths = []; self.witness_ok = True
        self.log = []

    def _solve(self, src, targets, forbidden):
        """exists a simple path src -> one of targets avoiding the forbidden edges?  (z3)"""
        cfg = self.cfg
        t0 = time.time()
        s = z3.Solver()
        forb = set(forbidden)
        ev = []
        for i, (a, l, b) in enumerate(cfg.edges):
            v = z3.Bool('e%d' % i)
            ev.append(v)
            if (a, b) in forb:
                s.add(z3.Not(v))
        rank = {b: z3.Int('r_' + b) for b in cfg.blocks}
        ins = {b: [] for b in cfg.blocks}; outs = {b: [] for b in cfg.blocks}
        for i, (a, l, b) in enumerate(cfg.edges):
            if b in ins and a in outs:
                outs[a].append(ev[i]); ins[b].append(ev[i])
        tset = set(targets)
        is_end = {b: z3.Bool('end_' + b) for b in tset}
        s.add(z3.PbEq([(v, 1) for v in is_end.values()], 1))
        one = lambda xs: z3.Sum([z3.If(x, 1, 0) for x in xs]) if xs else z3.IntVal(0)
        for b in cfg.blocks:
            o = one(outs[b]); n = one(ins[b])
            if b == src and b in tset:
                s.add(z3.Or(z3.And(is_end[b], o == 0, n == 0), z3.And(z3.Not(is_end[b]), o == 1, n == 0)))
            elif b == src:
                s.add(o == 1, n == 0)
            elif b in tset:
                s.add(z3.If(is_end[b], z3.And(n == 1, o == 0), z3.And(n == o, n <= 1)))
            else:
                s.add(n == o, n <= 1)
        for i, (a, l, b) in enumerate(cfg.edges):
            s.add(z3.Implies(ev[i], rank[a] < rank[b]))
        r = s.check()
        self.n_queries += 1
        self.solver_s += time.time() - t0
        if r == z3.sat:
            self.n_sat += 1
            m = s.model()
            chosen = {a: b for i, (a, l, b) in enumerate(cfg.edges) if z3.is_true(m.eval(ev[i]))}
            path = [src]
            while path[-1] in chosen and len(path) < len(cfg.blocks) + 2:
                path.append(chosen[path[-1]])
            return 'sat', path
        if r == z3.unsat:
            self.n_unsat += 1
            return 'unsat', None
        return 'unknown', None

    def _describe(self, path):
        return [(b, self.cfg.term[b][:160]) for b in path]

    def must_pass(self, targets, edges, what, src='bb0'):
        """UNSAT( exists path src -> target avoiding all `edges` )"""
        tb = [t.block if isinstance(t, Call) else t for t in targets]
        res, path = self._solve(src, tb, edges)
        bfs = self.cfg.bfs(src, tb, edges)
        self.log.append('%s: %s' % (what, res))
        if res == 'unknown':
            self.errors.append('z3 returned unknown for: ' + what); return
        if (res == 'sat') != (bfs is not None):
            self.errors.append('z3 and graph search disagree on: ' + what); return
        if res == 'sat':
            self.failures.append(what)
            self.paths.append({'what': what, 'blocks': self._describe(path), 'bfs_confirmed': bfs is not None})

    def must_call(self, targets, callee_re, what, src='bb0'):
        """Every path src -> target passes a call to `callee_re`: UNSAT(path avoiding the return edges of all such calls).
        No such call site at all => the bypass is any path (FAILS, not an error)."""
        calls = self.cfg.find_calls(callee_re, required=False)
        edges = [(c.block, c.ret) for c in calls]
        self.must_pass(targets, edges, what, src=src)

    def gate(self, effects, callee_re, kind, what, accept=None, after_err=None):
        """Every path to an effect passes the ACCEPTING edge of a call matching `callee_re` (kind: result -> ok, bool -> true,
        option -> some; `accept` overrides).  If `after_err` is given, nothing leads from a rejecting edge to an effect either.
        A check that is no longer called at all (neither here nor in a function called directly from here) is a bypass:
        every path to the effect avoids it -> FAILS.  A check that moved into a direct callee cannot be decided here -> error."""
        cs = self.cfg.find_calls(callee_re, required=False)
        if not cs:
            moved = self.cfg.called_by_direct_callee(callee_re)
            if moved:
                self.errors.append('the call /%s/ moved into the callee %s: not decidable intra-procedurally' % (callee_re, moved)); return []
            tb = [t.block if isinstance(t, Call) else t for t in effects]
            bfs = self.cfg.bfs('bb0', tb, [])
            self.n_queries += 1
            if bfs is not None:
                self.n_sat += 1
                self.failures.append(what + ' (no call matching /%s/ is left in %s or in the functions it calls directly)' % (callee_re, self.cfg.name.strip()))
                self.paths.append({'what': what, 'blocks': self._describe(bfs), 'bfs_confirmed': True})
            return []
        pos = accept or {'result': 'ok', 'bool': 'true', 'option': 'some'}[kind]
        neg = {'ok': 'err', 'true': 'false', 'false': 'true', 'some': 'none', 'none': 'some', 'err': 'ok'}[pos]
        fn = {'result': self.cfg.result_edges, 'bool': self.cfg.bool_edges, 'option': self.cfg.option_edges}[kind]
        es = [fn(x) for x in cs]
        self.must_pass(effects, [e[pos] for e in es], what)
        if after_err:
            for e in es:
                self.must_not_reach(e[neg][1], effects, after_err)
        return cs

    def must_not_reach(self, src, targets, what):
        """UNSAT( exists path src -> target )"""
        self.must_pass(targets, [], what, src=src)

    def witness(self, targets, what, src='bb0'):
        tb = [t.block if isinstance(t, Call) else t for t in targets]
        res, path = self._solve(src, tb, [])
        self.log.append('witness %s: %s' % (what, res))
        if res != 'sat':
            self.witness_ok = False
