"""The three engines (DESIGN.md section 3): K-model, K-real, M."""
import os, re, shutil, json, time, threading, subprocess
import vlib, extract
from vlib import Result, run, log

_lock = threading.Lock()
_unit_cache = {}
# CBMC 6.11's array field-sensitivity produced a SPURIOUS counterexample on the byte-level store model (a value read back through
# a closure differed from the same bytes read directly; it did not replay natively and disappears with the flag below), so the
# optimisation is switched off for every Kani run.
CBMC_ARGS = ' -Z unstable-options --cbmc-args --no-array-field-sensitivity'


def tier_pick(tier, quick, thorough):
    return thorough if tier == 'thorough' else quick


# =================================================================================================
# K-model
# =================================================================================================

def prepare_unit(unit, extract_fn):
    """Copy /verif/kani_model/{prelude,<unit>} to scratch and regenerate src/extracted.rs from /repo."""
    with _lock:
        if unit in _unit_cache:
            return _unit_cache[unit]
        root = os.path.join(vlib.scratch(), 'kmodel')
        os.makedirs(root, exist_ok=True)
        if not os.path.isdir(os.path.join(root, 'prelude')):
            shutil.copytree(os.path.join(vlib.VERIF, 'kani_model', 'prelude'), os.path.join(root, 'prelude'))
        # `<unit>:<variant>`: the same harness crate with ANOTHER extraction recipe (its own scratch copy, its own extracted.rs)
        crate = os.path.join(root, unit.replace(':', '-'))
        shutil.copytree(os.path.join(vlib.VERIF, 'kani_model', unit.split(':')[0]), crate)
        info = {'crate': crate, 'error': None, 'linemap': [], 'functions': [], 'extracted_lines': []}
        try:
            pieces = extract_fn(vlib.REPO)
            lm, funcs = extract.assemble(pieces, os.path.join(crate, 'src', 'extracted.rs'))
            info['linemap'] = lm; info['functions'] = funcs
            info['extracted_lines'] = open(os.path.join(crate, 'src', 'extracted.rs')).read().split('\n')
        except extract.ExtractError as e:
            info['error'] = 'extraction failed: %s' % e
        _unit_cache[unit] = info
        return info


class KModelOb:
    engine = 'K-model'

    def __init__(self, ob_id, unit, harness, desc, extract_fn, bounds, cuts=(), timeout=600, mem_gb=12,
                 tiers=('quick', 'thorough'), min_covers=1, weight=1, rustflags=None, field_sensitivity=False):
        # field_sensitivity=True: run CBMC in its DEFAULT mode (array field sensitivity on) for units whose symbolic execution does not
        # terminate without it (constant propagation through arrays inside structs bounds their loops); see DESIGN.md 11.2
        self.rustflags = rustflags; self.field_sensitivity = field_sensitivity
        self.ob_id = ob_id; self.unit = unit; self.harness = harness; self.desc = desc
        self.extract_fn = extract_fn; self.bounds = bounds; self.cuts = list(cuts)
        self.timeout = timeout; self.mem_gb = mem_gb; self.tiers = tiers; self.min_covers = min_covers
        self.weight = weight

    def kani_cmd(self, info, playback=False):
        tdir = os.path.join(vlib.scratch(), 'kt', '%s-%s%s' % (self.unit.replace(':', '-'), self.harness, '-f' if self.rustflags else ''))
        if self.field_sensitivity and 'CBMC array field sensitivity ON' not in ' '.join(self.cuts):
            self.cuts.append('CBMC array field sensitivity ON (CBMC default) for this unit - every other unit runs with --no-array-field-sensitivity')
        cmd = 'cd %s && cargo kani --harness %s --target-dir %s' % (info['crate'], self.harness, tdir)
        if playback:
            cmd += ' -Z concrete-playback --concrete-playback=print'
        return cmd + ('' if self.field_sensitivity else CBMC_ARGS)

    def run(self, ctx):
        r = Result(self.ob_id, self.engine, self.desc)
        r.bounds = self.bounds; r.cuts = self.cuts
        info = prepare_unit(self.unit, self.extract_fn)
        r.functions = info['functions']
        if info['error']:
            r.status = 'INCONCLUSIVE'; r.reason = info['error']; return r
        logf = os.path.join(ctx.logdir, '%s.%s.log' % (ctx.prop, self.ob_id))
        env = vlib.env_offline({'RUSTFLAGS': self.rustflags}) if self.rustflags else None
        rc, out, secs = run(self.kani_cmd(info), timeout=self.timeout, mem_gb=self.mem_gb, logfile=logf, env=env)
        r.secs = secs; r.logfile = logf
        return finish_kani(self, r, ctx, info, rc, out)


def finish_kani(ob, r, ctx, info, rc, out):
    pk = vlib.parse_kani(out)
    r.stats = pk['stats']
    if rc == -9:
        r.status = 'INCONCLUSIVE'; r.reason = 'timeout after %ss' % ob.timeout; return r
    if pk['verdict'] is None:
        if re.search(r'error(\[E\d+\])?:', out) and 'Checking harness' not in out:
            r.reason = 'harness crate does not build against the current source (model prelude lacks an API the edited text uses, or a syntax error): ' + first_error(out)
        elif 'memory' in out.lower() or 'bad_alloc' in out or rc in (134, 137, -6):
            r.reason = 'out of memory under ulimit %s GB' % ob.mem_gb
        else:
            r.reason = 'no verdict from Kani (rc=%s): %s' % (rc, out.strip().split('\n')[-1][:200])
        r.status = 'INCONCLUSIVE'; return r
    if 'Solver ran out of memory' in out or re.search(r'^Out of memory|CBMC failed with status', out, re.M) or any(c.status == 'ERROR' for c in pk['checks']):
        r.status = 'INCONCLUSIVE'; r.reason = 'solver ran out of memory / Status: ERROR under ulimit %s GB' % ob.mem_gb; return r
    sat = [c for c in pk['covers'] if c[1] == 'SATISFIED']
    r.witness_ok = len(sat) >= ob.min_covers
    r.stats['covers'] = ['%s: %s' % c for c in pk['covers']]
    fails = []
    nan_ignored = [c for c in pk['failed'] if c.desc.startswith('NaN on ')]
    r.stats['ignored_nan_checks'] = len(nan_ignored)
    for c in [x for x in pk['failed'] if not x.desc.startswith('NaN on ')] + pk['undetermined']:
        d = vlib.classify(c, info['linemap'], info['crate'], info['extracted_lines'])
        if c.status == 'UNDETERMINED':
            d['attributed'] = False; d['kind'] = 'undetermined'
        fails.append(d)
    r.failures = fails
    if any(re.search(r'unwinding assertion', f['description']) for f in fails):
        r.status = 'INCONCLUSIVE'; r.reason = 'unwinding bound too small (unwinding assertion failed)'; return r
    noise = [f for f in fails if not f['attributed']]
    real = [f for f in fails if f['attributed']]
    if noise:
        r.status = 'INCONCLUSIVE'
        r.reason = 'failing check outside the obligation (model bound / prelude / harness internals): ' + '; '.join(f['text'] for f in noise[:3])
        return r
    if real:
        r.status = 'FAILS'; r.reason = '; '.join(f['text'] for f in real[:4]); return r
    if pk['verdict'] == 'SUCCESSFUL' or (pk['verdict'] == 'FAILED' and nan_ignored and not fails and len(nan_ignored) == len(pk['failed'])):
        if not r.witness_ok:
            r.status = 'INCONCLUSIVE'; r.reason = 'vacuity witness not satisfied (%d of >=%d cover properties)' % (len(sat), ob.min_covers)
        else:
            r.status = 'HOLDS'
        return r
    r.status = 'INCONCLUSIVE'; r.reason = 'Kani verdict %s without an attributable failed check' % pk['verdict']
    return r


def first_error(out):
    m = re.search(r'^(error(\[E\d+\])?:.*(?:\n.*){0,6})', out, re.M)
    return (m.group(1) if m else out[-400:]).replace('\n', ' | ')[:600]


# =================================================================================================
# K-real
# =================================================================================================

_real_prepared = {}


def prepare_real(host_rel, harness_file):
    """Append `#[cfg(kani)] #[path=..] mod verif_kani_<x>;` to the scratch copy of the real source file."""
    with _lock:
        key = (host_rel, harness_file)
        if key in _real_prepared:
            return _real_prepared[key]
        repo = vlib.repo_copy()
        hdir = os.path.join(vlib.scratch(), 'kreal')
        os.makedirs(hdir, exist_ok=True)
        src = os.path.join(vlib.VERIF, 'kani_real', harness_file)
        dst = os.path.join(hdir, harness_file)
        shutil.copy(src, dst)
        modname = 'verif_kani_' + re.sub(r'\W', '_', harness_file[:-3])
        host = os.path.join(repo, host_rel)
        if not os.path.exists(host):
            _real_prepared[key] = 'host file %s missing' % host_rel
            return _real_prepared[key]
        with open(host, 'a') as f:
            f.write('\n#[cfg(kani)] #[path = "%s"] mod %s;\n' % (dst, modname))
        _real_prepared[key] = None
        return None


_real_build_lock = threading.Lock()
_real_built = [False]


class KRealOb:
    engine = 'K-real'

    def __init__(self, ob_id, host_rel, harness_file, harness, desc, bounds, cuts=(), timeout=900, mem_gb=12,
                 tiers=('quick', 'thorough'), min_covers=0, functions=(), weight=1):
        self.ob_id = ob_id; self.host_rel = host_rel; self.harness_file = harness_file; self.harness = harness
        self.desc = desc; self.bounds = bounds; self.cuts = list(cuts); self.timeout = timeout; self.mem_gb = mem_gb
        self.tiers = tiers; self.min_covers = min_covers; self.functions = list(functions); self.weight = weight

    def run(self, ctx):
        r = Result(self.ob_id, self.engine, self.desc)
        r.bounds = self.bounds; r.cuts = self.cuts
        err = prepare_real(self.host_rel, self.harness_file)
        if err:
            r.reason = err; return r
        repo = vlib.repo_copy()
        r.functions = [{'file': self.host_rel, 'item': f, 'sha256_16': vlib.sha(open(os.path.join(repo, self.host_rel)).read())}
                       for f in self.functions]
        logf = os.path.join(ctx.logdir, '%s.%s.log' % (ctx.prop, self.ob_id))
        # the crate itself is compiled once (cargo's lock serialises); each harness then runs CBMC on its own
        cmd = ('cd %s && cargo kani -Z stubbing --harness %s --target-dir %s'
               % (repo, self.harness, vlib.KANI_TARGET)) + CBMC_ARGS
        with _real_build_lock:
            if not _real_built[0]:
                # the Kani target directory of the real crate is shared by all checks: two check PROCESSES working in it at the same time
                # (e.g. two seeded changes checked in parallel) corrupt each other's goto binaries (goto-instrument aborts).  One process at a
                # time: an advisory lock, taken at the first K-real obligation and held until this check exits.
                import fcntl
                global _real_flock
                _real_flock = open(vlib.KANI_TARGET + '.lock', 'w')
                t0 = time.time()
                fcntl.flock(_real_flock, fcntl.LOCK_EX)
                if time.time() - t0 > 1:
                    log('[K-real] waited %.0fs for another check process using the shared Kani target directory' % (time.time() - t0))
                t0 = time.time()
                rc, out, secs = run('cd %s && cargo kani -Z stubbing --only-codegen --target-dir %s' % (repo, vlib.KANI_TARGET),
                                    timeout=1500, mem_gb=24, logfile=os.path.join(ctx.logdir, '%s.kreal-build.log' % ctx.prop))
                _real_built[0] = True
                if rc != 0:
                    _real_built.append('build failed: ' + first_error(out))
                log('[K-real] crate codegen %.0fs rc=%s' % (time.time() - t0, rc))
        if len(_real_built) > 1:
            r.reason = 'real crate does not build under Kani: ' + _real_built[1]; return r
        rc, out, secs = run(cmd, timeout=self.timeout, mem_gb=self.mem_gb, logfile=logf)
        r.secs = secs; r.logfile = logf
        info = {'linemap': [], 'crate': repo, 'extracted_lines': []}
        return finish_kani_real(self, r, ctx, rc, out)


def finish_kani_real(ob, r, ctx, rc, out):
    pk = vlib.parse_kani(out)
    r.stats = pk['stats']
    if rc == -9:
        r.reason = 'timeout after %ss' % ob.timeout; return r
    if pk['verdict'] is None:
        r.reason = 'no verdict from Kani (rc=%s): %s' % (rc, first_error(out)); return r
    if 'Solver ran out of memory' in out or re.search(r'^Out of memory|CBMC failed with status', out, re.M) or any(c.status == 'ERROR' for c in pk['checks']):
        r.reason = 'solver ran out of memory / Status: ERROR under ulimit %s GB' % ob.mem_gb; return r
    sat = [c for c in pk['covers'] if c[1] == 'SATISFIED']
    r.witness_ok = len(sat) >= ob.min_covers
    r.stats['covers'] = ['%s: %s' % c for c in pk['covers']]
    repo = vlib.repo_copy()
    fails = []
    for c in pk['failed'] + pk['undetermined']:
        f = c.file or ''
        d = {'description': c.desc, 'kani_location': '%s:%s' % (f, c.line), 'function': c.func}
        base = os.path.basename(f)
        if c.status == 'UNDETERMINED':
            d.update(kind='undetermined', attributed=False, text=c.desc)
        elif re.search(r'unwinding assertion', c.desc):
            d.update(kind='bound', attributed=False, text=c.desc)
        elif 'verif_kani' in (c.func or '') or f.startswith(os.path.join(vlib.scratch(), 'kreal')):
            if re.search(r'attempt to .* with overflow|index out of bounds', c.desc):
                d.update(kind='harness-internal', attributed=False, text='%s @ %s:%s' % (c.desc, base, c.line))
            else:
                d.update(kind='harness-assertion', attributed=True, text='assert: %s' % c.desc, where='%s:%s' % (base, c.line))
        elif f.startswith('src/') or f.startswith(repo):
            rel = f[len(repo) + 1:] if f.startswith(repo) else f
            try:
                srcline = open(os.path.join(repo, rel)).read().split('\n')[c.line - 1].strip()
            except Exception:
                srcline = ''
            d.update(kind='in-real-source', attributed=True, where='%s:%s' % (rel, c.line),
                     text='%s :: `%s` :: %s' % (rel, srcline, c.desc))
        elif any(re.search(p, c.desc) for p in vlib.DELIBERATE_PANICS) or 'numext' in f or 'numext' in (c.func or ''):
            d.update(kind='dependency-panic-reached-from-real-code', attributed=True, where='%s:%s' % (base, c.line),
                     text='panic in dependency: %s (in %s)' % (c.desc, c.func or base))
        else:
            d.update(kind='library-internal', attributed=False, text='%s @ %s:%s' % (c.desc, f, c.line))
        fails.append(d)
    r.failures = fails
    if any(f['kind'] == 'bound' for f in fails):
        r.reason = 'unwinding bound too small'; return r
    noise = [f for f in fails if not f['attributed']]
    real = [f for f in fails if f['attributed']]
    if noise:
        r.reason = 'failing check outside the obligation: ' + '; '.join(f['text'] for f in noise[:3]); return r
    if real:
        r.status = 'FAILS'; r.reason = '; '.join(f['text'] for f in real[:4]); return r
    if pk['verdict'] == 'SUCCESSFUL':
        if not r.witness_ok:
            r.reason = 'vacuity witness not satisfied'
        else:
            r.status = 'HOLDS'
        return r
    r.reason = 'Kani verdict %s without an attributable failed check' % pk['verdict']
    return r


# =================================================================================================
# M — MIR control flow + z3
# =================================================================================================

_mir = {}
_mir_lock = threading.Lock()
_z3_lock = threading.Lock()


def mir_dump(ctx):
    with _mir_lock:
        if 'path' in _mir or 'error' in _mir:
            return _mir
        repo = vlib.repo_copy()
        out_path = os.path.join(vlib.scratch(), 'crate.mir')
        t0 = time.time()
        rc, out, secs = run('cd %s && cargo +nightly rustc --offline --bin ckb-light-client --target-dir %s -- -Zunpretty=mir -o %s'
                            % (repo, vlib.MIR_TARGET, out_path), timeout=1800, mem_gb=24,
                            logfile=os.path.join(ctx.logdir, '%s.mir-build.log' % ctx.prop))
        if rc != 0 or not os.path.exists(out_path):
            _mir['error'] = 'MIR dump failed (the edited crate does not compile?): ' + first_error(out)
        else:
            _mir['path'] = out_path
            _mir['text'] = open(out_path).read()
        _mir['secs'] = time.time() - t0
        log('[M] MIR dump %.0fs rc=%s' % (_mir['secs'], rc))
        return _mir


class MirOb:
    """One family of must-precede / must-not-follow queries on one function's MIR CFG (tools/mirpaths.py)."""
    engine = 'M'

    def __init__(self, ob_id, desc, fn_re, query_fn, bounds='intra-procedural, all switch outcomes free (data havoc), simple paths',
                 tiers=('quick', 'thorough'), src_rel=None, weight=0):
        self.ob_id = ob_id; self.desc = desc; self.fn_re = fn_re; self.query_fn = query_fn; self.bounds = bounds
        self.tiers = tiers; self.src_rel = src_rel; self.weight = weight; self.timeout = 600; self.mem_gb = 8

    def run(self, ctx):
        import mirpaths
        r = Result(self.ob_id, self.engine, self.desc)
        r.bounds = self.bounds
        r.cuts = ['callee bodies not entered (intra-procedural); all data havoc: every switchInt outcome is a free choice']
        m = mir_dump(ctx)
        if 'error' in m:
            r.reason = m['error']; return r
        t0 = time.time()
        _z3_lock.acquire()   # the z3 Python API is not thread-safe
        try:
            return self._run_locked(ctx, r, m, t0)
        finally:
            _z3_lock.release()

    def _run_locked(self, ctx, r, m, t0):
        import mirpaths
        try:
            cfg = mirpaths.Cfg(m['text'], self.fn_re)
        except mirpaths.MirError as e:
            r.reason = 'MIR function not found / not parsable: %s' % e; return r
        r.functions = [{'file': self.src_rel or '', 'item': cfg.name, 'mir_blocks': len(cfg.blocks), 'mir_edges': len(cfg.edges),
                        'sha256_16': vlib.sha(cfg.body)}]
        try:
            q = self.query_fn(cfg)
        except mirpaths.MirError as e:
            r.reason = 'query could not be formed on the current MIR (call site or check edge not found): %s' % e
            r.secs = time.time() - t0
            return r
        r.secs = time.time() - t0
        r.queries = q.n_queries
        r.stats = {'z3_queries': q.n_queries, 'z3_s': round(q.solver_s, 3), 'unsat': q.n_unsat, 'sat': q.n_sat}
        r.witness_ok = q.witness_ok
        r.failures = [{'kind': 'bypass-path', 'attributed': True, 'text': f, 'description': f} for f in q.failures]
        if q.errors:
            r.reason = '; '.join(q.errors[:3]); return r
        if q.failures:
            r.status = 'FAILS'; r.reason = '; '.join(q.failures[:4]); r.replay_paths = q.paths; return r
        if not q.witness_ok:
            r.reason = 'reachability witness query not SAT (target not reachable at all?)'; return r
        r.status = 'HOLDS'
        return r
