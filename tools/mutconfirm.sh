#!/bin/bash
# mutconfirm.sh <mutation-dir> <out-log>: in a scratch worktree confirm (1) demo passes on the clean tree, (2) demo fails with the
# change, (3) the existing suite passes with the change.
D="$1"; OUT="$2"
W=/tmp/mut/confirm
if [ ! -d $W ]; then git -C /repo worktree add -q --detach $W HEAD && cp -a /repo/target $W/target; fi
cd $W && git checkout -q --detach $(git -C /repo rev-parse HEAD) && git checkout -- . && git clean -fdq -e target
export TMPDIR=$W/target/tmpd; rm -rf $TMPDIR; mkdir -p $TMPDIR
T="$3"; [ -z "$T" ] && T=$(grep -o "^+ *\(async \)\?fn [a-z_0-9]*" "$D/demo.diff" | tail -1 | awk '{print $NF}')
echo "=== $D demo=$T" >> "$OUT"
git apply "$D/demo.diff" || { echo "demo does not apply" >> "$OUT"; exit 1; }
r1=$(cargo test --offline "$T" 2>&1 | grep -E "^test result" | head -1)
git apply "$D/patch.diff" || { echo "patch does not apply" >> "$OUT"; exit 1; }
r2=$(cargo test --offline "$T" 2>&1 | grep -E "^test result" | head -1)
git apply -R "$D/demo.diff"
r3=$(cargo test --offline 2>&1 | grep -E "^test result" | head -1)
git checkout -- . ; rm -rf $TMPDIR
echo "clean+demo: $r1" >> "$OUT"; echo "mutated+demo: $r2" >> "$OUT"; echo "mutated suite: $r3" >> "$OUT"
