#!/usr/bin/env python3
"""Generate a cargo *directory source* from the cargo-1.72 registry cache so that newer cargos
(Kani's nightly, rustup nightly) can resolve /repo's Cargo.lock offline. Usage: mkvendor.py <outdir>"""
import os, sys, hashlib, json, glob, shutil, re
out = sys.argv[1]
reg = os.path.expanduser('~/.cargo/registry')
src = glob.glob(reg + '/src/*d8f576cf6a597a10')[0]
cache = glob.glob(reg + '/cache/*d8f576cf6a597a10')[0]
os.makedirs(out, exist_ok=True)
for d in sorted(os.listdir(src)):
    crate = os.path.join(cache, d + '.crate')
    if not os.path.exists(crate):
        continue
    dst = os.path.join(out, d)
    if os.path.exists(dst):
        continue
    os.makedirs(dst)
    for e in os.listdir(os.path.join(src, d)):
        if e == '.cargo-ok':
            continue
        os.symlink(os.path.join(src, d, e), os.path.join(dst, e))
    h = hashlib.sha256(open(crate, 'rb').read()).hexdigest()
    json.dump({"files": {}, "package": h}, open(os.path.join(dst, '.cargo-checksum.json'), 'w'))
# build-only patch: ahash 0.7.7 enables the removed `stdsimd` feature on nightly
b = os.path.join(out, 'ahash-0.7.7', 'build.rs')
if os.path.islink(b):
    real = os.readlink(b); os.unlink(b); shutil.copy(real, b)
    s = open(b).read()
    s = re.sub(r'\s*println!\("cargo:rustc-cfg=feature=\\"(specialize|stdsimd)\\""\);', '', s)
    open(b, 'w').write(s)
print('vendor dir ready:', out)
