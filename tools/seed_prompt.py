# Prompt generator for the seeding sub-agents: `python3 tools/seed_prompt.py <Cxx> <scratch worktree>` prints the task text (only the property title + statement and the worktree path; nothing from /verif).
import json,sys
pid, wt = sys.argv[1], sys.argv[2]
p = {json.loads(l)['id']: json.loads(l) for l in open('/verif/properties.jsonl')}[pid]
print(f"""You are helping to evaluate a verification effort by playing the role of a developer who makes a subtle mistake. The project is nervosnetwork/ckb-light-client (a Rust CKB blockchain light client). You have your own scratch git worktree of the repository at {wt} (detached HEAD; it already contains a compiled `target/` directory so `cargo test --offline` only rebuilds the crate itself; ALWAYS pass `--offline`; the sandbox has no network). Work ONLY inside {wt}. Never read or write /repo or /verif, and do not look at anything outside {wt} except the Rust toolchain and ~/.cargo registry sources of dependencies.

The property under study:

  {p['id']} - {p['title']}
  {p['statement']}

Your task: produce THREE independent, realistic source changes (mutations) to the non-test code of the repository, each of which
  (a) BREAKS this property (the real program then misbehaves with respect to the property statement),
  (b) still compiles, and the ENTIRE existing test suite still passes with it (`cargo test --offline` in {wt}: 115 tests, all must pass),
  (c) needs something SPECIFIC to manifest - a particular interleaving or event order, a crash/fault at a particular point, a multi-step sequence of operations, an unusual or boundary input, or two cooperating code sites that each look fine alone - NOT something ordinary use would expose at once,
  (d) looks like a plausible developer slip or a well-meant 'simplification' / 'optimisation' (wrong variable, off-by-one, dropped or weakened guard, reordered statements, wrong comparison, stale value, check moved to the wrong place ...), small (a few lines), in different functions / files from each other where possible. Do not merely revert recent commits wholesale; do not touch test files in the mutation patch.
For each mutation also write a DEMONSTRATION: a new test (added to the repository's existing test modules, using its MockChain / MockNetworkContext / storage test helpers where useful) or small program that PASSES on the clean tree and FAILS with the mutation applied, showing the property violation through real code.

Deliverables, for k = 1, 2, 3, in {wt}/mutations/<k>/ :
  patch.diff  - the mutation only (`git diff` of non-test source files; must apply with `git apply` on the clean HEAD)
  demo.diff   - the demonstration only (new test code; must apply with `git apply` on the clean HEAD, independently of patch.diff, and the two must also apply together)
  notes.md    - what was changed and where; why it breaks the property; 'What is needed to manifest: ...' (one paragraph); the demo test name; the exact commands you ran and their results for: full suite passes with mutation (yes/no), demo passes clean (yes/no), demo fails mutated (yes/no).
Verify all three facts yourself for each mutation before finishing, and leave the worktree clean (`git checkout -- . && git clean -fdq -e target -e mutations`) at the end. Use `TMPDIR={wt}/target/tmpd` (create it; delete it at the end) for test runs so temporary RocksDB directories do not pile up in /tmp. Run cargo with at most `-j 6` / `--test-threads 4` since other jobs share the machine. If an idea turns out to be caught by the existing tests, discard it and find another. Report briefly at the end: for each mutation one line (file, function, idea, demo test name) and the verification results.""")
