#!/usr/bin/env python3
"""Common machinery of the solver-based checks (see DESIGN.md section 3).

Everything a check needs is regenerated from /repo's current working tree inside a scratch
directory outside /repo and /verif, which is removed on exit.  Persistent, source-independent build
products (vendor directory, compiled dependencies) live under /verif/.cache (git-ignored).
"""
import atexit, hashlib, json, os, re, shutil, signal, subprocess, sys, time, glob, threading
from concurrent.futures import ThreadPoolExecutor

VERIF = os.path.dirname(os.path.dirname(os.path.abspath(__file__)))
REPO = os.environ.get('VERIF_REPO', '/repo')
CACHE = os.path.join(VERIF, '.cache')
VENDOR = os.path.join(CACHE, 'vendor')
KANI_TARGET = os.path.join(CACHE, 'kani-target')
MIR_TARGET = os.path.join(CACHE, 'mir-target')
REPLAY_TARGET = os.path.join(CACHE, 'replay-target')
KANI_TOOLCHAIN = 'nightly-2026-08-21'

sys.path.insert(0, os.path.join(VERIF, 'tools'))

_scratch = None


def log(*a):
    print(*a, flush=True)


def scratch():
    """Fresh scratch directory (outside /repo and /verif), removed at exit."""
    global _scratch
    if _scratch is None:
        base = os.environ.get('VERIF_SCRATCH', '/var/tmp')
        _scratch = os.path.join(base, 'verif-%d' % os.getpid())
        shutil.rmtree(_scratch, ignore_errors=True)
        os.makedirs(_scratch)
        if not os.environ.get('VERIF_KEEP_SCRATCH'):
            atexit.register(lambda: shutil.rmtree(_scratch, ignore_errors=True))
    return _scratch


def ensure_vendor():
    if not os.path.isdir(os.path.join(VENDOR, 'ahash-0.7.7')):
        subprocess.check_call([sys.executable, os.path.join(VERIF, 'tools', 'mkvendor.py'), VENDOR],
                              stdout=subprocess.DEVNULL)


CARGO_CONFIG = '''[source.crates-io]
replace-with = "vendored-sources"
[source.vendored-sources]
directory = "%s"
[net]
offline = true
''' % VENDOR

_repo_copy = None


def repo_copy():
    """rsync /repo's current working tree (minus target/.git) to scratch; add the build-only lint allow
    and the vendor config.  Returns the path of the copy."""
    global _repo_copy
    if _repo_copy:
        return _repo_copy
    ensure_vendor()
    dst = os.path.join(scratch(), 'repo')
    subprocess.check_call(['rsync', '-a', '--delete', '--exclude', '/target', '--exclude', '/.git', REPO + '/', dst + '/'])
    os.makedirs(os.path.join(dst, '.cargo'), exist_ok=True)
    open(os.path.join(dst, '.cargo', 'config.toml'), 'w').write(CARGO_CONFIG)
    # toolchain file would force 1.72.1 on Kani's / nightly's cargo
    tf = os.path.join(dst, 'rust-toolchain')
    if os.path.exists(tf):
        os.unlink(tf)
    mainrs = os.path.join(dst, 'src', 'main.rs')
    s = open(mainrs).read()
    open(mainrs, 'w').write('#![allow(unknown_lints, dangerous_implicit_autorefs)]\n' + s)
    _repo_copy = dst
    return dst


def sha(s):
    return hashlib.sha256(s.encode()).hexdigest()[:16]


def env_offline(extra=None):
    e = dict(os.environ)
    e.update({'CARGO_NET_OFFLINE': 'true', 'CARGO_TERM_COLOR': 'never'})
    e.pop('RUSTUP_TOOLCHAIN', None)
    if extra:
        e.update(extra)
    return e


def run(cmd, cwd=None, timeout=None, mem_gb=None, env=None, logfile=None):
    """Run a command under ulimit -v and a timeout, in its own process group.  Returns (rc, output, secs);
    rc = -9 on timeout."""
    pre = ''
    if mem_gb:
        pre = 'ulimit -v %d; ' % int(mem_gb * 1024 * 1024)
    if isinstance(cmd, (list, tuple)):
        cmd = ' '.join("'%s'" % c.replace("'", "'\\''") for c in cmd)
    t0 = time.time()
    p = subprocess.Popen(['bash', '-c', pre + 'exec ' + cmd if not cmd.lstrip().startswith('cd ') else pre + cmd],
                         cwd=cwd, env=env or env_offline(),
                         stdout=subprocess.PIPE, stderr=subprocess.STDOUT, start_new_session=True, text=True,
                         errors='replace')
    try:
        out, _ = p.communicate(timeout=timeout)
        rc = p.returncode
    except subprocess.TimeoutExpired:
        try:
            os.killpg(p.pid, signal.SIGKILL)
        except ProcessLookupError:
            pass
        out, _ = p.communicate()
        rc = -9
        out += '\n[verif] TIMEOUT after %ss\n' % timeout
    secs = time.time() - t0
    if logfile:
        open(logfile, 'w').write(out)
    return rc, out, secs


# ------------------------------------------------------------------------------------------------
# Kani output parsing
# ------------------------------------------------------------------------------------------------

class Check:
    __slots__ = ('cid', 'status', 'desc', 'file', 'line', 'col', 'func')

    def __init__(self, cid):
        self.cid = cid; self.status = None; self.desc = ''; self.file = None; self.line = 0; self.col = 0; self.func = ''

    def as_dict(self):
        return {'id': self.cid, 'status': self.status, 'description': self.desc,
                'location': '%s:%s:%s' % (self.file, self.line, self.col), 'function': self.func}


def parse_kani(out):
    """-> dict(verdict, checks=[Check], failed=[Check], covers=[(desc,status)], stats)"""
    checks = []
    cur = None
    for line in out.split('\n'):
        m = re.match(r'^Check \d+: (\S+)', line)
        if m:
            cur = Check(m.group(1)); checks.append(cur); continue
        if cur is not None:
            m = re.match(r'^\s+- Status: (\S+)', line)
            if m: cur.status = m.group(1); continue
            m = re.match(r'^\s+- Description: "(.*)"\s*$', line)
            if m: cur.desc = m.group(1); continue
            m = re.match(r'^\s+- Location: (\S+?):(\d+):(\d+)(?: in function (.*))?', line)
            if m:
                cur.file = m.group(1); cur.line = int(m.group(2)); cur.col = int(m.group(3)); cur.func = m.group(4) or ''
                continue
            m = re.match(r'^\s+- Location: (.*)', line)
            if m: cur.file = m.group(1); continue
            if line.startswith('SUMMARY'):
                cur = None
    verdict = None
    m = re.search(r'^VERIFICATION:- (\w+)', out, re.M)
    if m:
        verdict = m.group(1)
    covers = [(c.desc, c.status) for c in checks if '.cover.' in c.cid or c.status in ('SATISFIED', 'UNSATISFIABLE')]
    failed = [c for c in checks if c.status in ('FAILURE',)]
    undetermined = [c for c in checks if c.status in ('UNDETERMINED',)]
    stats = {}
    m = re.search(r'size of program expression: (\d+) steps', out)
    if m: stats['program_steps'] = int(m.group(1))
    m = re.search(r'(\d+) variables, (\d+) clauses', out)
    if m: stats['variables'] = int(m.group(1)); stats['clauses'] = int(m.group(2))
    m = re.search(r'Runtime decision procedure: ([\d.]+)s', out)
    if m: stats['solver_s'] = float(m.group(1))
    m = re.search(r'Verification Time: ([\d.]+)s', out)
    if m: stats['verification_s'] = float(m.group(1))
    stats['checks_total'] = len(checks)
    return {'verdict': verdict, 'checks': checks, 'failed': failed, 'undetermined': undetermined,
            'covers': covers, 'stats': stats}


# ------------------------------------------------------------------------------------------------
# Obligation results
# ------------------------------------------------------------------------------------------------

class Result:
    """Outcome of one obligation (= one solver query family)."""

    def __init__(self, ob_id, engine, desc):
        self.ob_id = ob_id; self.engine = engine; self.desc = desc
        self.status = 'INCONCLUSIVE'   # HOLDS | FAILS | INCONCLUSIVE
        self.reason = ''
        self.failures = []      # list of dict(kind, text, where, attributed(bool))
        self.witness_ok = None
        self.secs = 0.0
        self.stats = {}
        self.bounds = ''
        self.functions = []     # [(repo path, item, sha)]
        self.cuts = []
        self.logfile = None
        self.replay = None
        self.queries = 1

    def as_dict(self):
        return {'obligation': self.ob_id, 'engine': self.engine, 'what': self.desc, 'status': self.status,
                'reason': self.reason, 'failures': self.failures, 'vacuity_witness_ok': self.witness_ok,
                'solver_wall_s': round(self.secs, 2), 'stats': self.stats, 'bounds': self.bounds,
                'functions_encoded': self.functions, 'cuts_and_stubs': self.cuts, 'queries': self.queries}


# ------------------------------------------------------------------------------------------------
# Known findings
# ------------------------------------------------------------------------------------------------

def load_known():
    p = os.path.join(VERIF, 'known_findings.json')
    if not os.path.exists(p):
        return {'findings': [], 'fixed': []}
    return json.load(open(p))


def match_known(known, prop, ob_id, text):
    for f in known.get('findings', []):
        if f['property'] != prop:
            continue
        if f.get('obligation') and not re.fullmatch(f['obligation'], ob_id):
            continue
        if re.search(f['match'], text):
            return f
    return None


# ------------------------------------------------------------------------------------------------
# Failure classification (DESIGN.md 3.4 (4a))
# ------------------------------------------------------------------------------------------------

DELIBERATE_PANICS = [
    r'U256: attempt to', r'removal index', r'split index', r'index out of bounds', r'range end index',
    r'range start index', r'slice index starts at', r'attempt to .* with overflow', r'called `Option::unwrap\(\)` on a `None`',
    r'REAL-PANIC:',
]
NOISE = [r'unwinding assertion', r'model Vec capacity', r'model capacity', r'kani_lib', r'MODEL-BOUND']


def classify(check, linemap, crate_src_dir, extracted_lines):
    """-> dict(kind, text, where, attributed)"""
    f = check.file or ''
    desc = check.desc
    base = os.path.basename(f)
    d = {'description': desc, 'kani_location': '%s:%s' % (f, check.line), 'function': check.func}
    for pat in NOISE:
        if re.search(pat, desc) or re.search(pat, f):
            d.update(kind='bound-or-library', attributed=False, text='%s @ %s' % (desc, base)); return d
    if base == 'extracted.rs':
        rel, rline = extract_map_line(linemap, check.line)
        srcline = extracted_lines[check.line - 1].strip() if 0 < check.line <= len(extracted_lines) else ''
        d.update(kind='in-extracted-text', attributed=True, where='%s:%s' % (rel, rline),
                 text='%s :: `%s` :: %s' % (rel, srcline, desc)); return d
    if 'harness' in check.func or base in ('lib.rs', 'harness.rs') and 'harness' in (check.func or ''):
        if re.search(r'attempt to .* with overflow|index out of bounds|unwrap', desc) and not desc.startswith('SPEC'):
            d.update(kind='harness-internal', attributed=False, text='%s @ %s:%s' % (desc, base, check.line)); return d
        d.update(kind='harness-assertion', attributed=True, text='assert: %s' % desc, where='%s:%s' % (base, check.line)); return d
    if 'slice_index_fail' in (check.func or '') or re.search(r'core/src/slice/index\.rs$', f):
        # core's slice range panic (runtime-formatted message): a real panic reached from the code under test
        d.update(kind='model-panic-standing-for-real-panic', attributed=True, text='panic: slice index / range out of bounds (core::slice::index, reached from the extracted text)',
                 where='%s:%s' % (base, check.line)); return d
    if re.search(r'core/src/result\.rs$', f) and 'placeholder message' in desc:
        # Result::unwrap / expect on an Err (runtime-formatted message): a real panic reached from the code under test
        d.update(kind='model-panic-standing-for-real-panic', attributed=True, text='panic: Result::unwrap / expect on an Err value (core::result::unwrap_failed, reached from the extracted text)',
                 where='%s:%s' % (base, check.line)); return d
    for pat in DELIBERATE_PANICS:
        if re.search(pat, desc):
            d.update(kind='model-panic-standing-for-real-panic', attributed=True, text='panic: %s (in %s)' % (desc, check.func or base),
                     where='%s:%s' % (base, check.line)); return d
    d.update(kind='prelude-internal', attributed=False, text='%s @ %s:%s' % (desc, base, check.line))
    return d


def extract_map_line(linemap, line):
    import extract
    return extract.map_line(linemap, line)
