#!/bin/bash
# mutrun.sh <patch.diff> <out-log> <check-spec>...   check-spec = Cxx or Cxx:only-regex
# Runs the given checks (quick tier, no evidence) against a SCRATCH COPY of /repo with the seeded change applied
# (VERIF_REPO points the checks at the copy); /repo itself is not touched.  For the record run on /repo itself use mutrun_inplace.sh.
P="$1"; OUT="$2"; shift 2
W=/tmp/mut/run-$$
mkdir -p /tmp/mut && rm -rf $W && rsync -a --exclude /target --exclude /.git /repo/ $W/ || exit 3
( cd $W && patch -s -p1 < "$P" ) || { echo "PATCH DOES NOT APPLY: $P" | tee -a "$OUT"; rm -rf $W; exit 3; }
trap 'rm -rf $W' EXIT
echo "=== $(date +%T) mutation $P" >> "$OUT"
cd /verif
for spec in "$@"; do
  c="${spec%%:*}"; only=""; [[ "$spec" == *:* ]] && only="--only ${spec#*:}"
  VERIF_QUICK_BUDGET_S=${VERIF_QUICK_BUDGET_S:-3000} VERIF_REPO=$W timeout 3600 ./check "$c" --no-evidence $only > $W.log 2>&1
  rc=$?
  echo "--- check $spec rc=$rc" >> "$OUT"
  grep -E "VIOLATION|violated:|INCONCLUSIVE|KNOWN-FINDING|tier=" $W.log | cut -c1-400 >> "$OUT"
done
rm -f $W.log
