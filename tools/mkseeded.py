#!/usr/bin/env python3
"""Assemble /verif/seeded/<id>/ (patch.diff, demo.diff, notes.md, meta.json) from the sub-agents' raw deliverables, the confirmation
log (tools/mutconfirm.sh) and the detection logs (tools/mutrun.sh).  Usage: mkseeded.py <confirm.log> <mut.log>..."""
import json, os, re, shutil, sys
RAW = '/verif/seeded_raw'; OUT = '/verif/seeded'
confirm = open(sys.argv[1]).read() if len(sys.argv) > 1 and os.path.exists(sys.argv[1]) else ''
mut = ''.join(open(f).read() for f in sys.argv[2:] if os.path.exists(f))
props = {json.loads(l)['id']: json.loads(l) for l in open('/verif/properties.jsonl')}
for agent in sorted(os.listdir(RAW)):
    for k in sorted(os.listdir(os.path.join(RAW, agent))):
        d = os.path.join(RAW, agent, k)
        if not os.path.isdir(d) or not os.path.exists(os.path.join(d, 'patch.diff')):
            continue
        pid = agent[:3]
        sid = '%s-%s%s' % (pid, agent[3:], k)
        o = os.path.join(OUT, sid); os.makedirs(o, exist_ok=True)
        for f in ('patch.diff', 'demo.diff', 'notes.md'):
            if os.path.exists(os.path.join(d, f)):
                shutil.copy(os.path.join(d, f), os.path.join(o, f))
        notes = open(os.path.join(d, 'notes.md')).read() if os.path.exists(os.path.join(d, 'notes.md')) else ''
        need = ''
        m = re.search(r'(?:needed to manifest|What is needed to manifest|Needed to manifest|needs? to manifest)[^:]*:\s*(.*?)(?:\n- |\n\n|\Z)', notes, re.S | re.I)
        if m: need = ' '.join(m.group(1).split())
        # confirmation
        conf = {}
        ms = list(re.finditer(r'=== ' + re.escape(d) + r' demo=(\S+)\nclean\+demo: (.*)\nmutated\+demo: (.*)\nmutated suite: (.*)', confirm))
        m = ms[-1] if ms else None      # the last confirmation run counts (earlier ones may have guessed the name of the demonstration test wrongly)
        if m:
            conf = {'demo_test': m.group(1), 'demo_on_clean_tree': m.group(2).strip(), 'demo_with_change': m.group(3).strip(),
                    'existing_suite_with_change': m.group(4).strip()}
        # detection: the LAST run of each check for this patch wins
        det = {}
        for blk in re.split(r'(?m)^=== ', mut):
            if os.path.join(d, 'patch.diff') not in blk.split('\n')[0]:
                continue
            for cm in re.finditer(r'--- check (\S+) rc=(\d+)\n(.*?)(?=\n--- check |\Z)', blk, re.S):
                viol = re.findall(r'violated: \[([^\]]+)\] (.*)', cm.group(3))
                det[cm.group(1)] = {'exit_code': int(cm.group(2)), 'violated': [{'obligation': a, 'what': b[:300]} for a, b in viol]}
        # every run that ended with exit 1 counts (the checks were only ever strengthened between runs; a later run of the same spec that ended as exit 2
        # because its playback was killed under machine load does not take a detection back)
        caught_all = set()
        for blk in re.split(r'(?m)^=== ', mut):
            if os.path.join(d, 'patch.diff') not in blk.split('\n')[0]:
                continue
            for cm in re.finditer(r'--- check (\S+) rc=(\d+)\n(.*?)(?=\n--- check |\Z)', blk, re.S):
                if cm.group(2) == '1':
                    for a, b in re.findall(r'violated: \[([^\]]+)\] (.*)', cm.group(3)):
                        caught_all.add((a, '@thorough' in cm.group(1)))
        caught = sorted(set(a for a, t in caught_all))
        only_thorough = bool(caught_all) and all(t for a, t in caught_all)
        meta = {
            'id': sid, 'property': pid, 'property_title': props[pid]['title'],
            'origin': 'independent sub-agent given only the property text and its own scratch worktree of /repo (nothing from /verif)',
            'needs_to_manifest': need, 'confirmed_by_me': conf,
            'what_i_ran': 'tools/mutconfirm.sh (scratch worktree: demo passes on the clean tree, fails with the change, existing suite passes with the change); '
                          'tools/mutrun.sh <patch> <log> <checks> (checks run against a copy of /repo with the change applied)',
            'checks_run': det, 'caught_by': caught, 'detected': bool(caught), 'detected_only_by_thorough_tier': only_thorough,
        }
        json.dump(meta, open(os.path.join(o, 'meta.json'), 'w'), indent=1)
        print(sid, 'detected' if caught else 'NOT DETECTED', caught)
