#!/bin/bash
# mutrun_inplace.sh <patch.diff> <out-log> <check-spec>...: as mutrun.sh but on /repo itself (git apply ... git checkout -- .)
P="$1"; OUT="$2"; shift 2
cd /repo || exit 3
if ! git diff --quiet; then echo "REPO DIRTY" | tee -a "$OUT"; exit 3; fi
git apply "$P" || { echo "PATCH DOES NOT APPLY: $P" | tee -a "$OUT"; exit 3; }
trap 'git -C /repo checkout -- . ' EXIT
echo "=== $(date +%T) mutation (in place) $P" >> "$OUT"
cd /verif
for spec in "$@"; do
  c="${spec%%:*}"; only=""; [[ "$spec" == *:* ]] && only="--only ${spec#*:}"
  timeout 3600 ./check "$c" --no-evidence $only > /tmp/mutrun.$$.log 2>&1
  rc=$?
  echo "--- check $spec rc=$rc" >> "$OUT"
  grep -E "VIOLATION|violated:|INCONCLUSIVE|KNOWN-FINDING|tier=" /tmp/mutrun.$$.log | cut -c1-400 >> "$OUT"
done
rm -f /tmp/mutrun.$$.log
