#!/bin/bash
# usage: <patch> <log> <prop> <only-regex>
P="$1"; OUT="$2"; C="$3"; ONLY="$4"
W=/tmp/mut/runt-$$
mkdir -p /tmp/mut && rm -rf $W && rsync -a --exclude /target --exclude /.git /repo/ $W/ || exit 3
( cd $W && patch -s -p1 < "$P" ) || exit 3
trap 'rm -rf $W' EXIT
echo "=== $(date +%T) mutation $P (thorough tier)" >> "$OUT"
cd /verif
VERIF_REPO=$W timeout 5400 ./check "$C" --tier thorough --no-evidence --only "$ONLY" > $W.log 2>&1; rc=$?
echo "--- check $C:$ONLY@thorough rc=$rc" >> "$OUT"
grep -E "VIOLATION|violated:|INCONCLUSIVE|KNOWN-FINDING|tier=" $W.log | cut -c1-400 >> "$OUT"
rm -f $W.log
