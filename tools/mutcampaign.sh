#!/bin/bash
# mutcampaign.sh <list-file> [parallel]: every line of the list is `<seeded_raw dir> <check-spec>...`; runs tools/mutrun.sh for each line
# (at most <parallel> at a time, memory budget split accordingly) and appends to /verif/seeded_logs/mut.log
LIST="$1"; PAR="${2:-2}"
export VERIF_MEM_GB=$(( 44 / PAR )) VERIF_JOBS=$(( 14 / PAR ))
mkdir -p /verif/seeded_logs
run_one() {
  d="$1"; shift
  id=$(echo "$d" | sed 's#.*/seeded_raw/##; s#/#-#g')
  bash /verif/tools/mutrun.sh "$d/patch.diff" "/verif/seeded_logs/mut.$id.log" "$@"
}
export -f run_one
grep -v '^#' "$LIST" | grep . | xargs -P "$PAR" -L 1 bash -c 'run_one "$@"' _
