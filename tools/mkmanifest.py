#!/usr/bin/env python3
"""Regenerates /verif/MANIFEST.json from the table below (keeps it schema-valid at all times)."""
import json, os, sys
HERE = os.path.dirname(os.path.dirname(os.path.abspath(__file__)))
sys.path.insert(0, os.path.join(HERE, 'props'))
from manifest_table import CLAIMED, NOT_APPLICABLE

BASELINE = ("cd /repo && cargo nextest run --workspace --no-fail-fast --test-threads 8 --offline "
            "|| cargo test --workspace --no-fail-fast --offline")

m = {
    "version": 1,
    "setup_cmd": "./setup.sh",
    "hooks": {
        "guard": "kani",
        "enable": "no hooks are committed in /repo: each check appends `#[cfg(kani)] #[path=...] mod verif_kani_*;` to a scratch COPY of the "
                  "source file it verifies (engine K-real) or extracts the function text (engine K-model) or dumps MIR (engine M); "
                  "/repo itself is never written",
        "baseline_off_cmd": BASELINE,
        "source_commits": [],
        "add_only": True,
    },
    "engines": [
        {"name": "K-model", "path": "tools/engines.py, kani_model/", "kind_free_text":
            "Kani/CBMC bounded model checking of the real function TEXT (extracted from /repo on every run) compiled against a solver-friendly model prelude",
         "serves_properties": sorted(p for p, c in CLAIMED.items() if 'K-model' in c['engines'])},
        {"name": "K-real", "path": "tools/engines.py, kani_real/", "kind_free_text":
            "Kani/CBMC on the real crate and real types (in-crate harness appended to a scratch copy); numeric kernels only",
         "serves_properties": sorted(p for p, c in CLAIMED.items() if 'K-real' in c['engines'])},
        {"name": "M", "path": "tools/mirpaths.py", "kind_free_text":
            "z3 simple-path queries on the MIR control-flow graph of the real handlers (must-precede / must-not-follow)",
         "serves_properties": sorted(p for p, c in CLAIMED.items() if 'M' in c['engines'])},
    ],
    "checks": [],
    "notes": "Solver-based checking of the real code; see DESIGN.md. Exit codes of ./check: 0 holds (known findings listed), 1 VIOLATION (replayed), 2 inconclusive.",
    "not_applicable": [{"property_id": p, "reason": r} for p, r in sorted(NOT_APPLICABLE.items())],
}
for p in sorted(CLAIMED):
    c = CLAIMED[p]
    m["checks"].append({
        "property_id": p,
        "quick_cmd": "./check %s --tier quick" % p,
        "thorough_cmd": "./check %s --tier thorough" % p,
        "evidence_file": "/verif/evidence/%s.json" % p,
        "replay_cmd_template": "cat {path}",
        "engine": "+".join(c['engines']),
        "level_claimed": {"category": "model_checking", "text": c['text'], "design_ref": c['design_ref']},
        "level_note": c['note'],
        "technique": c['technique'],
    })
json.dump(m, open(os.path.join(HERE, 'MANIFEST.json'), 'w'), indent=1)
print('MANIFEST.json: %d checks, %d not_applicable' % (len(m['checks']), len(m['not_applicable'])))
