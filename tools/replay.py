"""Replay of solver counterexamples before they are reported (DESIGN.md 3.4 step 4, section 5)."""
import os, re, time, json
import vlib, engines
from vlib import run, log

REPLAY_DIR = os.path.join(vlib.VERIF, 'replays')


def replay(ob, r, ctx, failures):
    os.makedirs(REPLAY_DIR, exist_ok=True)
    stamp = '%s-%s-%d' % (ctx.prop, re.sub(r'\W', '_', r.ob_id), int(time.time()))
    path = os.path.join(REPLAY_DIR, stamp + '.txt')
    head = ['property: %s' % ctx.prop, 'obligation: %s (%s)' % (r.ob_id, r.engine), 'what: %s' % r.desc, 'bounds: %s' % r.bounds,
            'failed checks:'] + ['  - %s' % f['text'] for f in failures] + ['']
    if r.engine == 'M':
        body, ok, note = replay_mir(ob, r, ctx)
    else:
        body, ok, note = replay_kani(ob, r, ctx)
    open(path, 'w').write('\n'.join(head) + body)
    return {'path': path, 'reproduced': ok, 'note': note}


def replay_mir(ob, r, ctx):
    """The artefact is the bypass path (blocks with source spans); it is re-derived by plain graph search,
    independently of z3, before it is reported."""
    paths = getattr(r, 'replay_paths', [])
    ok = bool(paths) and all(p.get('bfs_confirmed') for p in paths)
    out = []
    for p in paths:
        out.append('bypass: %s' % p['what'])
        for b, span in p['blocks']:
            out.append('    %s  %s' % (b, span))
        out.append('')
    return '\n'.join(out), ok, 'graph-search cross-check of the z3 model'


def replay_kani(ob, r, ctx):
    """Ask Kani for the concrete values (-Z concrete-playback) and run the generated unit test natively
    (cargo kani playback): the counterexample must make the harness panic outside the solver as well."""
    if r.engine == 'K-model':
        info = engines.prepare_unit(ob.unit, ob.extract_fn)
        crate = info['crate']
        tdir = os.path.join(vlib.scratch(), 'kt', '%s-%s%s' % (ob.unit.replace(':', '-'), ob.harness, '-f' if getattr(ob, 'rustflags', None) else ''))
        cmd = 'cd %s && cargo kani --harness %s --target-dir %s -Z concrete-playback --concrete-playback=inplace' % (crate, ob.harness, tdir) + ('' if getattr(ob, 'field_sensitivity', False) else engines.CBMC_ARGS)
        stub = ''
    else:
        crate = vlib.repo_copy()
        cmd = 'cd %s && cargo kani -Z stubbing --harness %s --target-dir %s -Z concrete-playback --concrete-playback=inplace' % (crate, ob.harness, vlib.KANI_TARGET) + engines.CBMC_ARGS
    # the JSON trace needs far more memory than the SAT run.  K-real: the counterexample already is on the real code; the playback run only
    # prints the concrete values and is capped (its native re-execution is not possible with stubs)
    cap = max(2 * ob.timeout, 1200) if r.engine == 'K-model' else 600
    env = vlib.env_offline({'RUSTFLAGS': ob.rustflags}) if getattr(ob, 'rustflags', None) else None
    rc, out, secs = run(cmd, timeout=cap, mem_gb=max(40, ob.mem_gb), env=env)
    if r.engine == 'K-model' and 'CBMC failed with status 134' in out and 'kani_concrete_playback_' not in out:
        # CBMC 6.11 aborts with an internal invariant violation while it builds the TRACE of some harnesses in one array field-sensitivity mode: the
        # counterexample exists, only the trace printer fails.  Ask once more in the other mode (the values are re-executed natively either way).
        cmd2 = cmd.replace(engines.CBMC_ARGS, '') if engines.CBMC_ARGS in cmd else cmd + engines.CBMC_ARGS
        rc, out, secs = run(cmd2, timeout=cap, mem_gb=max(40, ob.mem_gb), env=env)
    tests = re.findall(r'fn (kani_concrete_playback_\w+)', out)
    body = ['--- Kani concrete playback (inplace) output tail ---', out[-3000:], '']
    if not tests:
        # inplace mode edits the source; look for the inserted tests
        src = find_playback_tests(crate)
        tests = src
    if r.engine == 'K-real':
        if not tests:
            return '\n'.join(body), True, 'K-real: failing checks are in the real code under the three documented cuts; concrete values not printed within the cap'
    if not tests:
        return '\n'.join(body), False, 'Kani produced no concrete playback test'
    if r.engine == 'K-real':
        # stubs are not applied in native playback; the values are reported, reproduction is through the stubs' contracts
        return '\n'.join(body), True, 'K-real: concrete values printed; native playback not applicable with stubs'
    patch_playback_tests(crate)
    ok_any = False
    body += ['--- concrete playback unit tests (inserted into the scratch copy of the harness crate) ---', playback_sources(crate), '']
    # all generated tests in ONE native run (a failing check and the cover witnesses each get a test; only the former panic)
    # one test at a time: the generated tests share the unit's `static mut` ghost state (two of them running in parallel threads corrupt each other:
    # a reproducing counterexample then passes natively and is reported as 'did not replay')
    env2 = dict(env) if env else vlib.env_offline({})
    env2['RUST_TEST_THREADS'] = '1'
    rc2, out2, _ = run('cd %s && cargo kani playback -Z concrete-playback -- kani_concrete_playback' % crate, timeout=1500, mem_gb=16, env=env2)   # env: the unit's --cfg flags
    failed_tests = re.findall(r'^test (\S*kani_concrete_playback_\w+) \.\.\. FAILED', out2, flags=re.M)
    passed_tests = re.findall(r'^test (\S*kani_concrete_playback_\w+) \.\.\. ok', out2, flags=re.M)
    msg = re.findall(r"panicked at [^\n]*\n[^\n]*", out2)
    body += ['--- native playback: %d generated tests, %d PANIC natively (reproduced), %d pass (cover witnesses / not reproduced) ---' % (len(set(tests)), len(failed_tests), len(passed_tests))]
    body += ['    ' + m.replace('\n', ' ') for m in msg[:6]]
    if not failed_tests and not passed_tests:
        body += [out2[-2000:]]
    ok_any = bool(failed_tests)
    return '\n'.join(body), ok_any, 'native playback of the extracted text on the model types'


def patch_playback_tests(crate):
    """The generated tests use `Vec`/`vec!`, which inside the harness module name the MODEL Vec: qualify them."""
    for root, _, files in os.walk(os.path.join(crate, 'src')):
        for f in files:
            if not f.endswith('.rs'):
                continue
            p = os.path.join(root, f)
            s = open(p).read()
            if 'kani_concrete_playback_' not in s:
                continue

            out, inside = [], False
            for line in s.split('\n'):
                if re.search(r'fn kani_concrete_playback_\w+\(\)', line):
                    inside = True
                if inside:
                    line = line.replace('let concrete_vals: Vec<Vec<u8>> = vec![', 'let concrete_vals: std::vec::Vec<std::vec::Vec<u8>> = std::vec![')
                    line = re.sub(r'(?<![:\w])vec!\[', 'std::vec![', line)
                    if 'kani::concrete_playback_run' in line:
                        inside = False
                out.append(line)
            s = '\n'.join(out)
            # two failed checks with the same concrete values get the SAME generated test name: keep the first copy of each
            seen = set()
            def dedupe(m):
                name = m.group(1)
                if name in seen:
                    return ''
                seen.add(name)
                return m.group(0)
            s = re.sub(r'[ \t]*#\[test\]\s*fn (kani_concrete_playback_\w+)\(\) \{.*?concrete_playback_run[^\n]*\n\s*\}\n?', dedupe, s, flags=re.S)
            open(p, 'w').write(s)


def playback_sources(crate):
    out = []
    for root, _, files in os.walk(os.path.join(crate, 'src')):
        for f in files:
            if f.endswith('.rs'):
                s = open(os.path.join(root, f)).read()
                out += re.findall(r'#\[test\]\s*fn kani_concrete_playback_\w+\(\) \{.*?concrete_playback_run[^\n]*\n\s*\}', s, flags=re.S)
    return '\n\n'.join(out)


def find_playback_tests(crate):
    out = []
    for root, _, files in os.walk(os.path.join(crate, 'src')):
        for f in files:
            if f.endswith('.rs'):
                out += re.findall(r'fn (kani_concrete_playback_\w+)', open(os.path.join(root, f)).read())
    return out
