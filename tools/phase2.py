#!/usr/bin/env python3
"""phase2.py: for every seeded change whose OWN property check did not report a violation, list other checks that cover the files it touches
(output: lines `<seeded_raw dir> <check>...` for tools/mutcampaign.sh)."""
import os, re, glob
MAP = {
 'filter/block_filter.rs': ['C06', 'C03', 'C09'], 'block_filters_process.rs': ['C06', 'C03', 'C09', 'C10'], 'block_filter_hashes_process.rs': ['C06', 'C10'],
 'block_filter_check_points_process.rs': ['C07'],
 'light_client/peers.rs': ['C11', 'C02', 'C16', 'C04', 'C07', 'C03'], 'synchronizer.rs': ['C02', 'C08', 'C03', 'C04'],
 'light_client/mod.rs': ['C12', 'C04', 'C07', 'C16', 'C08'], 'send_last_state_proof.rs': ['C01', 'C05', 'C12', 'C10'],
 'send_last_state.rs': ['C12', 'C01', 'C11', 'C10'], 'send_blocks_proof.rs': ['C02', 'C16'], 'send_transactions_proof.rs': ['C02', 'C16'],
 'storage.rs': ['C03', 'C09', 'C08', 'C13', 'C04'], 'service.rs': ['C13', 'C09', 'C16', 'C18'], 'sampling.rs': ['C15'], 'prelude.rs': ['C01'], 'relayer.rs': ['C18'],
}
for d in sorted(glob.glob('/verif/seeded_raw/*/[0-9]')):
    sid = d.replace('/verif/seeded_raw/', '').replace('/', '-')
    own = sid[:3]
    log = '/verif/seeded_logs/mut.%s.log' % sid
    txt = open(log).read() if os.path.exists(log) else ''
    done = dict(re.findall(r'--- check (\S+) rc=(\d+)', txt))
    if any(rc == '1' for rc in done.values()):
        continue
    files = re.findall(r'^\+\+\+ b/(\S+)', open(os.path.join(d, 'patch.diff')).read(), re.M)
    extra = []
    for f in files:
        for k, v in MAP.items():
            if f.endswith(k):
                extra += [c for c in v if c != own and c not in extra and c not in done]
    if own not in done or done.get(own) == '2':
        extra = [own] + extra
    if extra:
        print(d, ' '.join(extra[:4]))
