"""C13 - cell and transaction queries are exact views of the index."""
from engines import KModelOb
import common
from common import *
from extract import Source, Raw

ASSUMPTIONS = [
    'bounded model checking of the real text of get_cells, get_cells_capacity, build_query_options, build_filter_options and of the key encoding over a READ-ONLY sorted '
    'snapshot model of the index: <= 3 rows (quick: 2 for the filter / capacity / pagination harnesses) of arbitrary key space, script and position, 2 stored transactions with '
    '<= 2 outputs; scripts are (1-byte code hash, 1-byte hash type, <= 2 bytes of args); RocksDB contract: ordered iteration from a seek key in both directions, point lookups, '
    'one snapshot per call',
    'the ground truth (rows matching the search key and each filter, in key order) is computed from the structured row fields, never from key bytes; filters follow the '
    'documented meaning: script filter = raw-data prefix of the OTHER script, script length inclusive on both ends, data length / capacity / block range half-open',
    'std iterator adaptors are replaced by a loop-free pipeline with the same lazy one-row-at-a-time semantics (CBMC cannot bound the nested find loops)',
    'the index does not change between two pages (the property is stated for a stored index); capacity sums fit in u64',
    'DECLINED / outside: get_transactions incl. group_by_transaction (page boundary rule), more than 3 rows, JSON (de)serialisation of the request / response types',
]


def ex_keys(repo):
    s = Source(repo, STORAGE)
    ex = s.item(r'^pub fn extract_raw_data'); ex.sub(r'\.concat\(\)', '.mconcat()')
    return [Raw('pub type TxIndex = u32;\npub type CpIndex = u32;\npub type OutputIndex = u32;\npub type CellIndex = u32;\n'),
            s.item(r'^pub enum CellType'), s.item(r'^pub enum Key<'), s.item(r'^pub enum KeyPrefix', attrs=True), s.item(r"^impl<'a> Key<'a>"),
            s.item(r"^impl<'a> From<Key<'a>> for Vec<u8>"), s.item(r'^fn append_key'), ex]


def key_obligations(prefix):
    return [
        KModelOb(prefix + '-key-order', 'keys', 'order_preserving', 'Key::into_vec (real text): for one script the byte order of live-cell / history keys equals the order of '
                 '(block number, tx index, io index[, io type]); fields at fixed big-endian offsets; io type is the last byte', ex_keys,
                 'all u64 / u32 / u32 field values, scripts with <=2 bytes of args', timeout=1500, mem_gb=10, min_covers=1, weight=3,
                 cuts=['packed::Script -> (1-byte code hash, 1-byte hash type, <=2 bytes args)', 'Vec<u8> -> array-backed byte vector', '.concat() -> .mconcat() (textual)']),
        KModelOb(prefix + '-key-injective', 'keys', 'injective', 'Key::into_vec (real text): keys of scripts with equal raw-data length are equal iff all components are equal; '
                 'the key spaces (first byte = KeyPrefix) are pairwise disjoint', ex_keys, 'two arbitrary scripts / field tuples', timeout=1500, mem_gb=10,
                 min_covers=1, weight=3, cuts=['as above']),
    ]


def ex_cells(repo):
    st = Source(repo, STORAGE)
    sv = Source(repo, SERVICE)
    ex = st.item(r'^pub fn extract_raw_data'); ex.sub(r'\.concat\(\)', '.mconcat()')
    bq = sv.item(r'^fn build_query_options')
    bq.sub(r'\.concat\(\)', '.mconcat()'); bq.sub(r'vec!\[\s*0xff\s*;\s*([^\]]+)\]', r'ff_fill(\1)')
    gc = sv.method(r'^impl BlockFilterRpc for BlockFilterRpcImpl', 'get_cells'); gc.prefix = 'impl BlockFilterRpcImpl {\n'
    cc = sv.method(r'^impl BlockFilterRpc for BlockFilterRpcImpl', 'get_cells_capacity'); cc.suffix = '\n}'
    return [st.consts(r'^pub const LAST_STATE_KEY: &str = [^;]*;')[0], sv.consts(r'^const MAX_PREFIX_SEARCH_SIZE: usize = [^;]*;')[0],
            st.item(r'^pub enum CellType'), st.item(r'^pub enum Key<'), st.item(r'^pub enum KeyPrefix', attrs=True), st.item(r"^impl<'a> Key<'a>"),
            st.item(r"^impl<'a> From<Key<'a>> for Vec<u8>"), st.item(r'^fn append_key'), ex, bq, sv.item(r'^fn build_filter_options'), gc, cc]


CELL_CUTS = ['RocksDB snapshot -> read-only sorted array of <= 3 index rows (ordered iteration from a seek key in both directions, point lookups)',
             'packed / JSON types -> plain structs (scripts: 1-byte code hash, 1-byte hash type, <= 2 bytes of args; <= 2 outputs per transaction; hashes 1-byte identifiers)',
             'vec![0xff; 65535 - args_len] -> the first 19 bytes of it (longer than any continuation of a model key: same order against every key)',
             '.concat() -> .mconcat() (textual)', 'request structs SearchKey / SearchKeyFilter / ScriptType / Order declared by the model (data declarations)']


def obligations():
    B3 = '<= 3 index rows of arbitrary key space / script / position in key order, 2 stored transactions x <= 2 outputs, every search key (prefix search incl.), both orders'
    F = 'every filter combination (script prefix, script length, data length, capacity, block range) with arbitrary, also empty / inverted, ranges'
    FS = dict(field_sensitivity=True)
    return key_obligations('O13.1') + [
        KModelOb('O13.2-cells-order', 'cells', 'cells_order', 'get_cells (real text, with build_query_options / Key::into_vec): with a limit that does not cut, the result is exactly the entries whose '
                 'script continues the searched script, in key order (descending = reverse of ascending), each with the right out-point / output / data / block number / tx index; last_cursor is the '
                 'key of the last entry', ex_cells, B3 + '; no filter; limit >= 3', cuts=CELL_CUTS, timeout=1500, mem_gb=12, min_covers=2, weight=6, tiers=('quick',), **FS),
        KModelOb('O13.3-cells-pages', 'cells', 'cells_pages_small', 'get_cells (real text): a first page of one entry followed by a page read from its last_cursor yields the first min(1 + l2, matches) '
                 'matching entries exactly once in key order, in both orders', ex_cells, '<= 2 index rows of arbitrary key space / script / position; no filter; l1 = 1, any l2 >= 1', cuts=CELL_CUTS, timeout=1500,
                 mem_gb=12, min_covers=2, weight=6, tiers=('quick',), rustflags='--cfg cells_small', **FS),
        KModelOb('O13.3-cells-pages-3', 'cells', 'cells_pages_order', 'get_cells (real text): a first page of limit l1 followed by a page read from its last_cursor yields the first min(l1 + l2, matches) '
                 'matching entries exactly once in key order, in both orders', ex_cells, B3 + '; no filter; l1 in 1..2, any l2 >= 1', cuts=CELL_CUTS, timeout=3000, mem_gb=16, min_covers=2,
                 weight=7, tiers=('thorough',), **FS),
        KModelOb('O13.2-cells-filters', 'cells', 'cells_filters_small', 'get_cells (real text, with build_filter_options): each filter removes exactly the entries outside it', ex_cells,
                 '<= 2 index rows; ' + F, cuts=CELL_CUTS, timeout=1500, mem_gb=12, min_covers=1, weight=5, tiers=('quick',), rustflags='--cfg cells_small', **FS),
        KModelOb('O13.4-capacity-sum', 'cells', 'capacity_sum_small', 'get_cells_capacity (real text) = capacity sum of exactly the cells get_cells returns for the same key, reported with the stored tip',
                 ex_cells, '<= 2 index rows; ' + F, cuts=CELL_CUTS, timeout=1500, mem_gb=12, min_covers=1, weight=4, tiers=('quick',), rustflags='--cfg cells_small', **FS),
        KModelOb('O13.2-cells-exact-t', 'cells', 'cells_full', 'as O13.2 with order, prefix search and every filter symbolic at once', ex_cells, B3 + '; ' + F, cuts=CELL_CUTS, timeout=3400, mem_gb=20,
                 min_covers=2, weight=8, tiers=('thorough',), **FS),
        KModelOb('O13.3-cells-pages-t', 'cells', 'cells_pages', 'as O13.3 with every filter symbolic', ex_cells, B3 + '; ' + F, cuts=CELL_CUTS, timeout=3400, mem_gb=24, min_covers=2, weight=9,
                 tiers=('thorough',), **FS),
        KModelOb('O13.4-capacity-sum-t', 'cells', 'capacity_sum', 'as O13.4 with 3 rows', ex_cells, B3 + '; ' + F, cuts=CELL_CUTS, timeout=3400, mem_gb=20, min_covers=1, weight=8, tiers=('thorough',), **FS),
    ]
