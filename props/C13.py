"""C13 - cell and transaction queries are exact views of the index."""
from engines import KModelOb
import common
from common import *
from extract import Source, Raw

ASSUMPTIONS = [
    'DECLINED: page-by-page exactly-once, descending = reverse of ascending, the per-entry filters, grouping and the capacity sum - all inside '
    'closures over RocksDB snapshot iterators (FFI); not encodable within reach',
    'claimed: the one encodable fact those clauses rest on - the byte order of the index keys of one script equals the numeric order of '
    '(block number, tx index, io index[, io type]), keys are injective and the key spaces are disjoint (real text of Key::into_vec / append_key / '
    'extract_raw_data over a byte-vector model; scripts with 1-byte code hash / hash type and 0..=2 bytes of args)',
]


def ex_keys(repo):
    s = Source(repo, STORAGE)
    ex = s.item(r'^pub fn extract_raw_data'); ex.sub(r'\.concat\(\)', '.mconcat()')
    return [Raw('pub type TxIndex = u32;\npub type CpIndex = u32;\npub type OutputIndex = u32;\npub type CellIndex = u32;\n'),
            s.item(r'^pub enum CellType'), s.item(r'^pub enum Key<'), s.item(r'^pub enum KeyPrefix', attrs=True), s.item(r"^impl<'a> Key<'a>"),
            s.item(r"^impl<'a> From<Key<'a>> for Vec<u8>"), s.item(r'^fn append_key'), ex]


def key_obligations(prefix):
    return [
        KModelOb(prefix + '-key-order', 'keys', 'order_preserving', 'Key::into_vec (real text): for one script the byte order of live-cell / history keys equals the order of '
                 '(block number, tx index, io index[, io type]); fields at fixed big-endian offsets; io type is the last byte', ex_keys,
                 'all u64 / u32 / u32 field values, scripts with <=2 bytes of args', timeout=1500, mem_gb=10, min_covers=1, weight=3,
                 cuts=['packed::Script -> (1-byte code hash, 1-byte hash type, <=2 bytes args)', 'Vec<u8> -> array-backed byte vector', '.concat() -> .mconcat() (textual)']),
        KModelOb(prefix + '-key-injective', 'keys', 'injective', 'Key::into_vec (real text): keys of scripts with equal raw-data length are equal iff all components are equal; '
                 'the key spaces (first byte = KeyPrefix) are pairwise disjoint', ex_keys, 'two arbitrary scripts / field tuples', timeout=1500, mem_gb=10,
                 min_covers=1, weight=3, cuts=['as above']),
    ]


def obligations():
    return key_obligations('O13.1')
