"""C12 - the stored tip only moves to heavier proven headers with truthful difficulty."""
from engines import KModelOb
import common
from common import *
from extract import Source

ASSUMPTIONS = [
    'bounded model checking of the real handler text over models of Storage/Peers (every effect goes to an ordered ghost log)',
    'PoW + chain-root check of the incoming header (check_verifiable_header) is an arbitrary Boolean that must have been true',
    'U256 -> 64 bits; hashes 1-byte identifiers; last-N in {1,2,3}; <=3 remembered headers, <=3 reorg headers, <=3 pending records',
    'restart through RocksDB and sequences from several peers are outside the claim (encoding round-trip: see O12.3 when registered)',
]
CUTS = ['Storage / Peers -> models writing to an ordered ghost log', 'check_verifiable_header -> arbitrary Boolean', 'log/format -> no-op',
        'unix_time_as_millis -> arbitrary u64']


def ex_lcproto(repo):
    s2 = Source(repo, SLS)
    s3 = Source(repo, LCMOD)
    s4 = Source(repo, LCPRELUDE)
    ex = s2.item(r'^    pub\(crate\) fn execute\(self\) -> Status'); ex.prefix = "impl<'a> SendLastStateProcess<'a> {\n"; ex.suffix = '\n}'
    up = s3.item(r'^    fn update_prove_state_to_child'); up.prefix = 'impl LightClientProtocol {\n'; up.suffix = '\n}'
    cm = s3.item(r'^    pub\(crate\) fn commit_prove_state'); cm.prefix = 'impl LightClientProtocol {\n'; cm.suffix = '\n}'
    # model-only adaptation: the model lock returns Option instead of LockResult (the text `.expect("poisoned")` is kept)
    return common.status_code(repo) + common.peer_state_types(repo) + [ex, s2.item(r'^fn check_last_state'), up, cm,
                                                                      s4.item(r'^impl HeaderUtils for HeaderView')]


def ex_lastn(repo):
    return common.status_code(repo) + common.peer_state_types(repo) + common.last_n_selection(repo)


def obligations():
    import C01
    return common.shared('C01', ['O1.1-shape'], 'O12', 'the tip only moves to a header that was PROVEN: a sampled difficulty answered by another block than the one that covers it is rejected') + [
        KModelOb('O12.6-td-gate', 'lastn:tdgate', 'td_gate_runs', 'SendLastStateProofProcess::execute, the "Check total difficulty" statement (real text): a proof WITH samples from a peer that already holds a '
                 'proved state is accepted only if verify_total_difficulty(previously proved last header, new last header, TAU) is Ok - whatever else the response carries (reorg headers in particular); '
                 'InvalidTotalDifficulty otherwise', lambda repo: common.status_code(repo) + common.peer_state_types(repo) + common.td_gate(repo),
                 '<=2 reorg, <=1 sampled, 1..2 last headers; arbitrary peer state / header contents; verify_total_difficulty -> recorded call with an arbitrary verdict (its text: C14)', cuts=CUTS,
                 timeout=900, mem_gb=10, min_covers=1, weight=3, rustflags='--cfg td_gate'),
        KModelOb('O12.5-remembered-headers', 'lastn', 'select_last_headers', 'SendLastStateProofProcess::execute, selection of the headers remembered with the new prove state (real text): '
                 'the reorg section is kept as is; the remembered last headers END with the last min(count, N) headers of the proof, are never more than N, exactly N when the proof '
                 'carries at least N, and are otherwise completed from the tail of the previously remembered (or reorg) headers - what commit_prove_state later compares forks against',
                 ex_lastn, 'N in 1..3; <=2 reorg, <=1 sampled, 1..4 last headers (<=5 in all); <=2 previously remembered headers; arbitrary header contents', cuts=CUTS,
                 timeout=1200, mem_gb=10, min_covers=2, weight=3),
        KModelOb('O12.4-child-path', 'lcproto', 'child_fast_path',
                 'SendLastStateProcess::execute + update_prove_state_to_child (real text), peer Ready on an arbitrary proven header: the tip '
                 'is stored / the prove state replaced only if the header check passed, the header is a linked child of the proven one, '
                 'the difficulty is strictly greater, the stored total difficulty is the one the header commits to AND equals the proven '
                 "parent's total difficulty plus the child's own difficulty; the window ends with the proven parent",
                 ex_lcproto, 'arbitrary proven header / incoming header / stored difficulty / clock; last-N in {1,2}', cuts=CUTS,
                 timeout=900, mem_gb=10, min_covers=1, weight=4),
        KModelOb('O12.2-new-child', 'lcproto', 'new_child_window', 'ProveState::new_child: window = old window (oldest dropped when full) + '
                 'old last header, length <= last-N', ex_lcproto, 'last-N in {1,2,3}, arbitrary headers', cuts=CUTS, timeout=600, mem_gb=8, min_covers=1),
        KModelOb('O12.1-commit', 'lcproto', 'commit',
                 'commit_prove_state (real text): update_last_state only with strictly greater total difficulty and exactly the proven '
                 '(difficulty, header, last-N); fork point = highest remembered (number, hash) among the reorg headers; exactly the pending '
                 'records above it removed; rollback target; rollback before the tip is stored; all under the matched-blocks write lock; '
                 'no common header => Ok(false) and nothing touched',
                 ex_lcproto, '<=3 remembered headers, <=3 reorg headers (numbers increasing), <=3 pending records (starts >= 1, distinct)',
                 cuts=CUTS, timeout=1500, mem_gb=12, min_covers=2, weight=6),
    ]
