"""C04 - after a fork switch the index reflects only the new chain and sync resumes."""
from engines import KModelOb, MirOb
import common
from common import *
from extract import Source
import C12, C10, C03

ASSUMPTIONS = [
    'claimed for the DECISION and BOOKKEEPING step of a fork switch: commit_prove_state (real text, ordered ghost log of every effect) and '
    'build_prove_request_content (re-basing onto a remembered header), plus the gating of the documented long-fork abort',
    'DECLINED: that rollback_to_block restores the pre-fork live cells / history: the unit exists (kani_model/rollback: real text over sorted byte-level rows) and its '
    'native smoke run found a genuine defect (fixed: e8d6a59), but CBMC does not finish its symbolic execution, so NO solver verdict is claimed for it; '
    'continued syncing after the switch and absence of stalls (liveness)',
    'U256 -> 64 bits; hashes 1-byte identifiers; <=3 remembered headers, <=3 reorg headers, <=3 pending records; last-N in 1..3',
]


def ex_bprc(repo):
    m = Source(repo, LCMOD)
    a = m.item(r'^    pub\(crate\) fn build_prove_request_content\('); a.prefix = 'impl LightClientProtocol {\n'
    b = m.item(r'^    pub\(crate\) fn build_prove_request_content_from_genesis\('); b.suffix = '\n}'
    return [a, b]


def ex_ups(repo):
    pe = Source(repo, PEERS)
    return common.status_code(repo) + common.peer_state_types(repo) + [pe.method(r'^impl Peers \{', 'update_prove_state', wrap='impl Peers')]


def ex_rollback(repo):
    st = Source(repo, STORAGE)
    ex = st.item(r'^pub fn extract_raw_data'); ex.sub(r'\.concat\(\)', '.mconcat()')
    rb = st.item(r'^    pub fn rollback_to_block'); rb.prefix = 'impl Storage {\n'
    rb.sub(r'\.to_be_bytes\(\)\.to_vec\(\)', '.to_be_bytes()', required=False)
    gt = st.item(r'^    fn get_transaction\('); gt.suffix = '\n}'
    return [st.consts(r'^const FILTER_SCRIPTS_KEY: &str = [^;]*;')[0], st.consts(r'^const MIN_FILTERED_BLOCK_NUMBER: &str = [^;]*;')[0],
            st.item(r'^pub enum CellType'), st.item(r'^pub enum Key<'), st.item(r'^pub enum KeyPrefix', attrs=True), st.item(r"^impl<'a> Key<'a>"),
            st.item(r"^impl<'a> From<Key<'a>> for Vec<u8>"), st.item(r'^fn append_key'), ex, rb, gt]


RB_CUTS = ['RocksDB -> sorted array of <= 3 byte-level rows (ordered reverse iteration from a seek key, point lookups of stored transactions), write batch -> ordered op log',
           'packed types -> plain structs (scripts: 1-byte code hash, 1-byte hash type, <= 2 bytes of args; <= 1 input per transaction; hashes 1-byte identifiers)',
           'std iterator adaptors -> loop-free pipeline with the same lazy semantics (unit cells)', '.concat() -> .mconcat(); .to_be_bytes().to_vec() -> .to_be_bytes() (textual)',
           'get_filter_scripts / get_min_filtered_block_number -> model accessors']


def experimental_obligations():
    """NOT registered: CBMC's symbolic execution of this byte-level unit does not finish (> 25 min even for one row / one script); the unit is
    exercised by its native smoke run only (cargo test in kani_model/rollback, see DESIGN.md 11.3)."""
    return [
        KModelOb('O4.2-rollback', 'rollback', 'rollback_any', 'Storage::rollback_to_block(to) + get_transaction (real text, real key encoding) from an ARBITRARY sorted set of history rows: exactly the '
                 'history rows of scripts recorded at or above the fork point, in blocks at or above it, are deleted; the live cells they created are deleted; the cells they spent are restored '
                 '(right creating block / tx index / output index -> creating transaction); a cell created AND spent above the fork point ends up deleted; those scripts are re-recorded at the '
                 'fork point; MIN_FILTERED_NUMBER is rewound to fork point - 1 iff it lies above; nothing else is written; one atomic batch', ex_rollback,
                 '<= 3 rows of arbitrary key space / script / position, <= 2 registered scripts, 2 stored transactions, arbitrary fork point', cuts=RB_CUTS, timeout=2400, mem_gb=16,
                 min_covers=2, weight=8, field_sensitivity=True),
        KModelOb('O4.2-rollback-prefix', 'rollback', 'rollback_prefix_related', 'as O4.2-rollback with two registered scripts of which one continues the other (same code hash / hash type, args extended by one byte): '
                 'the rows of the longer script are never parsed as rows of the shorter one', ex_rollback,
                 '<= 3 rows, 2 prefix-related scripts', cuts=RB_CUTS, timeout=2400, mem_gb=16, min_covers=1, weight=8, field_sensitivity=True),
    ]


def obligations():
    c12 = {o.ob_id: o for o in C12.obligations()}
    c10 = {o.ob_id: o for o in C10.obligations()}
    o41 = c12['O12.1-commit']; o41.ob_id = 'O4.1-commit'
    o44 = c10['O10.guard-proof-handler']; o44.ob_id = 'O4.4-long-fork-abort-gated'
    o46 = c12['O12.2-new-child']; o46.ob_id = 'O4.6-child-inherits-reorg'
    o46.desc = '[a child prove state still sits on the fork switch of its parent: a peer whose state is copied from it drops its stale filter-hash cache too] ' + o46.desc
    o47 = C03.filter_block_quick('O4.7-index-writer-overwrites-mapping')
    o47.desc = '[after a fork switch the block indexed at a height replaces whatever the abandoned branch left there: header row and number -> hash mapping are rewritten even if that header is already stored] ' + o47.desc
    return [
        o41, o46, o47,
        KModelOb('O4.3-request-rebase', 'bprc', 'request_content', 'build_prove_request_content(_from_genesis) (real text): Some iff start strictly below last in number and not '
                 'above it in difficulty; <= last-N missing blocks => no samples, boundary = start difficulty, start re-based only onto the first remembered '
                 'header strictly below the start and within last-N of the tip; otherwise the sampled boundary / difficulties with the proven start', ex_bprc,
                 'last-N in 1..3, <=3 remembered headers, arbitrary 64-bit numbers / difficulties; sample_blocks replaced by its contract', timeout=1200,
                 mem_gb=10, min_covers=2, weight=3, cuts=['sampling::sample_blocks -> contract stub (decided in unit sampling)', 'Storage -> model']),
        o44,
        KModelOb('O4.5-filter-cache-dropped', 'ups', 'update_prove_state_clears_cache', 'Peers::update_prove_state (real text, over the real PeerState text): a prove state that carries reorg '
                 'headers drops the peer\'s cached latest block filter hashes (they belong to the abandoned branch and would make the new chain\'s hashes be ignored); '
                 'without reorg headers the cache is kept; other peers untouched', ex_ups, 'arbitrary peer state, <=2 reorg headers, 2 peers', timeout=1200, mem_gb=10,
                 min_covers=3, weight=3, cuts=['LatestBlockFilterHashes -> counter + cleared flag', 'DashMap -> array']),
    ] + common.shared('C02', ['O2.6-body-semantic'], 'O4', 'after a batch of matched blocks is indexed the script numbers stand at the END of the batch range, so that a later rollback_to_block does not skip the script')
