"""C04 - after a fork switch the index reflects only the new chain and sync resumes."""
from engines import KModelOb, MirOb
import common
from common import *
from extract import Source
import C12, C10

ASSUMPTIONS = [
    'claimed for the DECISION and BOOKKEEPING step of a fork switch: commit_prove_state (real text, ordered ghost log of every effect) and '
    'build_prove_request_content (re-basing onto a remembered header), plus the gating of the documented long-fork abort',
    'DECLINED: that rollback_to_block restores the pre-fork live cells / history (it parses key bytes positionally and scans RocksDB in reverse; '
    'the byte-level sorted store of the size needed does not finish in CBMC), continued syncing after the switch and absence of stalls (liveness)',
    'U256 -> 64 bits; hashes 1-byte identifiers; <=3 remembered headers, <=3 reorg headers, <=3 pending records; last-N in 1..3',
]


def ex_bprc(repo):
    m = Source(repo, LCMOD)
    a = m.item(r'^    pub\(crate\) fn build_prove_request_content\('); a.prefix = 'impl LightClientProtocol {\n'
    b = m.item(r'^    pub\(crate\) fn build_prove_request_content_from_genesis\('); b.suffix = '\n}'
    return [a, b]


def ex_ups(repo):
    pe = Source(repo, PEERS)
    return common.status_code(repo) + common.peer_state_types(repo) + [pe.method(r'^impl Peers \{', 'update_prove_state', wrap='impl Peers')]


def obligations():
    c12 = {o.ob_id: o for o in C12.obligations()}
    c10 = {o.ob_id: o for o in C10.obligations()}
    o41 = c12['O12.1-commit']; o41.ob_id = 'O4.1-commit'
    o44 = c10['O10.guard-proof-handler']; o44.ob_id = 'O4.4-long-fork-abort-gated'
    return [
        o41,
        KModelOb('O4.3-request-rebase', 'bprc', 'request_content', 'build_prove_request_content(_from_genesis) (real text): Some iff start strictly below last in number and not '
                 'above it in difficulty; <= last-N missing blocks => no samples, boundary = start difficulty, start re-based only onto the first remembered '
                 'header strictly below the start and within last-N of the tip; otherwise the sampled boundary / difficulties with the proven start', ex_bprc,
                 'last-N in 1..3, <=3 remembered headers, arbitrary 64-bit numbers / difficulties; sample_blocks replaced by its contract', timeout=1200,
                 mem_gb=10, min_covers=2, weight=3, cuts=['sampling::sample_blocks -> contract stub (decided in unit sampling)', 'Storage -> model']),
        o44,
        KModelOb('O4.5-filter-cache-dropped', 'ups', 'update_prove_state_clears_cache', 'Peers::update_prove_state (real text, over the real PeerState text): a prove state that carries reorg '
                 'headers drops the peer\'s cached latest block filter hashes (they belong to the abandoned branch and would make the new chain\'s hashes be ignored); '
                 'without reorg headers the cache is kept; other peers untouched', ex_ups, 'arbitrary peer state, <=2 reorg headers, 2 peers', timeout=1200, mem_gb=10,
                 min_covers=2, weight=3, cuts=['LatestBlockFilterHashes -> counter + cleared flag', 'DashMap -> array']),
    ]
