"""What MANIFEST.json claims.  An obligation is registered only once it finishes reliably on the unchanged tree."""
TRUST = ('rustc/Kani/CBMC/z3; the model prelude (kani_model/prelude, validated natively against the real containers); '
         'hashes, PoW, MMR verification as uninterpreted functions; the extractor (a wrong extraction is a build failure, exit 2)')
CLAIMED = {
    'C11': {
        'engines': ['K-model'],
        'text': 'bounded model checking of the real PeerState transition code: one arbitrary event from an ARBITRARY state (inductive step, '
                'so event sequences of any length), checked against the documented transition table and frame conditions; '
                'multi-peer interleavings and the actual network disconnect are outside the claim',
        'design_ref': 'DESIGN.md section 4, C11',
        'note': TRUST,
        'technique': 'Kani/CBMC symbolic execution of extracted real source over model types (SAT)',
    },
}
CLAIMED['C01'] = {
    'engines': ['K-model', 'M'],
    'text': 'bounded model checking: (K-model) the real text of check_if_response_is_matched, check_continuous_headers, is_parent_of, '
            'patched_is_valid and verify_mmr_proof against independent declarative specifications for all inputs within the bounds; '
            '(M) z3 path queries on the MIR of both handlers showing that every write of trusted state is dominated by the Ok edge of every check '
            'and follows no Err edge. Crypto (blake2b, PoW, MMR crate) is uninterpreted; responses with more than 5 headers and '
            'multi-peer interplay are outside the claim',
    'design_ref': 'DESIGN.md section 4, C01', 'note': TRUST,
    'technique': 'Kani/CBMC (SAT) on extracted real source + z3 simple-path queries on rustc MIR',
}
CLAIMED['C02'] = {
    'engines': ['K-model', 'M'],
    'text': 'bounded model checking: (M) the three handlers store / mark fetched / index only behind request match, last-hash, PoW, MMR, '
            'Merkle-root and body-commitment checks (must-precede / must-not-follow on MIR, all data havoc); (K-model) the request-match '
            'predicates, verify_extra_hash and add_block against their specifications. Crypto uninterpreted; RPC read paths outside the claim',
    'design_ref': 'DESIGN.md section 4, C02', 'note': TRUST,
    'technique': 'z3 simple-path queries on rustc MIR + Kani/CBMC (SAT) on extracted real source',
}
CLAIMED['C12'] = {
    'engines': ['K-model'],
    'text': 'bounded model checking of the real text of SendLastStateProcess::execute, update_prove_state_to_child, commit_prove_state and '
            'ProveState::new_child over models of Storage/Peers with an ordered ghost log of every effect: the tip is stored only with strictly '
            'greater, truthful total difficulty of a linked child / a proven header. Restart through RocksDB and multi-peer sequences are outside',
    'design_ref': 'DESIGN.md section 4, C12', 'note': TRUST,
    'technique': 'Kani/CBMC symbolic execution of extracted real source over model types (SAT)',
}
_PENDING = 'check not yet registered in this revision (being built; see DESIGN.md section 4 for the planned obligations)'
NOT_APPLICABLE = {p: _PENDING for p in ['C03', 'C04', 'C05', 'C06', 'C07', 'C08', 'C09', 'C10', 'C13',
                                        'C14', 'C15', 'C16', 'C18']}
NOT_APPLICABLE['C17'] = ('concurrency: Kani/CBMC does not model Rust threads and no concurrent solver-based engine is available in this '
                         'sandbox; only lock-discipline facts are decided (under C09/C04), which is not the property')
