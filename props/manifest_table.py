"""What MANIFEST.json claims.  An obligation is registered only once it finishes reliably on the unchanged tree."""
TRUST = ('rustc/Kani/CBMC/z3; the model prelude (kani_model/prelude, validated natively against the real containers); '
         'hashes, PoW, MMR verification as uninterpreted functions; the extractor (a wrong extraction is a build failure, exit 2)')
CLAIMED = {
    'C11': {
        'engines': ['K-model'],
        'text': 'bounded model checking of the real PeerState transition code: one arbitrary event from an ARBITRARY state (inductive step, '
                'so event sequences of any length), checked against the documented transition table and frame conditions; '
                'multi-peer interleavings and the actual network disconnect are outside the claim',
        'design_ref': 'DESIGN.md section 4, C11',
        'note': TRUST,
        'technique': 'Kani/CBMC symbolic execution of extracted real source over model types (SAT)',
    },
}
_PENDING = 'check not yet registered in this revision (being built; see DESIGN.md section 4 for the planned obligations)'
NOT_APPLICABLE = {p: _PENDING for p in ['C01', 'C02', 'C03', 'C04', 'C05', 'C06', 'C07', 'C08', 'C09', 'C10', 'C12', 'C13',
                                        'C14', 'C15', 'C16', 'C18']}
NOT_APPLICABLE['C17'] = ('concurrency: Kani/CBMC does not model Rust threads and no concurrent solver-based engine is available in this '
                         'sandbox; only lock-discipline facts are decided (under C09/C04), which is not the property')
