"""What MANIFEST.json claims.  An obligation is registered only once it finishes reliably on the unchanged tree."""
TRUST = ('rustc / Kani 0.68 / CBMC 6.11 (array field sensitivity switched off, see DESIGN.md 11.2) / z3; the model prelude (kani_model/prelude); '
         'hashes, PoW, MMR verification, Golomb-coded-set matching as uninterpreted functions; RocksDB contract (atomic batches, ordered iteration) in '
         'the store models; the extractor (a wrong or failed extraction is a build failure, exit 2, never a pass)')
KM = 'Kani/CBMC bounded model checking (SAT) of real source text extracted from /repo on every run, compiled against model types'
KR = 'Kani/CBMC bounded model checking (SAT) of the real crate with real 256-bit types (in-crate harness on a scratch copy)'
MM = 'z3 simple-path queries (must-precede / must-not-follow) on the rustc MIR control-flow graph of the real handlers'


def c(engines, text, ref, technique):
    return {'engines': engines, 'text': text, 'design_ref': 'DESIGN.md section 4 / 11, ' + ref, 'note': TRUST, 'technique': technique}


CLAIMED = {
    'C01': c(['K-model', 'M'],
             'bounded model checking: the real text of check_if_response_is_matched, check_continuous_headers, is_parent_of, patched_is_valid and '
             'verify_mmr_proof against independent declarative specifications for every input within the bounds (<=4/5 headers, <=3/4 sampled '
             'difficulties, last-N<=2/3); z3 path queries on the MIR of both handlers: every write of trusted state is dominated by the Ok edge of every '
             'check and follows no Err edge; a new last state announced inside a reply is accepted only behind check_verifiable_header; the PoW of EVERY header and the continuity of the reorg and '
             'last-N sections are checked (slice of the proof handler, real text). Crypto uninterpreted; larger responses and multi-peer interplay outside the claim',
             'C01', KM + ' + ' + MM),
    'C02': c(['K-model', 'M'],
             'bounded model checking: the three handlers store / mark fetched / index only behind request match, last-hash, PoW, MMR, Merkle-root and '
             'body-commitment checks (MIR path queries, all data havoc; every filtered block examined); the SendBlock arm as real text over a model of '
             'ckb-types Block/BlockView; request-match predicates, verify_extra_hash, add_block against specifications; verify_mmr_proof binds the chain root that travels beside the last header to '
             'that header (shared with C01). RPC read paths outside the claim',
             'C02', MM + ' + ' + KM),
    'C03': c(['K-model'],
             'bounded model checking of the per-step obligations along filter batch -> matched record -> proved block -> index writer -> query: one Storage::filter_block call on an '
             'arbitrary small block yields exactly the ground-truth index delta (header rows always rewritten); add_fetched_header / add_fetched_tx write one atomic batch and a fetched transaction that is already indexed in its block keeps the recorded tx_index (a later spend deletes the live cell by it); the key encoding is '
             'injective and order-preserving; the filter batch is matched against every script whose range it touches and the filtered height only advances over verified filters (shared with C06); '
             'only proved, header-committed blocks are indexed, all blocks of a record, in block-number order (shared with C02); get_cells returns exactly the indexed cells (shared with C13). '
             'That sync delivers every block (liveness), restarts, interleavings and rollback_to_block are outside the claim', 'C03', KM),
    'C04': c(['K-model', 'M'],
             'bounded model checking of the fork-switch DECISION and BOOKKEEPING step (commit_prove_state with an ordered log of every effect, '
             're-basing of proof requests, gating of the long-fork abort), of the per-peer filter-hash cache being dropped on every fork switch (update_prove_state; child states inherit the reorg '
             'headers) and of the index writer overwriting the number -> hash mapping left by the abandoned branch. Whether rollback_to_block restores the index, and liveness after the switch, '
             'are declined', 'C04', KM + ' + ' + MM),
    'C05': c(['K-model', 'K-real'],
             'bounded model checking of per-check COMPLETENESS: the answer an honest RFC-44 prover builds is accepted by the shape check, legal '
             'difficulty histories by the difficulty checks, documented events by the state machine. One recorded known finding (KF-1). Convergence '
             '(liveness over unbounded multi-peer histories) is declined', 'C05', KM + ' + ' + KR),
    'C06': c(['K-model', 'M'],
             'bounded model checking of the real text of BlockFiltersProcess::execute (ground truth = arbitrary true filter-hash array; accepted prefix '
             'authentic, chained from the right parent, recorded hashes at matching indices), of update_latest_block_filter_hashes, BlockFilterHashesProcess::execute, check_filters_data, and of the '
             'blocks-proof handler marking a matched block proved only for a received, MMR-verified header (never a hash reported missing). GCS matching and '
             'the hash uninterpreted; attribution of the DOWNLOADED block to the filter HEIGHT is a recorded known finding (KF-4)',
             'C06', KM + ' + ' + MM),
    'C07': c(['K-model'],
             'bounded model checking of the real text of finalize_check_points (one tick from an arbitrary state; one agreeing quorum set on every '
             'newly final value; range starts at last+1; index strictly increases; contradicting peers banned), required_peers_count and '
             'add_check_points. Tick / message orders across time are covered only as the single inductive step', 'C07', KM),
    'C08': c(['K-model', 'M'],
             'bounded model checking of the WRITE-BOUNDARY step of individual operations: a symbolic crash counter cuts set_scripts and block arrival '
             'after any number of write operations and the surviving store is checked against a recoverability invariant; MIR order query for the '
             'first-run initialisation. Two recorded known findings (KF-2, KF-3). Restart-and-converge over the real RocksDB is declined', 'C08', KM + ' + ' + MM),
    'C09': c(['K-model', 'M'],
             'bounded model checking of the real text of Storage::update_filter_scripts over a sorted key/value store model (documented replace / upsert / '
             'remove; pending records discarded; MIN_FILTERED below every kept script), update_block_number, and the lock discipline of set_scripts on MIR. '
             'End-to-end indexed result and interleaving with a filter batch (C17) outside the claim', 'C09', KM + ' + ' + MM),
    'C10': c(['K-model', 'K-real', 'M'],
             'bounded model checking: no reachable panic (overflow, index, slice range, unwrap/expect, explicit panic!, panicking numext operators) in the '
             'peer-driven kernels of the four protocols, within each harness bound; the overflow guard dominates every use of total_difficulty(); the only '
             'explicit panic of the proof handler is behind the long-fork flag. molecule decoding, tentacle, RocksDB, CKB-VM and unlisted handler bodies '
             'outside the claim', 'C10', KM + ' + ' + KR + ' + ' + MM),
    'C11': c(['K-model', 'M'],
             'bounded model checking of the real PeerState transition code: one arbitrary event from an ARBITRARY state (inductive step, so event sequences '
             'of any length) against the documented transition table and frame conditions; get_peers_which_have_timeout selects exactly the peers with an overdue request / an unchanged last state; '
             'a repeated last state changes nothing (its age is not refreshed); in-flight fetches are released on a rejected / new-last-state reply (MIR, shared with C16). '
             'Multi-peer interleavings and the network disconnect outside', 'C11', KM + ' + ' + MM),
    'C12': c(['K-model'],
             'bounded model checking of the real text of SendLastStateProcess::execute, update_prove_state_to_child, commit_prove_state and new_child over '
             'models of Storage/Peers with an ordered log of every effect: tip stored only with strictly greater, truthful total difficulty of a linked '
             'child / proven header; the proof handler checks the total difficulty of a sampled proof against the previously proved state whatever else the response carries (slice of execute); '
             'the remembered last-N selection; the response shape check (shared with C01). Restart through RocksDB and multi-peer sequences outside', 'C12', KM),
    'C13': c(['K-model'],
             'bounded model checking of the real text of get_cells / get_cells_capacity / build_query_options / build_filter_options and the key encoding over a read-only '
             'sorted snapshot model (<= 3 rows, ordered seek in both directions): exactly the entries matching the search key and every filter, in key order, descending = reverse '
             'of ascending (the descending seek key reaches above every key up to the documented maximum prefix size), page-by-page through last_cursor exactly once, capacity = sum over exactly those cells with the tip of the SAME snapshot; key bytes order = numeric order. '
             'get_transactions (grouping) and more than 3 rows are outside the claim', 'C13', KM),
    'C14': c(['K-real'],
             'bounded model checking on the REAL functions and 256-bit numext arithmetic: completeness for legal histories (narrow operands), soundness '
             '(exact within one epoch / across one switch incl. epoch difficulties within tau^n, tau envelope otherwise), no abort for arbitrary peer-supplied numbers; <=3 epoch switches '
             '(quick tier: <= 1 switch, 8-bit block difficulties for the one-switch soundness / completeness variants)', 'C14', KR),
    'C15': c(['K-model'],
             'bounded model checking of the real text of sampling.rs (narrowed widths, libm pow/log as arbitrary values in their documented range) and of '
             'build_prove_request_content: well-formedness of every request; the sample count equals max(1, min(m, blocks) - last_n) for the FlyClient bound m the code computes (last-N discounted once). '
             'That m itself is the right bound for the configured adversary fraction is declined (m depends on log / pow, for which the solver has no bit-precise model)', 'C15', KM),
    'C16': c(['K-model', 'M'],
             'bounded model checking of the fetch bookkeeping (one arbitrary operation from an arbitrary table state) and of the status decision of '
             'fetch_header / fetch_transaction; store only behind the proof checks (MIR, shared with C02); in-flight fetches released / owned (MIR); add_fetched_header / add_fetched_tx always '
             '(re)write the header row and the number -> hash mapping of the proved block in one batch with the transaction row, which is what get_transaction resolves the block through',
             'C16', KM + ' + ' + MM),
    'C18': c(['K-model', 'M'],
             'bounded model checking of the real text of PendingTxs (one arbitrary operation from an arbitrary pool state), of resolve_tx + parse_dep_group_data (Ok iff every input / dep resolves to a live cell '
             'and no out point is spent twice; exact resolved lists), and MIR queries: push only on the Ok edge of verify_tx, send_transaction / estimate_cycles return Ok only through it. One recorded known finding (KF-5). '
             'Script execution (CKB-VM), capacity / since rules of ckb-verification are declined', 'C18', KM + ' + ' + MM),
}
NOT_APPLICABLE = {
    'C17': 'concurrency: Kani/CBMC does not model Rust threads and no concurrent solver-based engine is available in this sandbox; only lock-discipline facts '
           '(writes under the matched-blocks write lock: C04 O4.1, C06 O6.1, C09 O9.3, C02 O2.6) are decided, which is not the property',
}
# properties whose check is not (yet) registered because it does not finish reliably within the quick budget are moved here by hand
PENDING = {}
for p in PENDING:
    CLAIMED.pop(p, None)
    NOT_APPLICABLE[p] = PENDING[p]
