"""C02 - only data committed by a proven header is ever indexed or served as fetched."""
from engines import KModelOb, MirOb
import common
from common import *
from extract import Source
import re

ASSUMPTIONS = [
    'engine M: intra-procedural must-precede / must-not-follow facts on the MIR of the three handlers; all data havoc',
    'blake2b, PoW, MMR verify, Merkle proofs are uninterpreted; what RPCs return through RocksDB is outside the claim',
    'checks inside per-item loops (Merkle root of each filtered block) are asserted as must-not-follow from their failing arm, '
    'plus "the verification call is on every path"; v1 extra-field byte sweeps are outside the claim',
]


def first_call_after(cfg, callee_re, after_block):
    n = int(after_block[2:])
    cs = [c for c in cfg.find_calls(callee_re) if int(c.block[2:]) > n]
    if not cs:
        import mirpaths
        raise mirpaths.MirError('no call /%s/ after %s' % (callee_re, after_block))
    return cs[0]


def mir_blocks_proof(cfg):
    import mirpaths
    q = mirpaths.Query(cfg)
    eff = (cfg.find_calls(r'Storage::add_fetched_header') + cfg.find_calls(r'Peers::mark_matched_blocks_proved') +
           cfg.find_calls(r'Peers::update_blocks_request') + cfg.find_calls(r'Peers::remove_fetching_header'))
    q.witness(eff, 'effects reachable')
    q.gate(eff, r'Peer::get_blocks_proof_request', 'option', 'header / block marked fetched or proved without an outstanding blocks-proof request')
    lh = cfg.find_calls(r'BlocksProofRequest::last_hash')[0]
    ne = first_call_after(cfg, r'PartialEq.*>::(ne|eq)$', lh.block)
    e = cfg.bool_edges(ne)
    bad = e['true'] if ne.callee.endswith('::ne') else e['false']
    q.must_not_reach(bad[1], eff, 'effects reachable although the response is for another last hash')
    q.gate(eff, r'BlocksProofRequest::check_block_hashes', 'bool', 'effects reachable without check_block_hashes (headers outside the request)')
    for name in ['LightClientProtocol::check_pow_for_headers', 'verify_mmr_proof']:
        q.gate(eff, name, 'result', 'effects reachable without the Ok edge of %s' % name, after_err='effects reachable after the Err edge of %s' % name)
    for x in cfg.find_calls(r'^verify_extra_hash', required=False):
        q.must_not_reach(cfg.result_edges(x)['err'][1], eff, 'effects reachable after a failed verify_extra_hash')
    return q


def mir_txs_proof(cfg):
    import mirpaths
    q = mirpaths.Query(cfg)
    eff = cfg.find_calls(r'Storage::add_fetched_tx') + cfg.find_calls(r'Peers::remove_fetching_transaction')
    q.witness(eff, 'effects reachable')
    q.gate(eff, r'Peer::get_txs_proof_request', 'option', 'transaction reported fetched without an outstanding transactions-proof request')
    lh = cfg.find_calls(r'TransactionsProofRequest::last_hash')[0]
    ne = first_call_after(cfg, r'PartialEq.*>::(ne|eq)$', lh.block)
    e = cfg.bool_edges(ne)
    bad = e['true'] if ne.callee.endswith('::ne') else e['false']
    q.must_not_reach(bad[1], eff, 'effects reachable although the response is for another last hash')
    q.gate(eff, r'TransactionsProofRequest::check_tx_hashes', 'bool', 'effects reachable without check_tx_hashes (transactions outside the request)')
    for name in ['LightClientProtocol::check_pow_for_headers', 'verify_mmr_proof']:
        q.gate(eff, name, 'result', 'effects reachable without the Ok edge of %s' % name, after_err='effects reachable after the Err edge of %s' % name)
    for x in cfg.find_calls(r'verify_extra_hash', required=False):
        q.must_not_reach(cfg.result_edges(x)['err'][1], eff, 'effects reachable after a failed verify_extra_hash')
    # Merkle commitment of the transactions by the header (inside the per-block loop)
    # (a must-precede query is not sound here: with all data havoc the verification loop may run zero times while the storing
    #  loop runs once; so the obligation is stated on the arms of the comparison instead)
    if not cfg.find_calls(r'MerkleProof::<.*>::root$', required=False):
        q.failures.append('the Merkle root of the filtered blocks is never computed (MerkleProof::root call missing)')
        q.paths.append({'what': 'no call to MerkleProof::root in the handler', 'blocks': [], 'bfs_confirmed': True})
    m = cfg.find_calls(r'Option::<.*>::map::<bool')
    mp = [x for x in m if 'send_transactions_proof.rs' in x.callee]
    if not mp:
        raise mirpaths.MirError('comparison of the Merkle root with the header transactions_root not found')
    for x in mp:
        sw, tg, mode = cfg._follow(x.ret, x.dest)
        # Option<bool>: niche-encoded; arms: 0 => Some(false), 1 => Some(true), 2 => None (layout) -- every arm other than the
        # one leading on to the stores must be a dead end for the effects
        good = [t for lab, t in tg.items() if cfg.bfs(t, [c.block for c in eff]) is not None]
        if len(good) != 1:
            q.failures.append('more than one outcome of the Merkle-root comparison leads on to add_fetched_tx (%s)' % tg)
            q.paths.append({'what': 'arms of the Merkle-root comparison: %s' % tg, 'blocks': [(sw, cfg.term[sw])], 'bfs_confirmed': True})
        q.n_queries += 1; q.n_unsat += 1 if len(good) == 1 else 0
        # EVERY filtered block is checked: from the accepting arm the only way on to the stores is through the next iteration of
        # the verification loop (its `next()`), i.e. the loop is not left early on success
        nxt = [c for c in cfg.find_calls(r'slice::Iter<.*FilteredBlock> as Iterator>::next$', required=False)]
        if nxt and len(good) == 1:
            q.must_pass(eff, [(c.block, c.ret) for c in nxt], 'after one filtered block passed the Merkle check the stores are reachable without '
                        'examining the remaining filtered blocks (verification loop left early)', src=good[0])
    return q


def mir_send_block(cfg):
    import mirpaths
    q = mirpaths.Query(cfg)
    eff = cfg.find_calls(r'Peers::add_block') + cfg.find_calls(r'Storage::filter_block')
    q.witness(eff, 'add_block reachable')
    q.must_call(eff, r'calc_transactions_root', 'block body accepted / indexed without computing its transactions root')
    cs = cfg.find_calls(r'calc_transactions_root', required=False)
    if cs:
        ne = first_call_after(cfg, r'PartialEq.*>::(ne|eq)$', cs[0].block)
        e = cfg.bool_edges(ne)
        good = e['false'] if ne.callee.endswith('::ne') else e['true']
        q.must_pass(eff, [good], 'block body accepted / indexed although its transactions root differs from the header (comparison bypassed)')
    # filter_block only for blocks recorded as matched (the assert!(db_blocks.contains(..)) precedes it)
    q.must_call(cfg.find_calls(r'Storage::filter_block'), r'HashSet::<.*>::contains', 'filter_block without the membership test against the stored matched-block record')
    return q


def ex_proofs(repo):
    s = Source(repo, PEERS)
    b = Source(repo, SBP)
    return common.status_code(repo) + [
        s.item(r'^pub\(crate\) struct BlocksProofRequest', attrs=True), s.item(r'^pub\(crate\) struct TransactionsProofRequest', attrs=True),
        s.item(r'^impl BlocksProofRequest \{'), s.item(r'^impl TransactionsProofRequest \{'),
        b.item(r'^pub\(crate\) fn verify_extra_hash'),
        s.item(r'^pub\(crate\) struct BlocksRequest', attrs=True), s.item(r'^impl BlocksRequest \{'),
        s.method(r'^impl Peer \{', 'add_block', wrap='impl Peer'),
        s.method(r'^impl Peers \{', 'add_block', wrap='impl Peers'),
    ]


def ex_sbp(repo):
    s = Source(repo, PEERS)
    b = Source(repo, SBP)
    ei = b.method(r"^impl<'a> SendBlocksProofProcess<'a> \{", 'execute_internally', wrap="impl<'a> SendBlocksProofProcess<'a>")
    ei.sub(r'hashes\.to_vec\(\)\.pack\(\)', 'hashes.mto_vec().pack()')
    ei.sub(r'\.collect::<Vec<_>>\(\)(\s*)\.choose\(', r'.collect::<RefVec<_>>()\1.choose(')
    return common.status_code(repo) + [
        s.item(r'^pub\(crate\) struct BlocksProofRequest', attrs=True), s.item(r'^impl BlocksProofRequest \{'),
        s.method(r'^impl Peers \{', 'mark_matched_blocks_proved', wrap='impl Peers'),
        b.item(r'^pub\(crate\) fn verify_extra_hash'), ei,
    ]


def obligations():
    return _own() + common.shared('C01', ['O1.4-mmr', 'O1.4-mmr-t'], 'O2', 'the last header of a blocks / transactions proof reply is tied to the proved state by its HASH only, which does not cover the parent chain root that travels beside it: verify_mmr_proof itself must bind that root to the header (patched_is_valid)')


def _own():
    return [
        KModelOb('O2.6-body-semantic', 'syncarm', 'send_block_ok', 'SendBlock arm (real text) over a model of ckb-types Block / BlockView (into_view RESETS the header roots, '
                 'into_view_without_reset_header does not): a block whose body is not committed by its header is rejected and nothing is stored; only proved '
                 'matched blocks with their committed body are indexed, once, after their pending record is consumed, then the script numbers are raised',
                 common.send_block_arm, '<=2 matched hashes in the earliest record (+ an optional later record), arbitrary incoming block over 3 header ids; '
                 'transactions root / extra hash uninterpreted', timeout=1500, mem_gb=12, min_covers=2, weight=5),
        KModelOb('O2.3-blocks-proof-semantic', 'sbp', 'blocks_proof', 'SendBlocksProofProcess::execute_internally (real text, with the real BlocksProofRequest, '
                 'mark_matched_blocks_proved and verify_extra_hash): a header is stored / a matched block marked proved / a GetBlocks sent only for RECEIVED headers of a reply that '
                 'matches the outstanding request (last hash, received + missing = requested), whose headers all pass PoW, the MMR verification (called on exactly these '
                 'headers) and - V1 - the extra-hash commitment; each header is stored with its own extension; missing marks only for hashes reported missing; a rejected '
                 'reply leaves no effect; the new-last-state reply only releases the in-flight fetches', ex_sbp,
                 '<=2 requested hashes over 4 identities, <=2 received headers, <=2 missing, <=2 matched blocks, 2 peers; PoW / MMR verdicts arbitrary',
                 cuts=['message reader, protocol object, peer table, store -> models with a ghost effect log', 'textual adaptations: hashes.to_vec() -> hashes.mto_vec() (no heap copy); .collect::<Vec<_>>().choose -> .collect::<RefVec<_>>().choose (vector of references)'],
                 timeout=2400, mem_gb=16, min_covers=2, weight=6),
        MirOb('O2.3-blocks-proof-gates', 'SendBlocksProofProcess::execute_internally: add_fetched_header / mark_matched_blocks_proved / '
              'update_blocks_request / remove_fetching_header only with an outstanding request, the requested last hash, check_block_hashes, '
              'PoW Ok and verify_mmr_proof Ok; nothing after a failed check', r'send_blocks_proof\.rs:\d+:\d+: \d+:\d+>::execute_internally\(',
              mir_blocks_proof, src_rel=SBP),
        MirOb('O2.4-txs-proof-gates', 'SendTransactionsProofProcess::execute_internally: add_fetched_tx / remove_fetching_transaction only with an '
              'outstanding request, the requested last hash, check_tx_hashes, PoW Ok, verify_mmr_proof Ok, and exactly one outcome of the '
              'Merkle-root comparison leads on to the store', r'send_transactions_proof\.rs:\d+:\d+: \d+:\d+>::execute_internally\(',
              mir_txs_proof, src_rel=STP),
        MirOb('O2.6-body-commitment', 'SyncProtocol::received, SendBlock arm: every path to Peers::add_block / Storage::filter_block passes the '
              'computation of the body transactions root and the equal edge of its comparison with the header',
              r'synchronizer\.rs:\d+:\d+: \d+:\d+>::received::\{closure#0\}\(', mir_send_block, src_rel=SYNC),
        KModelOb('O2.1-request-match', 'proofs', 'hashes_match', 'check_block_hashes / check_tx_hashes (real text): true iff received + missing '
                 'is exactly the requested set (requested hashes distinct: they are DashMap keys)', ex_proofs,
                 '<=3 requested, <=3 received, <=3 missing hashes over 4 identifiers', timeout=900, mem_gb=8, min_covers=2),
        KModelOb('O2.2-extra-hash', 'proofs', 'extra_hash', 'verify_extra_hash (real text): Ok implies equal lengths and per-index '
                 'extra hash = H(uncles hash, H(extension))', ex_proofs, '<=3 headers', timeout=900, mem_gb=8, min_covers=2),
        KModelOb('O2.5-add-block', 'proofs', 'add_block', 'Peers::add_block / Peer::add_block (real text): a body is stored only under a key '
                 'that is present AND marked proved; the per-peer request bookkeeping marks exactly that hash', ex_proofs,
                 '<=3 matched entries, <=2 peers with <=3 requested hashes', timeout=900, mem_gb=8, min_covers=2),
    ]
