"""C18 - send_transaction admits only verifiable transactions; relays once per peer."""
from engines import KModelOb, MirOb
import common
from common import *
from extract import Source

ASSUMPTIONS = [
    'DECLINED: acceptance only of verifiable transactions (cell resolution through RocksDB, CKB-VM script execution, capacity / since rules '
    'of ckb-verification) - code behind FFI / a VM, not encodable; only "push happens on the Ok edge of verify_tx" is decided (engine M)',
    'pool obligations: bounded model checking of the real text of PendingTxs over an insertion-ordered array model of LinkedHashMap '
    '(linked-hash-map 0.5.6 semantics), one arbitrary operation from an arbitrary pool state (inductive step), limit 1..3, 4 transaction identities, 2 peers',
]
CUTS = ['LinkedHashMap -> insertion-ordered array', 'HashSet<PeerId> -> array-backed set', 'Instant -> unit']


def ex_pending(repo):
    s = Source(repo, RELAYER)
    return [s.item(r'^pub struct PendingTxs'), s.item(r'^impl PendingTxs \{')]


def ex_resolvetx(repo):
    s = Source(repo, 'src/verify.rs')
    p = s.item(r'^fn parse_dep_group_data'); p.sub(r'slice: &\[u8\]', 'slice: &Bytes'); p.sub(r'"[^"]*"\.to_owned\(\)', 'String::new()')
    return [s.item(r'^fn resolve_tx'), p]


def mir_send_tx(cfg):
    import mirpaths
    q = mirpaths.Query(cfg)
    push = cfg.find_calls(r'PendingTxs::push')
    q.witness(push, 'push reachable')
    v = cfg.find_calls(r'(^|::)verify_tx$')
    if not v:
        q.failures.append('send_transaction never calls verify_tx'); q.paths.append({'what': 'no verify_tx call', 'blocks': [], 'bfs_confirmed': True}); return q
    q.must_pass(push, [cfg.result_edges(x)['ok'] for x in v], 'transaction pushed to the pending pool without passing the Ok edge of verify_tx')
    for x in v:
        q.must_not_reach(cfg.result_edges(x)['err'][1], push, 'transaction pushed to the pending pool after verify_tx failed')
    return q


def mir_ok_only_verified(cfg):
    """The RPC returns Ok (transaction accepted / cycles reported) only on a path through the Ok edge of verify_tx: no early success return."""
    import mirpaths
    q = mirpaths.Query(cfg)
    oks = cfg.find_blocks(r'_0 = (std::result::)?Result::<[^\n]*>::Ok\(')
    if not oks:
        raise mirpaths.MirError('no success return (`_0 = Result::Ok(..)`) found in %s' % cfg.name)
    q.witness(oks, 'success return reachable')
    v = cfg.find_calls(r'(^|::)verify_tx$', required=False)
    if not v:
        q.failures.append('%s returns Ok without ever calling verify_tx' % cfg.name.strip()); q.paths.append({'what': 'no verify_tx call', 'blocks': [], 'bfs_confirmed': True}); return q
    q.must_pass(oks, [cfg.result_edges(x)['ok'] for x in v], 'the RPC returns Ok (transaction accepted) on a path that does not pass the Ok edge of verify_tx: a transaction that was not verified is reported as admitted')
    for x in v:
        q.must_not_reach(cfg.result_edges(x)['err'][1], oks, 'the RPC returns Ok after verify_tx failed')
    return q


def obligations():
    return [
        KModelOb('O18.1-pool', 'pending', 'pool_q', 'PendingTxs (real text): the pool never exceeds its limit, the oldest is evicted first, a re-push refreshes, '
                 'get reports exactly the members, each pool entry is announced to a given peer at most once (and all not-yet-announced ones are); the reference follows the code in '
                 'treating a re-pushed transaction as a fresh entry - the once-per-peer clause under re-submission is O18.3',
                 ex_pending, 'ONE arbitrary operation (push / announce / get) from an ARBITRARY pool state (inductive step); limit 1..2; 4 identities; 2 peers', cuts=CUTS,
                 timeout=1500, mem_gb=10, min_covers=2, weight=4, tiers=('quick',)),
        KModelOb('O18.1-pool-t', 'pending', 'pool', 'as O18.1 with limit 1..3', ex_pending, 'limit 1..3; 4 identities; 2 peers', cuts=CUTS, timeout=3000, mem_gb=12, min_covers=2, weight=5,
                 tiers=('thorough',)),
        KModelOb('O18.3-resubmission', 'pending', 'resubmission', 'PendingTxs (real text): a transaction that was already announced to a peer and is submitted AGAIN (send_transaction does '
                 'not de-duplicate) is not announced to that peer a second time', ex_pending, 'arbitrary pool (limit 1..3, 4 identities, 2 peers), re-push of a member, one announce', cuts=CUTS,
                 timeout=1200, mem_gb=10, min_covers=1, weight=3),
        KModelOb('O18.4-resolve', 'resolvetx', 'resolve', 'resolve_tx + parse_dep_group_data (real text; the resolution step of send_transaction / estimate_cycles): Ok iff every input and cell dep '
                 '(dep groups expanded through their decoded data) resolves to a LIVE cell of the cell provider and no out point is spent twice by the inputs; the resolved lists are exactly those cells in order; '
                 'otherwise the error of the first failing out point (Dead / Unknown / InvalidDepGroup)', ex_resolvetx,
                 '<= 2 inputs, <= 1 cell dep (code or dep group of <= 2 out points), 3 out-point identities; the cell provider and the dep-group decoding are arbitrary pure functions',
                 cuts=['CellProvider (storage + pending pool) -> arbitrary pure function (out point, eager) -> Live / Dead / Unknown', 'molecule OutPointVec::from_slice -> arbitrary fixed function of the data identity',
                       'HashMap (entry API) / HashSet / Vec -> array-backed models', 'textual: parse_dep_group_data(slice: &[u8]) -> (slice: &Bytes); its error strings "..".to_owned() -> String::new()'], timeout=900, mem_gb=10, min_covers=3, weight=4, tiers=('quick',), rustflags='--cfg rt_small'),
        KModelOb('O18.4-resolve-t', 'resolvetx', 'resolve', 'resolve_tx + parse_dep_group_data (real text; the resolution step of send_transaction / estimate_cycles): Ok iff every input and cell dep '
                 '(dep groups expanded through their decoded data) resolves to a LIVE cell of the cell provider and no out point is spent twice by the inputs; the resolved lists are exactly those cells in order; '
                 'otherwise the error of the first failing out point (Dead / Unknown / InvalidDepGroup)', ex_resolvetx,
                 '<= 2 inputs, <= 2 cell deps (code or dep group of <= 2 out points), 4 out-point identities; the cell provider and the dep-group decoding are arbitrary pure functions',
                 cuts=['CellProvider (storage + pending pool) -> arbitrary pure function (out point, eager) -> Live / Dead / Unknown', 'molecule OutPointVec::from_slice -> arbitrary fixed function of the data identity',
                       'HashMap (entry API) / HashSet / Vec -> array-backed models', 'textual: parse_dep_group_data(slice: &[u8]) -> (slice: &Bytes); its error strings "..".to_owned() -> String::new()'], timeout=2400, mem_gb=12, min_covers=3, weight=5, tiers=('thorough',)),
        MirOb('O18.2-ok-only-verified', 'TransactionRpcImpl::send_transaction returns Ok only through the Ok edge of verify_tx (no early success return, e.g. for a hash that is already pending: the hash does not cover the witnesses)',
              r'service\.rs:\d+:\d+: \d+:\d+>::send_transaction\(', mir_ok_only_verified, src_rel=SERVICE),
        MirOb('O18.2-estimate-only-verified', 'ChainRpcImpl::estimate_cycles returns Ok only through the Ok edge of verify_tx',
              r'service\.rs:\d+:\d+: \d+:\d+>::estimate_cycles\(', mir_ok_only_verified, src_rel=SERVICE),
        MirOb('O18.2-verify-gate', 'TransactionRpcImpl::send_transaction: PendingTxs::push only on the Ok edge of verify_tx',
              r'service\.rs:\d+:\d+: \d+:\d+>::send_transaction\(', mir_send_tx, src_rel=SERVICE),
    ]
