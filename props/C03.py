"""C03 - script index equals the chain: no phantom or spent cells, no missing activity."""
from engines import KModelOb
import common
from common import *
from extract import Source
import C13

ASSUMPTIONS = [
    'claimed for the per-step obligations along the path filter batch -> matched record -> proved block -> index writer -> rollback -> query (shared with C06 / C02 / C04 / C13); INDEX-WRITER STEP: one call of Storage::filter_block (real text) on an arbitrary block produces exactly the '
    'ground-truth index delta (recomputed independently in the harness); plus the byte encoding of the keys is injective and '
    'order-preserving (unit keys), which is what justifies the structured-key store model used for filter_block',
    'bound: blocks of 2 transactions x 1 input x 1 output (lock + optional type script), one lock and one type script registered, one earlier '
    'transaction in the store, same-block spends included; 3 script identities, 4 transaction identities',
    'DECLINED / outside: that sync delivers every block of a script range (liveness), batch boundaries, interleaving with user RPCs, restarts, '
    'get_cells_capacity sums through RocksDB iterators, rollback_to_block (see C04)',
]
CUTS = ['RocksDB -> structured-key store (Key::into_vec yields a structured key; batch = op list)', 'molecule Block / Transaction / Script -> plain structs',
        'tx / block hashes -> identifiers']


def ex_filterblock(repo):
    # add_fetched_header / add_fetched_tx are extracted with it: an edit that makes filter_block delegate part of its writes to them (a second, separate batch) still builds
    s = Source(repo, STORAGE)
    f = s.item(r'^    pub fn filter_block'); f.prefix = 'impl Storage {\n'; f.suffix = '\n}'
    return [f] + ex_fetched(repo)


def ex_fetched(repo):
    s = Source(repo, STORAGE)
    a = s.item(r'^    pub fn add_fetched_header'); a.prefix = 'impl Storage {\n'
    b = s.item(r'^    pub fn add_fetched_tx'); b.suffix = '\n}'
    return [a, b]


def fetched_rows(ob_id):
    return KModelOb(ob_id, 'filterblock:fetched', 'fetched_rows', 'Storage::add_fetched_header / add_fetched_tx (real text): one atomic batch that always (re)writes the header row and the '
                    'number -> hash mapping of the proved block (get_transaction_with_header resolves the block by number) plus the transaction row (number, u32::MAX, tx) - the index filter_block recorded when the transaction is already indexed in this block (a later spend deletes the live cell by it)',
                    ex_filterblock, 'arbitrary header (number, hash id), transaction, arbitrary "header already stored" flag', cuts=CUTS, timeout=900, mem_gb=8, min_covers=2, weight=2,
                    rustflags='--cfg fb_small --cfg fb_fetched', field_sensitivity=True)


def filter_block_quick(ob_id='O3.1-filter-block'):
    return KModelOb(ob_id, 'filterblock', 'filter_block_one_tx', 'Storage::filter_block (real text): the committed batch is exactly the ground-truth delta - live cell + history + '
                 'transaction row for every output of a registered script (lock and/or type), deletion of the RIGHT live cell + input history for every spent cell, '
                 'header rows (ALWAYS rewritten: the number -> hash mapping may be left over from an abandoned branch) iff something matched, nothing else', ex_filterblock,
                 '1 tx x 1 input x 1 output with optional type script (one lock and one type script registered), 1 stored transaction, arbitrary numbers, arbitrary "header already stored" flag', cuts=CUTS,
                 timeout=1500, mem_gb=12, min_covers=2, weight=5, tiers=('quick',), rustflags='--cfg fb_small', field_sensitivity=True)


def obligations():
    return [filter_block_quick(), fetched_rows('O3.2-fetched-rows'),
        KModelOb('O3.1-filter-block-2tx', 'filterblock', 'filter_block_lock_only', 'as O3.1 with two transactions, so that a spend of an output created earlier in the same block is covered; '
                 'outputs without type scripts', ex_filterblock,
                 '2 txs x 1 input x 1 output, outputs WITHOUT type scripts', cuts=CUTS, timeout=5400, mem_gb=24, min_covers=2, weight=9, tiers=('thorough',), field_sensitivity=True),
        KModelOb('O3.1-filter-block-t', 'filterblock', 'filter_block_lock_and_type', 'as O3.1-filter-block-2tx with outputs that may also carry a type script', ex_filterblock,
                 '2 txs x 1 input x 1 output with optional type scripts', cuts=CUTS, timeout=7200, mem_gb=24, min_covers=2, weight=9, tiers=('thorough',), field_sensitivity=True),
    ] + C13.key_obligations('O3.3') + (
        common.shared('C06', ['O6.5-script-selection', 'O6.1-filters', 'O6.1-filters-t'], 'O3', 'every block of a script range is examined: the filter batch is matched against every script whose range it touches, the '
                      'filtered height only advances over verified filters, script numbers only move when nothing is pending') +
        common.shared('C02', ['O2.5-add-block', 'O2.6-body-semantic'], 'O3', 'only proved, header-committed blocks are indexed, all matched blocks of a record, each once') +
        common.shared('C13', ['O13.2-cells-order'], 'O3', 'get_cells returns exactly the indexed cells of the script'))
