"""C05 - honest peers are never rejected and the client converges to the heaviest tip."""
from engines import KModelOb
import C01, C11, C14, common

ASSUMPTIONS = [
    'DECLINED: "after finitely many exchanges the tip equals the heaviest tip the peers announce" - a liveness statement over unbounded '
    'multi-peer histories, restarts and delivery orders; not expressible as a bounded solver query over this code',
    'claimed: per-check COMPLETENESS - an honest answer is not rejected by the response-shape check (O5.1), by the difficulty checks (O5.2 = C14 O14.1) '
    'and by the peer state machine (O5.3 = C11 O11.1)',
    'O5.1 uses a reference model of the honest prover written from RFC 44 (the ckb-light-client-protocol-server crate is not in this sandbox): '
    'chain of <=5 (thorough 7) blocks with arbitrary positive 32-bit difficulties, no reorg, request satisfying the C15 post-conditions. If this '
    'obligation ever fails the oracle is suspected first (DESIGN.md section 4, C05)',
]


def obligations():
    c14 = {o.ob_id: o for o in C14.obligations()}
    c11 = {o.ob_id: o for o in C11.obligations()}
    o2 = c14['O14.1-complete-n2']; o2.ob_id = 'O5.2-difficulty-complete'
    o2q = c14['O14.1-complete-q0']; o2q.ob_id = 'O5.2-difficulty-complete-q0'; o2m = c14['O14.1-complete-n01']; o2m.ob_id = 'O5.2-difficulty-complete-n01'
    o2s = c14['O14.1-complete-q1s']; o2s.ob_id = 'O5.2-difficulty-complete-q1s'
    o3p = c11['O11.1-predicates']; o3p.ob_id = 'O5.3-retry-predicates'; o3p.desc = '[a peer that could not be asked for a proof yet is asked again on the next refresh: OnlyHasLastState requires a new proof] ' + o3p.desc
    o3 = c11['O11.1-step']; o3.ob_id = 'O5.3-state-machine-accepts-documented-events'
    return [
        KModelOb('O5.1-honest-accepted', 'slsp', 'honest_q', 'check_if_response_is_matched (real text) accepts the response an honest RFC-44 prover builds '
                 '(all blocks when at most last-N are missing; otherwise first block reaching each sampled difficulty + the blocks from the boundary block on)',
                 C01.ex_slsp, 'chains of 5 blocks, last-N in {1,2}, <=2 sampled difficulties, arbitrary positive 32-bit block difficulties', cuts=C01.CUTS,
                 timeout=1500, mem_gb=10, tiers=('quick',), min_covers=2, weight=4),
        KModelOb('O5.1-honest-accepted-t', 'slsp', 'honest_t', 'as O5.1 with chains of 7 blocks and <=3 sampled difficulties', C01.ex_slsp, '7 blocks, <=3 difficulties',
                 cuts=C01.CUTS, timeout=3300, mem_gb=20, tiers=('thorough',), min_covers=2, weight=6),
        KModelOb('O5.1-honest-without-samples', 'slsp', 'honest_without_samples', 'the remaining case of O5.1: a sampling request whose honest answer carries no sampled header '
                 '(every requested difficulty is reached inside the last-N section; always so when the peer is exactly last_n + 1 blocks ahead) is accepted', C01.ex_slsp, 'chains of 5 blocks, last-N in {1,2}',
                 cuts=C01.CUTS, timeout=1500, mem_gb=10, min_covers=2, weight=4),
        o2, o2q, o2s, o2m, o3, o3p,
    ] + common.shared('C12', ['O12.5-remembered-headers'], 'O5', 'the client remembers the last N proven headers, so that an honest fork shallower than last-N is followed instead of being taken for a long fork')
