"""C16 - fetch statuses and get_transaction (transaction, block) answers are truthful."""
from engines import KModelOb, MirOb
import common
from common import *
from extract import Source
import C02

ASSUMPTIONS = [
    'bounded model checking of the real text of the fetch bookkeeping of Peers / FetchInfo and of the status decision of fetch_header / '
    'fetch_transaction over DashMap / storage models: ONE arbitrary operation from an ARBITRARY table state (inductive step), two hashes, '
    'one connected peer with arbitrary outstanding proof requests',
    'a delivered header / transaction is stored only behind the proof checks: shared with C02 (O2.3 / O2.4, engine M)',
    'the (transaction, block hash) pairing after a fork switch (height-keyed lookup in RocksDB) is outside the claim',
]
CUTS = ['DashMap -> slot array behind UnsafeCell', 'Storage / pending pool -> models', 'unix_time_as_millis -> arbitrary u64']
PEER_METHODS = ['has_fetching_info', 'add_fetch_header', 'add_fetch_tx', 'get_header_fetch_info', 'get_tx_fetch_info', 'mark_fetching_headers_missing',
                'mark_fetching_txs_missing', 'mark_fetching_headers_timeout', 'mark_fetching_txs_timeout', 'fetching_idle_headers', 'fetching_idle_txs',
                'remove_peer', 'get_peer', 'remove_fetching_header', 'remove_fetching_transaction', 'get_headers_to_fetch', 'get_txs_to_fetch']


def ex_fetch(repo):
    s = Source(repo, PEERS)
    v = Source(repo, SERVICE)
    out = common.status_code(repo) + [s.item(r'^pub struct FetchInfo'), s.item(r'^impl FetchInfo \{'),
                                      s.item(r'^pub\(crate\) struct BlocksProofRequest', attrs=True), s.item(r'^pub\(crate\) struct TransactionsProofRequest', attrs=True),
                                      s.item(r'^impl BlocksProofRequest \{'), s.item(r'^impl TransactionsProofRequest \{')]
    ms = [s.method(r'^impl Peers \{', m) for m in PEER_METHODS]
    ms[0].prefix = 'impl Peers {\n'; ms[-1].suffix = '\n}'
    fh = v.method(r'^impl ChainRpc for ChainRpcImpl', 'fetch_header'); fh.prefix = 'impl ChainRpcImpl {\n'; fh.suffix = '\n}'
    ft = v.method(r'^impl TransactionRpc for TransactionRpcImpl', 'fetch_transaction'); ft.prefix = 'impl TransactionRpcImpl {\n'; ft.suffix = '\n}'
    return out + ms + [fh, ft]


def mir_release_on_new_last_state(which):
    """When the peer answers a proof request with a NEW last state (and no data), the request is dropped by the caller, so the in-flight
    hashes must be marked `timeout` - otherwise nothing ever offers them to another peer (they are neither listed by get_*_to_fetch nor
    released when the peer disconnects, because its request is gone)."""
    def f(cfg):
        import mirpaths
        q = mirpaths.Query(cfg)
        pls = cfg.find_calls(r'LightClientProtocol::process_last_state$')
        rets = [b for b, t in cfg.term.items() if t.startswith('return') and b not in cfg.cleanup]
        if not rets:
            raise mirpaths.MirError('no return block')
        q.witness(pls, 'process_last_state reachable')
        for c in pls:
            ok = cfg.result_edges(c)['ok']
            q.must_call(rets, r'Peers::mark_fetching_%s_timeout$' % which, 'the handler returns after accepting a new last state without marking the in-flight %s as timed out '
                        '(the fetch request is lost: no other peer is ever asked)' % which, src=ok[1])
        return q
    return f


def mir_release_on_rejected(which, upd):
    """execute() drops the peer's proof request whatever execute_internally() returned; unless the status is ok the in-flight hashes must be
    marked `timeout` first (fixed defect aacb150: they stayed `fetching` for ever after a rejected response + ban)."""
    def f(cfg):
        import mirpaths
        q = mirpaths.Query(cfg)
        cfg.find_calls(r'::execute_internally$')
        upds = cfg.find_calls(r'Peers::update_%s_proof_request$' % upd)
        q.witness(upds, 'the request drop is reachable')
        edges = [cfg.bool_edges(c)['true'] for c in cfg.find_calls(r'Status::is_ok$', required=False)]
        edges += [(c.block, c.ret) for c in cfg.find_calls(r'Peers::mark_fetching_%s_timeout$' % which, required=False)]
        q.must_pass(upds, edges, 'the proof request of the peer is dropped after a response that was NOT accepted without marking its in-flight %s as timed out '
                    '(they stay `fetching` for ever: not listed by get_*_to_fetch, not released when the banned peer disconnects)' % which)
        return q
    return f


def mir_inflight_owned(cfg):
    """fetch_headers_txs: a hash is marked in flight (fetching_idle_*: first_sent set, timeout cleared - no longer listed by get_*_to_fetch) only in a
    loop iteration that has recorded it in a peer's proof request (update_*_proof_request): a timeout, disconnect or reply of THAT peer is the only
    thing that ever releases it.  Checked per iteration: every simple path from the iteration's peer selection (Iterator::find) to the mark passes
    the request installation."""
    import mirpaths
    q = mirpaths.Query(cfg)
    finds = cfg.find_calls(r'as Iterator>::find::<')
    for which, upd in [('headers', 'blocks'), ('txs', 'txs')]:
        marks = cfg.find_calls(r'Peers::fetching_idle_%s$' % which)
        q.witness(marks, 'fetching_idle_%s reachable' % which)
        upds = cfg.find_calls(r'Peers::update_%s_proof_request$' % upd, required=False)
        edges = [(c.block, c.ret) for c in upds]
        for f in finds:
            q.must_pass(marks, edges, 'fetch_headers_txs marks %s as in flight in an iteration that has not recorded them in any peer\'s proof request (when every peer is busy '
                        'they are marked and never released: the fetch is lost)' % which, src=f.block)
    return q


def obligations():
    obs = [
        MirOb('O16.5-inflight-owned', 'LightClientProtocol::fetch_headers_txs: hashes are marked in flight only after the request that carries them was recorded for a peer',
              r'mod\.rs:\d+:\d+: \d+:\d+>::fetch_headers_txs\(', mir_inflight_owned, src_rel=LCMOD),
        MirOb('O16.4-release-rejected-headers', 'SendBlocksProofProcess::execute: a rejected response releases the in-flight header fetches before the request is dropped',
              r'send_blocks_proof\.rs:\d+:\d+: \d+:\d+>::execute\(', mir_release_on_rejected('headers', 'blocks'), src_rel=SBP),
        MirOb('O16.4-release-rejected-txs', 'SendTransactionsProofProcess::execute: a rejected response releases the in-flight transaction fetches before the request is dropped',
              r'send_transactions_proof\.rs:\d+:\d+: \d+:\d+>::execute\(', mir_release_on_rejected('txs', 'txs'), src_rel=STP),
        MirOb('O16.3-release-headers', 'SendBlocksProofProcess::execute_internally: after a reply that only carries a new last state, the in-flight header fetches are marked timeout',
              r'send_blocks_proof\.rs:\d+:\d+: \d+:\d+>::execute_internally\(', mir_release_on_new_last_state('headers'), src_rel=SBP),
        MirOb('O16.3-release-txs', 'SendTransactionsProofProcess::execute_internally: after a reply that only carries a new last state, the in-flight transaction fetches are marked timeout',
              r'send_transactions_proof\.rs:\d+:\d+: \d+:\d+>::execute_internally\(', mir_release_on_new_last_state('txs'), src_rel=STP),
        KModelOb('O16.1-step', 'fetch', 'step', 'fetch bookkeeping (real text): a request disappears only by delivery; add (re)starts as added; sending sets '
                 'first_sent once and clears the timeout; a timed-out / disconnected peer marks exactly its in-flight hashes and they become '
                 'eligible again; get_*_to_fetch lists exactly the never-sent and timed-out requests; a disconnected peer leaves no entry',
                 ex_fetch, 'arbitrary table state over 2 hashes x {header, transaction}, one peer, one arbitrary operation', cuts=CUTS,
                 timeout=1500, mem_gb=10, min_covers=2, weight=4),
        KModelOb('O16.1-rpc', 'fetch', 'rpc_status', 'fetch_header / fetch_transaction (real text): fetched iff stored (with the stored block); not_found iff a '
                 'peer reported the hash missing, and then re-requested; fetching iff sent; added otherwise; polling does not disturb a pending request',
                 ex_fetch, 'arbitrary table state, arbitrary clock', cuts=CUTS, timeout=1500, mem_gb=10, min_covers=2, weight=4),
    ]
    c02 = {o.ob_id: o for o in C02.obligations()}
    for k, new in [('O2.3-blocks-proof-gates', 'O16.2-header-store-gates'), ('O2.4-txs-proof-gates', 'O16.2-tx-store-gates'), ('O2.6-body-semantic', 'O16.7-body-committed')]:
        o = c02[k]; o.ob_id = new; obs.append(o)
    obs[-1].desc = '[a transaction is reported as committed in a block only if that block\'s transactions root commits to it: a downloaded body is indexed only if its header commits to it] ' + obs[-1].desc
    import C03
    obs.append(C03.fetched_rows('O16.6-fetched-rows'))
    return obs
