"""C14 - difficulty checks accept every legal difficulty history and bound illegal ones; never abort."""
from engines import KRealOb
from common import *

ASSUMPTIONS = [
    'bounded model checking on the REAL functions and REAL 256-bit numext arithmetic (Kani, in-crate harness)',
    'cuts: alloc::fmt::format -> String::new(); log -> no-op; numext U256::_div_with_rem -> division contract (fresh q,r with '
    'r<d and q*d+r=x by the real multiplication); compact_to_difficulty -> two-entry table chosen by the harness',
    'loop bound: at most 3 epoch switches (more is outside the claim); TAU = 2',
    'QUICK tier (900 s budget of the every-change check): panic-freedom with <= 1 epoch switch, completeness inside one epoch, the tau kernels and split_epochs; '
    'soundness (exact sums / tau envelope) and completeness across epoch switches are decided in the THOROUGH tier only',
    'completeness (O14.1) with block difficulties < 2^56 and epoch lengths < 16 (probe P20: wider products do not finish)',
    'the relation of the tau model to the consensus rule is outside the claim',
]
CUTS = ['alloc::fmt::format -> String::new()', 'log::__private_api::log -> no-op', 'U256::_div_with_rem -> division contract stub',
        'compact_to_difficulty -> harness table']
FUNCS = ['verify_total_difficulty', 'verify_tau', 'EpochDifficultyTrend::{new,check_tau,calculate_tau_exponent,split_epochs,check_total_difficulty_limit}',
         'EpochDifficultyTrendDetails::remove_last_epoch', 'EpochCountGroupByTrend::subtract1']
H = 'slsp_real.rs'


def k(ob, harness, desc, bounds, timeout=1500, mem=8, covers=0, tiers=('quick', 'thorough'), weight=3):
    return KRealOb(ob, SLSP, H, harness, desc, bounds, cuts=CUTS, timeout=timeout, mem_gb=mem, tiers=tiers,
                   min_covers=covers, functions=FUNCS, weight=weight)


def panic_obligations(prefix):
    return [
        k(prefix + '-vtd-no-panic-q', 'vtd_no_panic_q', 'verify_total_difficulty never aborts: arbitrary (also ill-formed) epochs, compact targets and 256-bit totals',
          'all 24/16/16-bit epoch fields (also ill-formed / reversed), all u32 compact targets, all 256-bit totals, block difficulties < 2^128; <=1 epoch switch', weight=6, tiers=('quick',)),
        k(prefix + '-vtd-no-panic', 'vtd_no_panic', 'verify_total_difficulty never aborts: arbitrary (also ill-formed) epochs, compact targets '
          'and 256-bit totals', 'all 24/16/16-bit epoch fields (also ill-formed / reversed), all u32 compact targets, all 256-bit totals, block difficulties < 2^128 (what proof-of-work can reach); <=3 epoch switches',
          weight=8, timeout=3000, tiers=('thorough',)),
        k(prefix + '-no-panic-wide', 'vtd_no_panic_wide', 'verify_total_difficulty and verify_tau never abort, with ARBITRARY 256-bit block difficulties',
          'all epoch fields, compact targets, 256-bit totals and 256-bit block difficulties; <=3 epoch switches', weight=8, timeout=3000, mem=20,
          tiers=('thorough',)),
        k(prefix + '-vtau-no-panic', 'vtau_no_panic', 'verify_tau never aborts for arbitrary inputs', 'as above', weight=2),
    ]


def obligations():
    import common
    return common.shared('C12', ['O12.6-td-gate'], 'O14', 'the total-difficulty range check is applied to every sampled proof from a peer with a proved state') + panic_obligations('O14.3') + [
        k('O14.2-kernels', 'tau_kernels', 'check_tau == (s/2^n <= e <= s*2^n); calculate_tau_exponent brackets e; all 256-bit s,e',
          'n <= 3', covers=3),
        k('O14.2-split', 'split_kernels', 'split_epochs groups add up to n and remove_last_epoch drops exactly one, for every n>=2, k<n',
          'all n < 2^24 (difference of 24-bit epoch numbers), k<n', covers=1, weight=1),
        k('O14.2-sound-q', 'vtd_sound_q1', 'verify_total_difficulty Ok implies: not decreasing; same epoch => total = d*(delta index); one switch => exact unaligned sum',
          'well-formed ordered epochs, <=1 switch, block difficulties < 2^32, totals 256-bit', covers=2, weight=7, timeout=2400, mem=10, tiers=('thorough',)),
        k('O14.2-sound', 'vtd_sound_q', 'verify_total_difficulty Ok implies: not decreasing; same epoch => total = d*(delta index); one switch => '
          'exact unaligned sum; two switches => total - unaligned within [E/2, 2E]', 'well-formed ordered epochs, <=2 switches, '
          'block difficulties < 2^64, totals 256-bit', covers=3, weight=9, timeout=3000, mem=10, tiers=('thorough',)),
        k('O14.2-sound-t', 'vtd_sound', 'verify_total_difficulty Ok implies: not decreasing; same epoch => total = d*(delta index); one switch => '
          'exact unaligned sum; more => total - unaligned within [sum E/2^i, sum E*2^i]', 'well-formed ordered epochs, <=3 switches, '
          'block difficulties < 2^64, totals 256-bit', covers=3, weight=9, timeout=3000, mem=20, tiers=('thorough',)),
        k('O14.1-complete-n2', 'complete_n2', 'every legal history with two epoch switches is accepted by verify_tau and verify_total_difficulty',
          'block difficulties < 2^56, epoch lengths < 16, arbitrary positions', covers=1, weight=9, timeout=3000, mem=10, tiers=('thorough',)),
        k('O14.1-complete-n01', 'complete_n01', 'every legal history inside one epoch or across exactly one switch is accepted',
          'block difficulties < 2^56, epoch lengths < 16', covers=1, weight=6, timeout=3000, mem=20, tiers=('thorough',)),
        k('O14.1-complete-q0', 'complete_n0_q', 'every legal history inside one epoch is accepted by verify_tau and verify_total_difficulty', 'block difficulties < 2^56, epoch lengths < 16, same epoch',
          covers=1, weight=4, timeout=900, mem=8, tiers=('quick',)),
        k('O14.2-tau-exact', 'vtau_exact_q', 'verify_tau is exact: across n >= 1 switches Ok(b), b == (end epoch difficulty within [start / tau^n, start * tau^n]) with epoch difficulty = block difficulty x '
          'length of its OWN epoch; a later start epoch is an error; inside one epoch Ok(true) iff the compact targets agree', 'all 16/16/24-bit epoch fields (also ill-formed), <= 3 switches, block difficulties < 2^16', covers=2, weight=5, timeout=700, mem=10),
        k('O14.2-sound-q1s', 'vtd_sound_q1s', 'verify_total_difficulty Ok implies: not decreasing; same epoch => total = d*(delta index); one switch => exact unaligned sum',
          'well-formed ordered epochs (all 16/16/24-bit fields), <=1 switch, block difficulties < 2^8, totals 256-bit', covers=2, weight=7, timeout=700, mem=10, tiers=('quick',)),
        k('O14.1-complete-q1s', 'complete_n1_qs', 'every legal history across exactly one epoch switch is accepted by verify_tau and verify_total_difficulty',
          'block difficulties < 2^8, epoch lengths < 8, start total < 2^24', covers=1, weight=7, timeout=700, mem=10, tiers=('quick',)),
        k('O14.2-sound-q0', 'vtd_sound_q0', 'verify_total_difficulty Ok implies: not decreasing; inside one epoch total = d*(delta index)', 'well-formed ordered end points in the same epoch, block difficulties < 2^64, totals 256-bit',
          covers=1, weight=4, timeout=1800, mem=8, tiers=('thorough',)),
        k('O14.1-complete-q', 'complete_n01_q', 'every legal history inside one epoch or across exactly one switch is accepted by verify_tau and verify_total_difficulty',
          'block difficulties < 2^24, epoch lengths < 8', covers=1, weight=6, timeout=2400, mem=10, tiers=('thorough',)),
    ]
