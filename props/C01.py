"""C01 - trusted chain state changes only on a fully verified last-state proof."""
from engines import KModelOb, MirOb
import common
from common import *
from extract import Source

ASSUMPTIONS = [
    'bounded model checking; responses with <= 4 (thorough: 5) headers, <= 3 (4) sampled difficulties, last-N in {1,2} ({1,2,3})',
    'U256 narrowed to 64 bits (algorithms only use + - compare); hashes are 1-byte identifiers; blake2b / Eaglesong PoW / '
    'the MMR crate verify / molecule decoding are uninterpreted functions (their collision resistance is assumed, not checked)',
    'the outstanding request is the client own (sampled difficulties strictly increasing: C15 post-condition)',
    'engine M: intra-procedural must-precede / must-not-follow facts on the handler MIR; callee bodies are separate obligations',
]

CUTS = ['log/format macros -> no-op', 'print_difficulties_distribution -> no-op (only runs under log_enabled!(Trace))',
        'hashes/PoW/MMR verify -> uninterpreted (memoised arbitrary) functions']


def ex_slsp(repo):
    s = Source(repo, SLSP)
    p = Source(repo, LCPRELUDE)
    return common.status_code(repo) + [
        s.item(r'^struct TotalDifficulties'), s.item(r'^impl fmt::Display for TotalDifficulties'),
        s.item(r'^macro_rules! trace_sample'),
        s.item(r'^pub\(crate\) fn check_if_response_is_matched'),
        s.item(r'^pub\(crate\) fn check_continuous_headers'),
        s.item(r'^pub\(crate\) fn verify_mmr_proof'),
        p.item(r'^impl HeaderUtils for HeaderView'),
        p.item(r'^pub\(crate\) trait VerifiableHeaderPatch'),
        p.item(r'^impl VerifiableHeaderPatch for VerifiableHeader'),
    ]


def slsp_obligations(prefix):
    return [
        KModelOb(prefix + '.1-shape', 'slsp', 'shape_q',
                 'check_if_response_is_matched: Ok((reorg,sampled,last_n)) implies the declarative shape spec (partition, order, reorg '
                 'section, no-sample continuity, every sample is the first block reaching a requested difficulty, every requested '
                 'difficulty covered, boundary)', ex_slsp,
                 'n<=4 headers, <=3 difficulties, last_n in {1,2}, all numbers / difficulties arbitrary 64-bit; unwind 6',
                 cuts=CUTS, timeout=1200, mem_gb=10, tiers=('quick',), min_covers=3, weight=5),
        KModelOb(prefix + '.1-shape-t', 'slsp', 'shape_t',
                 'as .1-shape at the larger bound', ex_slsp,
                 'n<=5 headers, <=4 difficulties, last_n in {1,2,3}; unwind 7',
                 cuts=CUTS, timeout=3300, mem_gb=24, tiers=('thorough',), min_covers=3, weight=9),
    ]


def mir_slsp(cfg):
    import mirpaths
    q = mirpaths.Query(cfg)
    effects = (cfg.find_calls(r'LightClientProtocol::commit_prove_state') +
               cfg.find_calls(r'Peers::update_prove_state', required=False) +
               cfg.find_calls(r'Storage::update_last_state', required=False) +
               cfg.find_calls(r'Storage::rollback_to_block', required=False))
    q.witness(effects, 'commit_prove_state reachable')
    # request outstanding and answered
    q.gate(effects, r'PeerState::get_prove_request', 'option', 'trusted-state mutator reached without an outstanding proof request (get_prove_request = Some)')
    q.gate(effects, r'ProveRequest::is_same_as', 'bool', 'trusted-state mutator reached although the response is not for the requested last header (is_same_as)')
    for name in ['check_if_response_is_matched', 'LightClientProtocol::check_chain_root_for_headers',
                 'LightClientProtocol::check_pow_for_headers', 'check_continuous_headers', 'verify_mmr_proof']:
        q.gate(effects, r'(^|[^\w:])' + name + r'\b|^' + name, 'result',
               'trusted-state mutator reachable without passing the Ok edge of %s' % name)
    # nothing after a failed check
    for name in ['check_if_response_is_matched', 'LightClientProtocol::check_chain_root_for_headers',
                 'LightClientProtocol::check_pow_for_headers', 'verify_mmr_proof', 'verify_tau', 'verify_total_difficulty']:
        for x in cfg.find_calls(r'(^|[^\w:])' + name + r'\b|^' + name, required=False):
            e = cfg.result_edges(x)['err']
            q.must_not_reach(e[1], effects, 'trusted-state mutator reachable after the Err edge of %s' % name)
    # the two unconditional continuity checks: only the last one may be skipped (it is the `.is_ok()` probe)
    cs = cfg.find_calls(r'^check_continuous_headers', required=False)
    for x in cs[:2]:
        e = cfg.result_edges(x)['err']
        q.must_not_reach(e[1], effects, 'trusted-state mutator reachable after a failed check_continuous_headers')
    return q


def mir_sls(cfg):
    import mirpaths
    q = mirpaths.Query(cfg)
    effects = cfg.find_calls(r'LightClientProtocol::update_prove_state_to_child')
    q.witness(effects, 'update_prove_state_to_child reachable')
    for name, kind in [('LightClientProtocol::check_verifiable_header', 'result'), ('check_last_state', 'result'),
                       ('ProveState::is_parent_of', 'bool')]:
        q.gate(effects, r'(^|[^\w:])' + name + r'\b|^' + name, kind, 'child fast path reachable without passing %s' % name)
    return q


def mir_process_last_state(cfg):
    import mirpaths
    q = mirpaths.Query(cfg)
    eff = cfg.find_calls(r'Peers::update_last_state')
    q.witness(eff, 'update_last_state reachable')
    q.gate(eff, r'check_verifiable_header$', 'result', 'a last state announced inside a reply replaces the peer\'s last state without check_verifiable_header having returned Ok (a header without valid PoW / chain-root commitment becomes the target of the next proof)',
           after_err='the last state is replaced after check_verifiable_header failed')
    return q


def obligations():
    obs = slsp_obligations('O1') + [
        KModelOb('O1.2-continuity', 'slsp', 'continuous_q',
                 'check_continuous_headers + real HeaderUtils::is_parent_of: Ok iff every adjacent pair is number+1, epoch successor '
                 '(or the parent is genesis) and hash-linked', ex_slsp, 'n<=4 arbitrary headers', cuts=CUTS, timeout=900, mem_gb=8,
                 tiers=('quick',), min_covers=2),
        KModelOb('O1.2-continuity-t', 'slsp', 'continuous_t', 'as O1.2 with n<=6', ex_slsp, 'n<=6', cuts=CUTS, timeout=3000,
                 mem_gb=16, tiers=('thorough',), min_covers=2),
        KModelOb('O1.3-chain-root', 'slsp', 'patched_valid',
                 'VerifiableHeaderPatch::patched_is_valid equals its specification (extension begins with H(parent chain root) above the '
                 'activation epoch, genesis needs the default root, extra hash = H(uncles, H(extension)))', ex_slsp,
                 'arbitrary header / extension / chain root; activation epoch < 2^24', cuts=CUTS, timeout=900, mem_gb=8, min_covers=2),
        KModelOb('O1.4-mmr', 'slsp', 'mmr_q',
                 'verify_mmr_proof: Ok implies patched_is_valid(last), every header digest verified, proof.verify called with the '
                 'last header own parent chain root, the right MMR size, all proof items and exactly the (position, digest) of every header, '
                 'and it returned Ok(true)', ex_slsp, 'n<=3 headers, <=2 proof items', cuts=CUTS, timeout=900, mem_gb=8,
                 tiers=('quick',), min_covers=2),
        KModelOb('O1.4-mmr-t', 'slsp', 'mmr_t', 'as O1.4 with n<=4', ex_slsp, 'n<=4', cuts=CUTS, timeout=3000, mem_gb=16,
                 tiers=('thorough',), min_covers=2),
        MirOb('O1.5-gates', 'SendLastStateProofProcess::execute: every path to commit_prove_state / update_prove_state / update_last_state / '
              'rollback_to_block passes get_prove_request=Some, is_same_as, and the Ok edges of check_if_response_is_matched, '
              'check_chain_root_for_headers, check_pow_for_headers, check_continuous_headers, verify_mmr_proof; no path continues from an '
              'Err edge (incl. verify_tau, verify_total_difficulty) to a mutator',
              r'send_last_state_proof\.rs:\d+:\d+: \d+:\d+>::execute\(', mir_slsp, src_rel=SLSP),
        KModelOb('O1.9-pow-and-continuity', 'lastn:powcont', 'pow_and_continuity', 'SendLastStateProofProcess::execute from "Check POW for all headers" to "Verify MMR proof" (real text, anchored on its comments): the PoW of EVERY header '
                 'of the response is checked; the reorg section (when present) and the last-N section are each checked for continuity over exactly their headers - also when sampled headers are present; a failing check is the answer',
                 lambda repo: common.status_code(repo) + common.peer_state_types(repo) + common.pow_continuity_slice(repo), '<=2 reorg, <=1 sampled, 1..2 last-N headers with arbitrary PoW verdicts; verify_tau / check_continuous_headers -> recording models with arbitrary verdicts',
                 cuts=CUTS, timeout=900, mem_gb=10, min_covers=2, weight=3, rustflags='--cfg pow_cont'),
        MirOb('O1.8-new-last-state-verified', 'LightClientProtocol::process_last_state (a NEW last state announced inside a proof / blocks-proof / transactions-proof reply): the peer\'s last state is '
              'replaced only after check_verifiable_header (PoW, chain-root commitment, overflow guard) returned Ok - the proof handler itself never checks the PoW of the last header',
              r'light_client/mod\.rs:\d+:\d+: \d+:\d+>::process_last_state\(', mir_process_last_state, src_rel=LCMOD),
        MirOb('O1.6-child-gates', 'SendLastStateProcess::execute: update_prove_state_to_child only after check_verifiable_header Ok, '
              'check_last_state Ok and ProveState::is_parent_of true',
              r'send_last_state\.rs:\d+:\d+: \d+:\d+>::execute\(', mir_sls, src_rel=SLS),
    ]
    import C11
    obs.append(KModelOb('O1.7-prove-state-frame', 'peerstate', 'step_any',
                        'PeerState: the prove_state component changes only in receive_last_state_proof (shared with C11 O11.1)',
                        C11.ex_peerstate, 'any variant, one arbitrary event', timeout=900, mem_gb=10, min_covers=3))
    return obs
