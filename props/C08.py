"""C08 - a crash at any storage write loses no script activity and leaves a usable store."""
from engines import KModelOb, MirOb
import common
from common import *
import C09

ASSUMPTIONS = [
    'DECLINED: "the store reopens and continued syncing converges to the same RPC answers" - a multi-run whole-program statement over the '
    'real RocksDB (FFI); what is decided is the write-boundary step of individual operations',
    'crash model: a symbolic counter k; the first k write OPERATIONS (point put / delete or one atomic write batch, per the RocksDB contract) take '
    'effect, all later ones are lost; the surviving store is checked against a recoverability invariant for every k at once',
    'recoverability invariant R2 (= invariant J of C09): a script number lags MIN_FILTERED only while matched-block records are pending; '
    'a pending record disappears only after all of its blocks are indexed and the numbers raised',
    'R1 (first-run initialisation): the genesis marker must not be durable before the keys every start-up reads unconditionally',
    'torn writes inside RocksDB, filter-batch and check-point finalization crash steps and the restart itself are outside the claim',
]


def mir_init_genesis(cfg):
    """R1: every path to the batch commit that makes GENESIS_BLOCK durable must already have written LAST_N_HEADERS (update_last_state),
    MAX_CHECK_POINT_INDEX, check point 0 and MIN_FILTERED - otherwise a crash right after the commit leaves a store that skips
    initialisation on every later start and aborts at the first `expect` on a missing key."""
    import mirpaths
    q = mirpaths.Query(cfg)
    commit = cfg.find_calls(r'Batch::commit$')
    q.witness(commit, 'genesis batch commit reachable')
    for callee, what in [(r'Storage::update_last_state$', 'LAST_STATE / LAST_N_HEADERS'), (r'Storage::update_max_check_point_index$', 'MAX_CHECK_POINT_INDEX'),
                         (r'Storage::update_check_points$', 'check point 0'), (r'Storage::update_min_filtered_block_number$', 'MIN_FILTERED_NUMBER')]:
        q.must_call(commit, callee, 'init_genesis_block: the genesis marker batch is committed BEFORE %s is written (a crash in between leaves a store that '
                    'is never re-initialised and aborts on a missing key)' % what)
    return q


def mir_recovery(cfg):
    """After a restart the in-memory matched-block set is re-loaded from the store.  The synchronizer removes the EARLIEST stored record when the
    downloaded set is complete (O8.2), so the record that is re-loaded must be the earliest one as well - otherwise the blocks of the earliest
    record are never downloaded and the client aborts on the mismatch or skips them."""
    import mirpaths
    q = mirpaths.Query(cfg)
    add = cfg.find_calls(r'Peers::add_matched_blocks$')
    q.witness(add, 'the recovery (add_matched_blocks) is reachable')
    ge = cfg.find_calls(r'Storage::get_earliest_matched_blocks$', required=False)
    edges = [cfg.option_edges(c)['some'] for c in ge]
    q.must_pass(add, edges, 'try_send_get_block_filters re-loads matched blocks that do not come from the EARLIEST stored record (the record the synchronizer removes '
                'on completion): after a restart with two pending records the earliest one is skipped')
    return q


def obligations():
    import C03
    o7 = C03.filter_block_quick('O8.7-index-one-batch')
    o7.desc = '[block indexing is ONE atomic batch incl. its header rows: a crash cannot leave cells / transactions without the header mapping that get_transaction and the cell provider resolve them through] ' + o7.desc
    return _own() + [o7] + (common.shared('C12', ['O12.1-commit'], 'O8', 'fork switch: rollback of the index precedes the new last state (a crash in between leaves the old tip with a rolled-back index, which re-syncs)') +
                     common.shared('C06', ['O6.1-filters', 'O6.1-filters-t'], 'O8', 'filter batch: the filtered height is persisted after the matched-block record / the script numbers of the same batch (a crash in between repeats the batch instead of losing it)'))


def _own():
    return [
        KModelOb('O8.1-set-scripts-crash', 'ufs', 'set_scripts_crash', 'update_filter_scripts (real text) with a crash after any number of its write operations: '
                 'the surviving store satisfies R2 (no registered script below MIN_FILTERED without pending matched blocks)', C09.ex_ufs,
                 'crash point k in 0..5, pre-state satisfying J, <=2 stored scripts, <=1 pending record, any command with 1..2 scripts starting above 0',
                 cuts=C09.CUTS, timeout=2400, mem_gb=16, min_covers=2, weight=8, rustflags='--cfg ufs_small'),
        KModelOb('O8.2-block-arrival-crash', 'syncarm', 'send_block_crash', 'SendBlock arm (real text) with a crash after any number of its write operations: a pending '
                 'matched-block record is gone from the store only if all its blocks are indexed and the script numbers raised', common.send_block_arm,
                 'crash point k in 0..5, <=2 matched hashes, arbitrary incoming committed block', timeout=1500, mem_gb=12, min_covers=1, weight=5),
        MirOb('O8.5-recovery-earliest', 'FilterProtocol::try_send_get_block_filters: the matched blocks re-loaded after a restart come from the Some edge of '
              'Storage::get_earliest_matched_blocks (the record block arrival removes, O8.2)', r'block_filter\.rs:\d+:\d+: \d+:\d+>::try_send_get_block_filters\(', mir_recovery, src_rel=BF),
        MirOb('O8.3-genesis-init-order', 'Storage::init_genesis_block: the batch holding the GENESIS_BLOCK marker is committed only after the keys that every '
              'start-up reads unconditionally have been written', r'storage\.rs:\d+:\d+: \d+:\d+>::init_genesis_block\(', mir_init_genesis, src_rel=STORAGE),
    ]
