"""C09 - set_scripts does what the README says and never makes a kept script lose history."""
from engines import KModelOb, MirOb
import common
from common import *
from extract import Source, Raw
import re

ASSUMPTIONS = [
    'bounded model checking of the real text of Storage::update_filter_scripts (+ helpers) over a byte-level, SORTED key/value store model '
    '(RocksDB contract: atomic batches, ordered iteration); scripts are 2-byte identifiers; <=2 stored scripts out of 3 identities, '
    '<=2 scripts in the command (duplicates and the empty list included), <=1 (thorough 2) pending matched-block records',
    'quick flavour: Key::Meta(name).into_vec() abstracted to a 1-byte tag per name; the names are extracted from storage.rs and checked '
    'to be pairwise prefix-free (O9.0), which justifies the abstraction',
    'pre-state invariant J (maintained by block-filter processing): a script number lags MIN_FILTERED only while matched-block records are pending',
    'model-only textual adaptation: `.concat()` -> `.mconcat()` (std concat allocates); recorded per run',
    'the end-to-end indexed result after sync converges and interleaving with a filter batch on another thread (C17) are outside the claim',
]
CUTS = ['RocksDB -> sorted byte-level store model', 'Key::Meta names -> 1-byte tags (quick)', 'filter_block(genesis) -> ghost counter', 'molecule Script -> 2-byte id']


def ex_ufs(repo):
    s = Source(repo, STORAGE)
    consts = s.consts(r'^(?:pub )?const [A-Z_]+: &str = "[^"]*";')
    out = consts + [Raw('pub type TxIndex = u32;\npub type CpIndex = u32;\npub type OutputIndex = u32;\npub type CellIndex = u32;\n'),
                    s.item(r'^pub struct ScriptStatus'), s.item(r'^pub enum SetScriptsCommand'), s.item(r'^impl Default for SetScriptsCommand'),
                    s.item(r'^pub enum ScriptType', attrs=True)]
    ms = []
    for name in ['update_filter_scripts', 'get_filter_scripts', 'is_filter_scripts_empty', 'get_min_filtered_block_number', 'update_min_filtered_block_number',
                 'clear_matched_blocks', 'update_block_number']:
        m = s.item(r'^    (?:pub )?fn ' + name + r'\b')
        m.sub(r'\.concat\(\)', '.mconcat()', required=False)
        ms.append(m)
    ms[0].prefix = 'impl Storage {\n'
    ms[-1].suffix = '\n}'
    return out + ms


def prefix_free(cfg_unused=None):
    pass


class MetaNamesOb:
    """O9.0: the Meta key names of storage.rs are pairwise prefix-free (decided by z3 on the extracted constants)."""
    engine = 'M'; tiers = ('quick', 'thorough'); mem_gb = 1; weight = 0; timeout = 60; ob_id = 'O9.0-meta-names'
    desc = 'the Meta key names are pairwise prefix-free, so the 1-byte tag abstraction of Key::Meta preserves equality and prefix tests'

    def run(self, ctx):
        import vlib, z3, time
        from vlib import Result
        r = Result(self.ob_id, 'z3', self.desc)
        t0 = time.time()
        try:
            s = Source(vlib.REPO, STORAGE)
            names = [re.search(r'"([^"]*)"', p.text).group(1) for p in s.consts(r'^(?:pub )?const [A-Z_]+: &str = "[^"]*";')]
        except Exception as e:
            r.reason = 'cannot extract the Meta names: %s' % e; return r
        sol = z3.Solver(); n = 0; bad = []
        for a in names:
            for b in names:
                if a is b: continue
                # exists i: a is a prefix of b  <=>  len(a) <= len(b) and all bytes equal: encode and ask z3
                sa = z3.StringVal(a); sb = z3.StringVal(b)
                sol.push(); sol.add(z3.PrefixOf(sa, sb)); n += 1
                if sol.check() != z3.unsat: bad.append((a, b))
                sol.pop()
        r.queries = n; r.secs = time.time() - t0; r.stats = {'z3_queries': n, 'unsat': n - len(bad), 'names': names}
        r.witness_ok = len(names) >= 5
        r.bounds = 'the %d constants of storage.rs' % len(names)
        if bad:
            r.status = 'INCONCLUSIVE'; r.reason = 'Meta names are not prefix-free (%s): the tag abstraction of unit ufs is not justified' % bad
        else:
            r.status = 'HOLDS'
        return r


def mir_set_scripts(cfg):
    import mirpaths
    q = mirpaths.Query(cfg)
    upd = cfg.find_calls(r'Storage::update_filter_scripts')
    q.witness(upd, 'update_filter_scripts reachable')
    # lock acquired before, guard dropped after
    q.must_call(upd, r'RwLock::<.*>::write$', 'update_filter_scripts reachable without taking the matched_blocks write lock')
    clr = cfg.find_calls(r'HashMap::<.*>::clear$', required=False)
    if not clr:
        q.failures.append('the in-memory matched blocks are never cleared in set_scripts')
        q.paths.append({'what': 'no call to HashMap::clear', 'blocks': [], 'bfs_confirmed': True})
    else:
        q.must_call(clr, r'Storage::update_filter_scripts', 'in-memory matched blocks cleared before the stored scripts are updated')
        # the write guard (result of write().expect()) is released only after both the store update and the in-memory clear
        w = cfg.find_calls(r'RwLock::<.*>::write$')[0]
        ex = [c for c in cfg.find_calls(r'Result::<.*RwLockWriteGuard.*>::expect$', required=False) if int(c.block[2:]) > int(w.block[2:])]
        if ex:
            g = ex[0].dest
            drops = [b for b, t in cfg.term.items() if t.startswith('drop(%s)' % g) and b not in cfg.cleanup]
            if drops:
                q.must_call(drops, r'HashMap::<.*>::clear$', 'matched_blocks write guard released before the in-memory clear')
                q.must_call(drops, r'Storage::update_filter_scripts', 'matched_blocks write guard released before the stored scripts are updated')
    return q


def obligations():
    return _own() + (common.shared('C06', ['O6.1-filters', 'O6.1-filters-t', 'O6.5-script-selection'], 'O9', 'get_scripts never reports a script filtered past an unprocessed block: script numbers only move when nothing is pending, and a batch is matched against every script whose range it touches'))


def _own():
    return [
        MetaNamesOb(),
        KModelOb('O9.1-set-scripts-all', 'ufs', 'set_scripts_all_q', 'Storage::update_filter_scripts (real text), command `all`: resulting script set = documented replace / upsert / '
                 'remove with the given numbers; pending matched-block records discarded; MIN_FILTERED <= recorded number of EVERY script still '
                 'registered; empty partial/delete changes nothing; genesis filtered iff a given script starts at 0', ex_ufs,
                 '2 script identities (thorough 3), <=2 stored with arbitrary numbers, arbitrary MIN_FILTERED, <=1 pending record, <=1 script in the command (thorough: <=2 incl. duplicates)',
                 cuts=CUTS, timeout=2400, mem_gb=12, tiers=('quick',), min_covers=1, weight=8, rustflags='--cfg ufs_small'),
        KModelOb('O9.1-set-scripts-partial', 'ufs', 'set_scripts_partial_q', 'Storage::update_filter_scripts (real text), command `partial`: resulting script set = documented replace / upsert / '
                 'remove with the given numbers; pending matched-block records discarded; MIN_FILTERED <= recorded number of EVERY script still '
                 'registered; empty partial/delete changes nothing; genesis filtered iff a given script starts at 0', ex_ufs,
                 '2 script identities (thorough 3), <=2 stored with arbitrary numbers, arbitrary MIN_FILTERED, <=1 pending record, <=1 script in the command (thorough: <=2 incl. duplicates)',
                 cuts=CUTS, timeout=2400, mem_gb=12, tiers=('quick',), min_covers=1, weight=8, rustflags='--cfg ufs_small'),
        KModelOb('O9.1-set-scripts-delete', 'ufs', 'set_scripts_delete_q', 'Storage::update_filter_scripts (real text), command `delete`: resulting script set = documented replace / upsert / '
                 'remove with the given numbers; pending matched-block records discarded; MIN_FILTERED <= recorded number of EVERY script still '
                 'registered; empty partial/delete changes nothing; genesis filtered iff a given script starts at 0', ex_ufs,
                 '2 script identities (thorough 3), <=2 stored with arbitrary numbers, arbitrary MIN_FILTERED, <=1 pending record, <=1 script in the command (thorough: <=2 incl. duplicates)',
                 cuts=CUTS, timeout=2400, mem_gb=12, tiers=('quick',), min_covers=1, weight=8, rustflags='--cfg ufs_small'),
        KModelOb('O9.1-set-scripts-t', 'ufs', 'set_scripts_t', 'as O9.1 for an arbitrary command with <=2 scripts (duplicates included), 3 script identities and <=2 pending records', ex_ufs, '<=2 pending records', cuts=CUTS,
                 timeout=3500, mem_gb=24, tiers=('thorough',), min_covers=1, weight=9),
        KModelOb('O9.2-block-number', 'ufs', 'raise_numbers', 'update_block_number(n) raises recorded numbers below n to exactly n and touches nothing else',
                 ex_ufs, '<=2 scripts, arbitrary numbers', cuts=CUTS, timeout=1200, mem_gb=10, min_covers=1, weight=3, rustflags='--cfg ufs_small'),
        MirOb('O9.3-lock', 'BlockFilterRpcImpl::set_scripts: update_filter_scripts and the in-memory clear happen after matched_blocks().write(), '
              'clear after the store update', r'service\.rs:\d+:\d+: \d+:\d+>::set_scripts\(', mir_set_scripts, src_rel=SERVICE),
    ]
