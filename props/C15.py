"""C15 - every proof request the client builds is well-formed and samples enough."""
from engines import KModelOb
import common
from common import *
from extract import Source

ASSUMPTIONS = [
    'bounded model checking of the real text of sampling.rs; U256 -> 32 bits, U512 -> 64 bits (the 10^9 ratio scale needs 30 bits); f64 arithmetic and casts bit-precise',
    'libm pow / log are havoc in the solver: replaced (textual adaptation .powf -> .mpowf, .log -> .mlog; .ceil() -> .mceil() = the exact ceil, recorded as a ghost) by ARBITRARY values within the '
    'mathematically documented range (0<base<1: pow in [0,1) for positive exponents; log positive for 0<x<1); rand::gen_range -> arbitrary '
    'value in the range',
    'DECLINED: "the number of samples is at least what the FlyClient bound requires" - it depends on the numeric values of ln / pow, for '
    'which no bit-precise model is available to the solver',
    'sample_blocks with at most last_n + 3 missing blocks (loop bound: <= 3 samples), last_n in 1..3',
    'O15.2: build_prove_request_content(_from_genesis) (real text) with sample_blocks replaced by its contract (decided by O15.1): start strictly below the last '
    'block and not above it in difficulty, no samples when at most last-N blocks are missing, re-basing only onto a remembered header',
]
CUTS = ['f64::powf / f64::log -> arbitrary value in the documented range', 'thread_rng().gen_range -> arbitrary value in range', 'log macros -> no-op']


def ex_sampling(repo):
    s = Source(repo, SAMPLING)
    out = [s.consts(r'^const C_FRACTION: f64 = [^;]*;')[0], s.consts(r'^const LAMBDA: u32 = [^;]*;')[0], s.consts(r'^const RATIO_SCALE_FACTOR: u32 = [^;]*;')[0],
           s.item(r'^pub\(crate\) struct FlyClientPDF'), s.item(r'^pub\(crate\) fn multiply'), s.item(r'^impl FlyClientPDF \{'),
           s.item(r'^pub\(crate\) fn sample_blocks'), s.item(r'^pub\(crate\) fn estimate_k'), s.item(r'^pub\(crate\) fn estimate_samples_count')]
    for p in out:
        p.sub(r'\.powf\(', '.mpowf(', required=False)
        p.sub(r'\.log\(', '.mlog(', required=False)
        p.sub(r'\.ceil\(\)', '.mceil()', required=False)   # ceil itself is exact (bit-precise); the model records its result as a ghost
    return out


def obligations():
    import C04
    o152 = [o for o in C04.obligations() if o.ob_id == 'O4.3-request-rebase'][0]
    o152.ob_id = 'O15.2-request-content'
    return [
        o152,
        KModelOb('O15.1-multiply', 'sampling', 'multiply_range', 'multiply(u, ratio) for every u and every ratio in [0,1): result in [1, max(u,1)]', ex_sampling, 'u < 2^16 (32-bit model of U256; wider operands do not finish), all f64 ratios in [0,1)', cuts=CUTS, timeout=900, mem_gb=8, min_covers=1),
        KModelOb('O15.3-samples-count', 'sampling', 'samples_count', 'estimate_samples_count: 0 when at most last-N blocks are missing, otherwise within '
                 '[1, blocks - last_n], for every k (also NaN / infinite) and lambda', ex_sampling, 'all u64 / f64 / u32 inputs', cuts=CUTS,
                 timeout=900, mem_gb=8, min_covers=1),
        KModelOb('O15.1-sample-blocks-t', 'sampling', 'sample_blocks_t', 'as O15.1-sample-blocks with up to 3 samples', ex_sampling, 'at most last_n+3 missing blocks',
                 cuts=CUTS, timeout=3300, mem_gb=16, min_covers=1, weight=5, tiers=('thorough',)),
        KModelOb('O15.1-sample-blocks', 'sampling', 'sample_blocks_q', 'sample_blocks (real text incl. FlyClientPDF): boundary in (start TD, last TD]; '
                 'sampled difficulties strictly increasing, unique, inside [start TD, boundary); count within [1, blocks - last_n]', ex_sampling,
                 'last_n in 1..3, last_n+1 missing blocks (one sample), arbitrary 32-bit start difficulty, difficulty range < 2^16', cuts=CUTS, timeout=1500, mem_gb=10,
                 min_covers=1, weight=3, tiers=('quick',)),
    ]
