"""C11 - per-peer sync state machine follows its diagram for every event order."""
from engines import KModelOb, MirOb
import common
from common import *

ASSUMPTIONS = [
    'bounded model checking (Kani/CBMC); U256 narrowed to 64 bits; hashes are 1-byte identifiers',
    'PeerState code is the real text of peers.rs compiled against the model prelude (kani_model/prelude)',
    'multi-peer interleavings beyond one peer and the network disconnect itself are outside the claim',
]


def ex_peerstate(repo):
    return common.status_code(repo) + common.peer_state_types(repo)


def ex_timeouts(repo):
    from extract import Source
    pe = Source(repo, PEERS); pm = Source(repo, PROTOMOD)
    return common.status_code(repo) + common.peer_state_types(repo) + pm.consts(r'^pub const MESSAGE_TIMEOUT: u64 = [^;]*;') + [
        pe.method(r'^impl Peers \{', 'get_peers_which_have_timeout', wrap='impl Peers')]


def obligations():
    import C16
    c16 = {o.ob_id: o for o in C16.obligations()}
    rel = []
    for k in ['O16.3-release-headers', 'O16.3-release-txs', 'O16.4-release-rejected-headers', 'O16.4-release-rejected-txs']:
        o = c16[k]; o.ob_id = 'O11.4' + k[5:]; o.desc = '[the in-flight fetches of a peer stay eligible for other peers] ' + o.desc; rel.append(o)
    return _own() + rel


def _own():
    import C12
    obs = [
        KModelOb('O11.5-same-last-state', 'lcproto', 'same_last_state_keeps_its_age', 'SendLastStateProcess::execute (real text, over the real PeerState text): a SendLastState that repeats the peer\'s current last state '
                 'changes nothing - the age of the unchanged last state is not refreshed and an outstanding GetLastState request is not completed - so "an unchanged last state leads to disconnection after the message timeout"',
                 C12.ex_lcproto, 'peer in OnlyHasLastState / Ready / RequestNewLastState on an arbitrary header, arbitrary clocks', cuts=C12.CUTS, timeout=900, mem_gb=10, min_covers=1, weight=3),
        KModelOb('O11.3-timeouts', 'ups:timeout', 'timeouts', 'Peers::get_peers_which_have_timeout (real text, over the real PeerState text): a peer is reported iff a request to it (state machine, blocks proof, blocks, '
                 'transactions proof) is unanswered for longer than MESSAGE_TIMEOUT or its last state was not refreshed within MESSAGE_TIMEOUT - each such peer exactly once, nobody else',
                 ex_timeouts, '2 peers in arbitrary states with arbitrary in-flight requests; clock readings below 2^62 ms, arbitrary now', cuts=['DashMap -> array', 'in-flight request structs -> (when_sent)'],
                 timeout=900, mem_gb=16, min_covers=1, weight=3, rustflags='--cfg ups_timeout'),
        KModelOb('O11.1-step', 'peerstate', 'step_any',
                 'PeerState inductive step: one arbitrary event from an ARBITRARY state (any of the 7 variants, arbitrary contents) '
                 'stays inside the documented transition table; prove state / last state / request / when_sent change only by '
                 'their own event and to exactly the received value; rejected events return IncorrectLastState',
                 ex_peerstate, 'start = any variant with arbitrary contents (covers sequences of every length by induction); '
                 '4 event kinds; last-N vectors <= 2',
                 cuts=['unix_time_as_millis -> arbitrary u64', 'fmt/Display -> no-op'], timeout=900, mem_gb=10, min_covers=3),
        KModelOb('O11.1-walk4', 'peerstate', 'walk4',
                 'every walk of 4 arbitrary events from Initialized obeys the same table (reachability of the diagram)',
                 ex_peerstate, '4 events x 4 kinds from Initialized; unwind 6',
                 cuts=['unix_time_as_millis -> arbitrary u64', 'fmt/Display -> no-op'], timeout=900, mem_gb=10,
                 tiers=('thorough',), min_covers=2),
        KModelOb('O11.1-walk6', 'peerstate', 'walk6',
                 'as O11.1-walk4 with 6 events', ex_peerstate, '6 events; unwind 8',
                 cuts=['unix_time_as_millis -> arbitrary u64', 'fmt/Display -> no-op'], timeout=3000, mem_gb=20,
                 tiers=('thorough',), min_covers=2),
        KModelOb('O11.1-predicates', 'peerstate', 'predicates',
                 'require_new_last_state / require_new_last_state_proof / when_sent_request / accessors agree with the variant table',
                 ex_peerstate, 'any variant, any timestamps', timeout=600, mem_gb=8, min_covers=2),
    ]
    return obs
