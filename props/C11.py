"""C11 - per-peer sync state machine follows its diagram for every event order."""
from engines import KModelOb, MirOb
import common
from common import *

ASSUMPTIONS = [
    'bounded model checking (Kani/CBMC); U256 narrowed to 64 bits; hashes are 1-byte identifiers',
    'PeerState code is the real text of peers.rs compiled against the model prelude (kani_model/prelude)',
    'multi-peer interleavings beyond one peer and the network disconnect itself are outside the claim',
]


def ex_peerstate(repo):
    return common.status_code(repo) + common.peer_state_types(repo)


def obligations():
    obs = [
        KModelOb('O11.1-step', 'peerstate', 'step_any',
                 'PeerState inductive step: one arbitrary event from an ARBITRARY state (any of the 7 variants, arbitrary contents) '
                 'stays inside the documented transition table; prove state / last state / request / when_sent change only by '
                 'their own event and to exactly the received value; rejected events return IncorrectLastState',
                 ex_peerstate, 'start = any variant with arbitrary contents (covers sequences of every length by induction); '
                 '4 event kinds; last-N vectors <= 2',
                 cuts=['unix_time_as_millis -> arbitrary u64', 'fmt/Display -> no-op'], timeout=900, mem_gb=10, min_covers=3),
        KModelOb('O11.1-walk4', 'peerstate', 'walk4',
                 'every walk of 4 arbitrary events from Initialized obeys the same table (reachability of the diagram)',
                 ex_peerstate, '4 events x 4 kinds from Initialized; unwind 6',
                 cuts=['unix_time_as_millis -> arbitrary u64', 'fmt/Display -> no-op'], timeout=900, mem_gb=10,
                 tiers=('thorough',), min_covers=2),
        KModelOb('O11.1-walk6', 'peerstate', 'walk6',
                 'as O11.1-walk4 with 6 events', ex_peerstate, '6 events; unwind 8',
                 cuts=['unix_time_as_millis -> arbitrary u64', 'fmt/Display -> no-op'], timeout=3000, mem_gb=20,
                 tiers=('thorough',), min_covers=2),
        KModelOb('O11.1-predicates', 'peerstate', 'predicates',
                 'require_new_last_state / require_new_last_state_proof / when_sent_request / accessors agree with the variant table',
                 ex_peerstate, 'any variant, any timestamps', timeout=600, mem_gb=8, min_covers=2),
    ]
    return obs
