"""C07 - check points are finalized only by quorum agreement and never change afterwards."""
from engines import KModelOb
import common
from common import *
from extract import Source

ASSUMPTIONS = [
    'bounded model checking of the real text of finalize_check_points over array-backed Vec/HashMap models; each timer tick is ONE '
    'inductive step from an arbitrary state (arbitrary final index / value, arbitrary per-peer vectors)',
    'the unspecified HashMap iteration order is covered by inserting the peers in a symbolic rotation / swap',
    '<=3 (thorough 4) proven peers, vectors <=3 (4) entries over 3 distinct hash values, max_outbound <=4 (6)',
    'message / tick orders across time are outside the claim (only the single step)',
]
CUTS = ['Storage / Peers / ban_peer -> models with a ghost record', 'log/format -> no-op']


def ex_fcp(repo):
    m = Source(repo, LCMOD)
    p = Source(repo, PEERS)
    f = m.item(r'^    fn finalize_check_points'); f.prefix = 'impl LightClientProtocol {\n'; f.suffix = '\n}'
    r = p.item(r'^    pub\(crate\) fn required_peers_count'); r.prefix = 'impl Peers {\n'; r.suffix = '\n}'
    return common.status_code(repo) + [f, r, p.item(r'^pub\(crate\) struct CheckPoints', attrs=True), p.item(r'^impl CheckPoints \{')]


def obligations():
    return [
        KModelOb('O7.1-quorum', 'fcp', 'quorum_q2', 'finalize_check_points (real text): a write happens only if ONE set of >= ceil(max_outbound/2) '
                 'proven peers agrees on the old final value and on every newly final value; written range starts at last+1; the final '
                 'index strictly increases and is written after the values; a peer contradicting the final value is banned, a consistent '
                 'one is not; a quorum agreeing on the next check point is not blocked by fewer deviating / silent peers than the quorum', ex_fcp,
                 '<=3 peers, vectors <=3, max_outbound in 1..4 (quorum 1..2), 2 distinct values; unwind 7',
                 cuts=CUTS, timeout=1500, mem_gb=12, tiers=('quick',), min_covers=2, weight=6),
        KModelOb('O7.1-quorum-3v', 'fcp', 'quorum_q', 'as O7.1 with 3 distinct check-point values', ex_fcp, '<=3 peers, vectors <=3, max_outbound in 1..4, 3 distinct values',
                 cuts=CUTS, timeout=3000, mem_gb=12, tiers=('thorough',), min_covers=2, weight=6),
        KModelOb('O7.1-quorum-t', 'fcp', 'quorum_t', 'as O7.1 at the larger bound', ex_fcp, '<=4 peers, vectors <=4, max_outbound 1..6 (quorum 1..3)',
                 cuts=CUTS, timeout=3300, mem_gb=24, tiers=('thorough',), min_covers=2, weight=9),
        KModelOb('O7.2-required', 'fcp', 'required_count', 'required_peers_count = ceil(max_outbound/2) >= 1 for every u32 >= 1', ex_fcp,
                 'all u32 >= 1 (0 is the documented panic)', cuts=CUTS, timeout=300, mem_gb=4, min_covers=1),
        KModelOb('O7.3-add-check-points', 'fcp', 'add_cps_q', 'CheckPoints::add_check_points (real text): Ok implies aligned start = next expected, '
                 'first = previous last, >= 2 entries, existing entries untouched, appended values are the message values in order and not '
                 'beyond the proven number; Err leaves the vector unchanged', ex_fcp, '<=3 message entries, 1..2 stored, all u64 numbers',
                 cuts=CUTS, timeout=900, mem_gb=8, min_covers=2),
    ]
