"""C10 - no message from a peer can terminate the client."""
from engines import KModelOb, KRealOb, MirOb
import common
from common import *
import C01, C02, C06, C07, C12, C14

ASSUMPTIONS = [
    'panic-freedom (arithmetic overflow, index / slice range, unwrap / expect, explicit panic!, the panicking numext U256 operators) of the '
    'peer-driven kernels: every K-model / K-real harness of this framework fails on ANY reachable panic in the text it executes, so the '
    'harnesses of C01 / C02 / C06 / C07 / C12 / C14 are re-used here with their own bounds',
    'numbers that are NOT peer-controlled are bounded by their invariants (numbers of PROVEN headers < 2^63, check-point numbers < 2^40, '
    'epoch-switch count < 2^24); block difficulties below 2^128 in the quick no-panic harness of verify_total_difficulty (all 256 bits in thorough)',
    'molecule from_slice verification, tentacle, RocksDB and CKB-VM are outside the claim; so are handlers not listed below '
    '(BlockFilterHashesProcess / BlockFilterCheckPointsProcess bodies beyond the kernels they call)',
    'engine M: the overflow guard dominates every use of VerifiableHeader::total_difficulty() in the handlers; the explicit panic! sites of the '
    'handlers are exactly the documented long-fork abort',
]


def mir_guard_slsp(cfg):
    import mirpaths
    q = mirpaths.Query(cfg)
    uses = cfg.find_calls(r'ProveRequest::is_same_as$') + cfg.find_calls(r'^check_if_response_is_matched$')
    q.witness(uses, 'total difficulty uses reachable')
    g = cfg.find_calls(r'is_total_difficulty_overflowed$', required=False)
    if not g:
        q.failures.append('the last header is used (is_same_as -> total_difficulty()) without the total-difficulty overflow guard')
        q.paths.append({'what': 'no call to is_total_difficulty_overflowed', 'blocks': [], 'bfs_confirmed': True}); return q
    q.must_pass(cfg.find_calls(r'ProveRequest::is_same_as$'), [cfg.bool_edges(x)['false'] for x in g],
                'ProveRequest::is_same_as (which adds the peer-supplied total difficulty) reachable without passing the overflow guard of the last header')
    anyc = [c for c in cfg.find_calls(r'Iterator>::any::<', required=False) if 'send_last_state_proof.rs' in c.callee]
    if not anyc:
        q.failures.append('check_if_response_is_matched is called on headers that were not screened by the total-difficulty overflow guard')
        q.paths.append({'what': 'no `.any(is_total_difficulty_overflowed)` over the headers', 'blocks': [], 'bfs_confirmed': True}); return q
    q.must_pass(cfg.find_calls(r'^check_if_response_is_matched$'), [cfg.bool_edges(x)['false'] for x in anyc],
                'check_if_response_is_matched (which adds peer-supplied total difficulties) reachable without passing the overflow guard over all headers')
    # explicit aborts: only behind if_long_fork_detected()
    pan = cfg.find_calls(r'(panicking::panic_fmt|panicking::panic|begin_panic|panic_display|unreachable_display)', required=False)
    lf = cfg.find_calls(r'ProveRequest::if_long_fork_detected$', required=False)
    if pan:
        if not lf:
            q.failures.append('an explicit panic! in the proof handler is not behind the documented long-fork condition')
            q.paths.append({'what': 'panic without if_long_fork_detected', 'blocks': [(c.block, cfg.term[c.block][:120]) for c in pan], 'bfs_confirmed': True})
        else:
            q.must_pass(pan, [cfg.bool_edges(x)['true'] for x in lf], 'an explicit panic! in the proof handler is reachable without the documented long-fork condition (if_long_fork_detected)')
    return q


def mir_guard_cvh(cfg):
    import mirpaths, re
    q = mirpaths.Query(cfg)
    oks = [b for b, t in cfg.blocks.items() if re.search(r'_0 = (std::result::)?Result::<\(\), .*Status>::Ok\(', t) and b not in cfg.cleanup]
    if not oks:
        raise mirpaths.MirError('Ok(()) return of check_verifiable_header not found')
    q.witness(oks, 'Ok return reachable')
    g = cfg.find_calls(r'is_total_difficulty_overflowed$', required=False)
    if not g:
        q.failures.append('check_verifiable_header returns Ok without the total-difficulty overflow guard')
        q.paths.append({'what': 'no call to is_total_difficulty_overflowed', 'blocks': [], 'bfs_confirmed': True}); return q
    q.must_pass(oks, [cfg.bool_edges(x)['false'] for x in g], 'check_verifiable_header returns Ok for a header whose total difficulty overflows (guard bypassed)')
    return q


def obligations():
    obs = []
    pick = {
        C01: ['O1.1-shape', 'O1.1-shape-t', 'O1.2-continuity', 'O1.4-mmr'],
        C02: ['O2.6-body-semantic', 'O2.5-add-block', 'O2.3-blocks-proof-semantic'],
        C06: ['O6.1-filters', 'O6.1-filters-t', 'O6.2-latest-hashes', 'O6.2-latest-hashes-t', 'O6.5-script-selection'],
        C07: ['O7.1-quorum', 'O7.1-quorum-3v', 'O7.1-quorum-t', 'O7.3-add-check-points', 'O7.2-required'],
        C12: ['O12.4-child-path', 'O12.1-commit', 'O12.5-remembered-headers'],
        C14: ['O14.3-vtd-no-panic-q', 'O14.3-vtd-no-panic', 'O14.3-vtau-no-panic', 'O14.3-no-panic-wide', 'O14.2-split'],
    }
    for mod, ids in pick.items():
        for o in mod.obligations():
            if o.ob_id in ids:
                o.ob_id = 'O10.' + o.ob_id[1:]
                o.desc = '[no reachable panic in] ' + o.desc
                obs.append(o)
    obs += [
        KModelOb('O10.td-guard', 'slsp', 'td_guard', 'VerifiableHeaderPatch::is_total_difficulty_overflowed (real text) is exact: false implies that '
                 'VerifiableHeader::total_difficulty() (numext panicking +) does not abort', C01.ex_slsp, 'arbitrary header; 64-bit model of U256',
                 cuts=C01.CUTS, timeout=600, mem_gb=8, min_covers=2),
        MirOb('O10.guard-proof-handler', 'SendLastStateProofProcess::execute: is_same_as and check_if_response_is_matched are reached only past the overflow guard '
              'of the last header / of all headers; the only explicit panic! is behind if_long_fork_detected()',
              r'send_last_state_proof\.rs:\d+:\d+: \d+:\d+>::execute\(', mir_guard_slsp, src_rel=SLSP),
        MirOb('O10.guard-check-header', 'LightClientProtocol::check_verifiable_header returns Ok only past the overflow guard (SendLastState and every '
              'process_last_state go through it)', r'light_client/mod\.rs:\d+:\d+: \d+:\d+>::check_verifiable_header\(', mir_guard_cvh, src_rel=LCMOD),
    ]
    return obs
