"""C06 - block filters are acted on only if authentic and attributed to the right block."""
from engines import KModelOb, MirOb
import common
from common import *
from extract import Source

ASSUMPTIONS = [
    'bounded model checking of the real text of BlockFiltersProcess::execute over models of Storage / Peers / FilterProtocol; ground '
    'truth = arbitrary array of true filter hashes for blocks 0..16; model check-point interval 4 (real 2000); <=3 (4) filters per batch',
    'calc_filter_hash and Golomb-coded-set matching are uninterpreted (memoised arbitrary function / arbitrary subset)',
    'that the agreed hashes themselves come from a quorum is C07 / get_latest_block_filter_hashes (not re-decided here)',
    'attribution of the DOWNLOADED block to the filter height: O6.3 (engine M, a necessary condition) fails on HEAD and is recorded as known finding KF-4 (replayed end to end)',
]
CUTS = ['Storage / Peers / FilterProtocol / network -> models with ghost record', 'calc_filter_hash -> uninterpreted', 'GCS matching -> arbitrary subset',
        'rand -> arbitrary choice']


def ex_bfilters(repo):
    s = Source(repo, BFP)
    e = s.item(r'^    pub fn execute\(self\) -> Status'); e.prefix = "impl<'a> BlockFiltersProcess<'a> {\n"; e.suffix = '\n}'
    return common.status_code(repo) + [e]


def ex_lbfh(repo):
    p = Source(repo, PEERS)
    return common.status_code(repo) + [p.item(r'^pub\(crate\) struct LatestBlockFilterHashes', attrs=True), p.item(r'^impl LatestBlockFilterHashes \{')]


def ex_cfd(repo):
    b = Source(repo, BF)
    st = Source(repo, STORAGE)
    c = b.item(r'^    pub fn check_filters_data'); c.prefix = 'impl FilterProtocol {\n'; c.suffix = '\n}'
    g = st.item(r'^    pub fn get_scripts_hash'); g.prefix = 'impl Storage {\n'; g.suffix = '\n}'
    return st.consts(r'^const FILTER_SCRIPTS_KEY: &str = "[^"]*";') + [c, g]


def mir_attribution(cfg):
    """O6.3: a block announced next to a matching filter is proved (MMR: membership in the chain, not height) and then indexed for the
    filter's height.  Something must tie the proved header's NUMBER to the range of the pending record before it is marked proved: the
    handler has to consult the record (get_earliest_matched_blocks / get_matched_blocks) on every path to mark_matched_blocks_proved."""
    import mirpaths
    q = mirpaths.Query(cfg)
    eff = cfg.find_calls(r'Peers::mark_matched_blocks_proved')
    q.witness(eff, 'mark_matched_blocks_proved reachable')
    q.must_call(eff, r'Storage::get_(earliest_|latest_)?matched_blocks', 'a matched block is marked proved (and then downloaded and indexed for the filter height) without the proved '
                'header number ever being compared with the range of the pending matched-block record: a substituted block hash is accepted')
    return q


def ex_bfhashes(repo):
    s = Source(repo, BFHP)
    e = s.item(r'^    pub fn execute\(self\) -> Status'); e.prefix = "impl<'a> BlockFilterHashesProcess<'a> {\n"; e.suffix = '\n}'
    return common.status_code(repo) + [e]


def obligations():
    return _own() + (common.shared('C02', ['O2.5-add-block'], 'O6', 'a downloaded body is accepted only for a matched hash that was proved') +
                     common.shared('C02', ['O2.3-blocks-proof-semantic'], 'O6', 'a matched block is marked proved (and then downloaded and indexed) only if its header was received and MMR-verified - never a hash reported missing'))


def _own():
    return [
        KModelOb('O6.5-script-selection', 'cfd', 'matching_scripts', 'FilterProtocol::check_filters_data + Storage::get_scripts_hash (real text): within the accepted prefix every block whose '
                 'filter matches a registered script with a recorded number below that block is reported (nothing is skipped), nothing is reported for filters matching '
                 'no registered script, order and limit respected', ex_cfd, '<=3 filters, 3 script identities with arbitrary recorded numbers; GCS matching abstracted to a bit set',
                 cuts=['Golomb-coded-set matching -> bit set over script identities', 'RocksDB -> ordered row list (script rows + one foreign row)'], timeout=1500, mem_gb=16, min_covers=1, weight=3),
        MirOb('O6.3-attribution', 'SendBlocksProofProcess::execute_internally: a matched block is marked proved only after the pending record range has been consulted '
              '(necessary for tying the proved header number to the height of the filter that matched)', r'send_blocks_proof\.rs:\d+:\d+: \d+:\d+>::execute_internally\(',
              mir_attribution, src_rel=SBP),
        KModelOb('O6.4-cached-hashes', 'bfhashes', 'hashes_q', 'BlockFilterHashesProcess::execute (real text): the per-interval cache of filter hashes (supplied by ONE peer) is extended '
                 'only by batches chained from the finalized check point / the cached hash of the previous block, never rewritten, and a COMPLETE interval '
                 'ends with the finalized next check point - the only thing that pins a single peer hash chain to the quorum; latest hashes only above '
                 'the finalized check point; no index / arithmetic panic', ex_bfhashes,
                 '<=4 hashes per message (= one model interval), interval 4, final index <=2, arbitrary start / parent / hash bytes; unwind 8',
                 cuts=CUTS + ['update_latest_block_filter_hashes -> stub (its text is unit lbfh)'], timeout=1500, mem_gb=12, tiers=('quick',), min_covers=2, weight=4),
        KModelOb('O6.4-cached-hashes-t', 'bfhashes', 'hashes_t', 'as O6.4 with <=5 hashes per message (one more than an interval)', ex_bfhashes, '<=5 hashes',
                 cuts=CUTS, timeout=3000, mem_gb=20, tiers=('thorough',), min_covers=2, weight=5),
        KModelOb('O6.1-filters', 'bfilters', 'filters_q', 'BlockFiltersProcess::execute (real text): the filtered height advances / a matched-block record '
                 'is written only for a proven peer, start = old+1, equal counts; accepted prefix = min(filters, agreed hashes); every accepted '
                 'filter hashes, chained from the true parent, to the agreed hash of its height; recorded hashes are the message hashes at the '
                 'matching indices with proved = (hash == proven tip); writes under the matched-blocks lock', ex_bfilters,
                 '<=3 filters / hashes with arbitrary bytes, arbitrary start, final index <=2, cache / latest <=4, interval 4; unwind 6',
                 cuts=CUTS, timeout=1200, mem_gb=10, tiers=('quick',), min_covers=3, weight=4),
        KModelOb('O6.1-filters-t', 'bfilters', 'filters_t', 'as O6.1 with <=4 filters', ex_bfilters, '<=4 filters', cuts=CUTS, timeout=3000,
                 mem_gb=20, tiers=('thorough',), min_covers=3, weight=6),
        KModelOb('O6.2-latest-hashes', 'lbfh', 'update_q', 'LatestBlockFilterHashes::update_latest_block_filter_hashes (real text): Ok implies same check '
                 'point, overlap-or-continuation, the finalized check point matched at the right place, overlapping positions agree, only the '
                 'non-overlapping tail (cut at the proven number) appended; Err leaves the hashes unchanged; no arithmetic / index panic for any u64',
                 ex_lbfh, '<=3 stored and <=3 message hashes, all u64 numbers; unwind 8', cuts=['log/format -> no-op'], timeout=1200, mem_gb=10,
                 tiers=('quick',), min_covers=2, weight=3),
        KModelOb('O6.2-latest-hashes-t', 'lbfh', 'update_t', 'as O6.2 with <=4', ex_lbfh, '<=4 stored / message hashes', cuts=['log/format -> no-op'],
                 timeout=3000, mem_gb=20, tiers=('thorough',), min_covers=2, weight=5),
    ]
