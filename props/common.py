"""Extraction recipes shared by several properties (what is pulled verbatim out of /repo)."""
from extract import Source, Raw

PEERS = 'src/protocols/light_client/peers.rs'
LCMOD = 'src/protocols/light_client/mod.rs'
SLSP = 'src/protocols/light_client/components/send_last_state_proof.rs'
SLS = 'src/protocols/light_client/components/send_last_state.rs'
SBP = 'src/protocols/light_client/components/send_blocks_proof.rs'
STP = 'src/protocols/light_client/components/send_transactions_proof.rs'
LCPRELUDE = 'src/protocols/light_client/prelude.rs'
SAMPLING = 'src/protocols/light_client/sampling.rs'
STATUS = 'src/protocols/status.rs'
STORAGE = 'src/storage.rs'
SERVICE = 'src/service.rs'
SYNC = 'src/protocols/synchronizer.rs'
RELAYER = 'src/protocols/relayer.rs'
PROTOMOD = 'src/protocols/mod.rs'
BFP = 'src/protocols/filter/components/block_filters_process.rs'
BFHP = 'src/protocols/filter/components/block_filter_hashes_process.rs'
BFCP = 'src/protocols/filter/components/block_filter_check_points_process.rs'
BF = 'src/protocols/filter/block_filter.rs'


def status_code(repo):
    s = Source(repo, STATUS)
    return [s.item(r'^pub enum StatusCode', attrs=True), s.item(r'^macro_rules! return_if_failed')]


def peer_state_types(repo):
    """LastState, PeerState, ProveRequest, ProveState and all their inherent impls."""
    s = Source(repo, PEERS)
    out = []
    for r in [r'^pub\(crate\) struct LastState', r'^pub\(crate\) enum PeerState', r'^pub\(crate\) struct ProveRequest',
              r'^pub\(crate\) struct ProveState']:
        out.append(s.item(r, attrs=True))
    for r in [r'^impl AsRef<VerifiableHeader> for LastState', r'^impl LastState \{', r'^impl ProveRequest \{',
              r'^impl ProveState \{', r'^impl Default for PeerState', r'^impl PeerState \{',
              r'^fn if_verifiable_headers_are_same']:
        out.append(s.item(r))
    return out


def send_block_arm(repo):
    """The SendBlock arm of SyncProtocol::received, wrapped as a method (the arm text itself is verbatim)."""
    import re
    from extract import Source, Piece, match_brace, ExtractError
    src = Source(repo, SYNC)
    m = re.search(r'packed::SyncMessageUnionReader::SendBlock\(reader\) => \{', src.src)
    if not m:
        raise ExtractError('SendBlock arm not found in %s' % SYNC)
    j = src.src.index('{', m.end() - 1)
    e = match_brace(src.src, j)
    body = src.src[j:e + 1]
    p = Piece(src, body, src.src.count('\n', 0, j) + 1, 'SyncProtocol::received / SendBlock arm')
    p.prefix = "impl SyncProtocol {\n    pub fn send_block_arm(&mut self, nc: Arc<Nc>, peer: PeerIndex, reader: packed::SendBlockReader<'_>) "
    p.suffix = '\n}'
    pe = Source(repo, PEERS)
    ms = [pe.method(r'^impl Peers \{', n) for n in ['add_block', 'add_matched_blocks', 'all_matched_blocks_downloaded', 'clear_matched_blocks']]
    ms[0].prefix = 'impl Peers {\n'; ms[-1].suffix = '\n}'
    return [p, pe.item(r'^pub\(crate\) struct BlocksRequest', attrs=True), pe.item(r'^impl BlocksRequest \{'),
            pe.method(r'^impl Peer \{', 'add_block', wrap='impl Peer')] + ms


def last_n_selection(repo):
    """The block of SendLastStateProofProcess::execute that selects the remembered reorg / last-N headers, wrapped as a method (the text itself is verbatim)."""
    import re
    from extract import Source, Piece, match_brace, ExtractError
    src = Source(repo, SLSP)
    a = re.search(r'^[ \t]*let reorg_last_headers = headers\[\.\.reorg_count\]', src.src, re.M)
    m = re.search(r'let last_headers = match last_n_count\.cmp\(&last_n_blocks\) \{', src.src)
    if not a or not m or m.start() < a.start():
        raise ExtractError('last-N selection block not found in %s' % SLSP)
    j = src.src.index('{', m.end() - 1)
    e = match_brace(src.src, j)
    if src.src[e + 1] != ';':
        raise ExtractError('last-N selection: unexpected end of the match statement')
    body = src.src[a.start():e + 2]
    p = Piece(src, body, src.src.count('\n', 0, a.start()) + 1, 'SendLastStateProofProcess::execute / selection of the remembered headers')
    p.prefix = ('impl SendLastStateProofProcess {\n    pub fn select(&self, headers: &[HeaderView], reorg_count: usize, sampled_count: usize, last_n_count: usize, '
                'last_n_blocks: usize, peer_state: &PeerState, original_request: &ProveRequest) -> Status {\n')
    p.suffix = '\n        unsafe { OUT = Some((reorg_last_headers, last_headers)); }\n        Status::ok()\n    }\n}'
    return [p, src.item(r'^pub\(crate\) fn check_continuous_headers')]


def td_gate(repo):
    """The `// Check total difficulty.` statement of SendLastStateProofProcess::execute (the `if` that follows the comment, verbatim), wrapped as a method."""
    import re
    from extract import Source, Piece, match_brace, ExtractError
    src = Source(repo, SLSP)
    c = re.search(r'^[ \t]*// Check total difficulty\.\n(?:[ \t]*//[^\n]*\n)*', src.src, re.M)
    if not c:
        raise ExtractError('the "// Check total difficulty." statement was not found in %s' % SLSP)
    m = re.compile(r'[ \t]*if [^\n{]*\{').match(src.src, c.end())
    if not m:
        raise ExtractError('the statement after "// Check total difficulty." is not an `if`')
    j = src.src.index('{', m.start())
    e = match_brace(src.src, j)
    body = src.src[m.start():e + 1]
    p = Piece(src, body, src.src.count('\n', 0, m.start()) + 1, 'SendLastStateProofProcess::execute / total difficulty check against the previously proved state')
    p.prefix = ('impl SendLastStateProofProcess {\n    pub fn td_gate(&self, headers: &[HeaderView], reorg_count: usize, sampled_count: usize, last_n_count: usize, '
                'peer_state: &PeerState, last_header: &VerifiableHeader, original_request: &ProveRequest) -> Status {\n')
    p.suffix = '\n        Status::ok()\n    }\n}'
    return [p]


def pow_continuity_slice(repo):
    """SendLastStateProofProcess::execute from `// Check POW for all headers.` up to `// Verify MMR proof` (PoW of ALL headers, tau check, continuity of the reorg section and of
    the last-N section), verbatim, wrapped as a method."""
    import re
    from extract import Source, Piece, ExtractError
    src = Source(repo, SLSP)
    # start: the comment block that introduces the PoW check ("// Check POW ...", whatever follows on that line and on further comment lines)
    a = re.search(r'^[ \t]*// Check POW[^\n]*\n(?:[ \t]*//[^\n]*\n)*', src.src, re.M)
    b = re.search(r'^[ \t]*// Verify MMR proof\n', src.src, re.M)
    if not a or not b or b.start() < a.end():
        raise ExtractError('the PoW / continuity statements of SendLastStateProofProcess::execute were not found in %s (anchored on their comments)' % SLSP)
    body = src.src[a.end():b.start()]
    p = Piece(src, body, src.src.count('\n', 0, a.end()) + 1, 'SendLastStateProofProcess::execute / PoW of all headers, tau, continuity of the reorg and last-N sections')
    p.prefix = ('impl SendLastStateProofProcess {\n    pub fn pow_cont(&self, headers: Vec<HeaderView>, reorg_count: usize, sampled_count: usize, last_n_count: usize, '
                'original_request: &ProveRequest) -> Status {\n')
    p.suffix = '\n        unsafe { TAU_FAILED = Some(failed_to_verify_tau); }\n        Status::ok()\n    }\n}'
    return [p]


def shared(mod_name, ids, prefix, why):
    """Obligations of ANOTHER property module that also decide a clause of this property (same harness, same bounds): they are re-run under
    this property's id with the obligation id prefixed, so that a change which breaks this property through that code is reported by THIS check."""
    import importlib
    mod = importlib.import_module(mod_name)
    out = []
    for o in mod.obligations():
        if o.ob_id in ids:
            o.ob_id = prefix + '.' + o.ob_id[1:]
            o.desc = '[%s] %s' % (why, o.desc)
            out.append(o)
    missing = set(ids) - set(x.ob_id[len(prefix) + 1:] and ('O' + x.ob_id[len(prefix) + 1:]) for x in out)
    if missing:
        raise RuntimeError('shared(): obligations %s not found in %s' % (sorted(missing), mod_name))
    return out
