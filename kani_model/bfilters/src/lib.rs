// K-model unit `bfilters`: real text of BlockFiltersProcess::execute (filter/components/block_filters_process.rs) over
// models of Storage / Peers / FilterProtocol.  Ground truth: an arbitrary array FH of "true" filter hashes for blocks
// 0..16, from which finalized check points, cached hashes and latest hashes are cut (model check-point interval 4).
#![allow(unused, dead_code, unused_mut, static_mut_refs, non_snake_case)]
use std::{cmp, fmt};
use std::ops::{Deref, DerefMut};
pub const CAP: usize = 4;
pub const INIT_BLOCKS_IN_TRANSIT_PER_PEER: usize = 16;
pub const INTERVAL: u64 = 4;   // model check-point interval (real: 2000); stated bound
pub const WIN: usize = 16;     // block numbers 0..16
#[macro_use] #[path = "../../prelude/macros.rs"] mod pmacros;
include!("../../prelude/vec.rs");
include!("../../prelude/u256.rs");
include!("../../prelude/epoch.rs");
include!("../../prelude/lc_types.rs");
include!("../../prelude/uf.rs");
include!("../../prelude/status.rs");
#[cfg(kani)] fn any_usize() -> usize { kani::any() }
#[cfg(not(kani))] fn any_usize() -> usize { 0 }
impl<T: Copy + Default> Vec<T> { pub fn choose<R>(&self, _r: &mut R) -> Option<&T> { if self.len == 0 { None } else { let i: usize = any_usize(); if i < self.len { Some(&self.buf[i]) } else { Some(&self.buf[0]) } } } }
#[derive(Clone, Copy, Default, PartialEq, Eq)] pub struct FilterBytes(pub u8);
pub static mut H_FILTER: Uf = Uf::new();
/// uninterpreted: calc_filter_hash(parent, filter)
pub fn calc_filter_hash(parent: &Byte32, filter: &FilterBytes) -> Byte32 { unsafe { Byte32(H_FILTER.apply(((parent.0 as u64) << 8) | filter.0 as u64)) } }
pub mod packed {
    use super::*;
    pub use super::Byte32;
    #[derive(Clone, Copy, Default)]
    pub struct BlockFilters { pub start: u64, pub filters: Vec<FilterBytes>, pub hashes: Vec<Byte32> }
    impl BlockFilters { pub fn start_number(&self) -> PU64 { PU64(self.start) } pub fn filters(&self) -> Vec<FilterBytes> { self.filters } pub fn block_hashes(&self) -> Vec<Byte32> { self.hashes } }
    pub struct BlockFiltersReader<'a> { pub e: &'a BlockFilters }
    impl<'a> BlockFiltersReader<'a> { pub fn to_entity(&self) -> BlockFilters { *self.e } }
    #[derive(Clone, Copy, Default)] pub struct Header;
}
#[derive(Clone, Copy, Default)] pub struct ProveState { pub last: VerifiableHeader }
impl ProveState { pub fn get_last_header(&self) -> &VerifiableHeader { &self.last } }
#[derive(Clone, Copy, Default)] pub struct PeerState { pub ps: Option<ProveState> }
impl PeerState { pub fn get_prove_state(&self) -> Option<&ProveState> { self.ps.as_ref() } }

pub struct MatchedMap { pub n: usize }
impl MatchedMap { pub fn is_empty(&self) -> bool { self.n == 0 } }
pub struct Guard<'a> { m: &'a mut MatchedMap }
impl<'a> Deref for Guard<'a> { type Target = MatchedMap; fn deref(&self) -> &MatchedMap { self.m } }
impl<'a> DerefMut for Guard<'a> { fn deref_mut(&mut self) -> &mut MatchedMap { self.m } }
impl<'a> Drop for Guard<'a> { fn drop(&mut self) { unsafe { G.locked = false; } } }
pub struct RwLock { pub inner: std::cell::UnsafeCell<MatchedMap> }
impl RwLock { pub fn write(&self) -> Result<Guard<'_>, ()> { unsafe { G.locked = true; Ok(Guard { m: &mut *self.inner.get() }) } } }

pub struct Ghost { pub locked: bool, pub write_unlocked: bool, pub min_upd: Option<u64>, pub blk_upd: Option<u64>, pub added: Option<(u64, u64, Vec<(Byte32, bool)>)>, pub asked: Option<u64>, pub mem_added: usize, pub seq: usize, pub min_at: usize, pub added_at: usize, pub blk_at: usize }
pub static mut G: Ghost = Ghost { locked: false, write_unlocked: false, min_upd: None, blk_upd: None, added: None, asked: None, mem_added: 0, seq: 0, min_at: 0, added_at: 0, blk_at: 0 };
fn wr() { unsafe { if !G.locked { G.write_unlocked = true; } } }

pub struct Storage { pub scripts_empty: bool, pub min_filtered: u64, pub earliest: Option<(u64, u64, Vec<(Byte32, bool)>)>, pub fin_idx: u32, pub fh: [Byte32; WIN] }
impl Storage {
    pub fn is_filter_scripts_empty(&self) -> bool { self.scripts_empty }
    pub fn get_min_filtered_block_number(&self) -> u64 { self.min_filtered }
    pub fn get_earliest_matched_blocks(&self) -> Option<(u64, u64, Vec<(Byte32, bool)>)> { unsafe { if self.earliest.is_none() { G.added } else { self.earliest } } }
    pub fn update_block_number(&self, n: u64) { unsafe { G.blk_upd = Some(n); G.seq += 1; G.blk_at = G.seq; } }
    pub fn get_last_check_point(&self) -> (u32, Byte32) { (self.fin_idx, self.fh[(self.fin_idx as u64 * INTERVAL) as usize]) }
    pub fn get_check_points(&self, idx: u32, limit: usize) -> Vec<Byte32> { let mut v = Vec::new(); let mut i = idx; while (i <= self.fin_idx) && v.len() < limit { v.push(self.fh[(i as u64 * INTERVAL) as usize]); i += 1; } v }
    pub fn add_matched_blocks(&self, start: u64, count: u64, blocks: Vec<(Byte32, bool)>) { assert!(!blocks.is_empty(), "REAL-PANIC: add_matched_blocks called with no matched block"); wr(); unsafe { G.added = Some((start, count, blocks)); G.seq += 1; G.added_at = G.seq; } }
    pub fn get_tip_header(&self) -> packed::Header { packed::Header }
}
pub struct Peers { pub state: Option<PeerState>, pub mb: RwLock, pub cached_idx: u32, pub cached_len: usize, pub latest_len: usize, pub fh: [Byte32; WIN] }
impl Peers {
    pub fn get_state(&self, _p: &PeerIndex) -> Option<PeerState> { self.state }
    pub fn matched_blocks(&self) -> &RwLock { &self.mb }
    pub fn calc_check_point_number(&self, idx: u32) -> u64 { INTERVAL * idx as u64 }
    pub fn get_cached_block_filter_hashes(&self) -> (u32, Vec<Byte32>) { let mut v = Vec::new(); let base = self.cached_idx as u64 * INTERVAL; let mut i = 0; while i < self.cached_len { v.push(self.fh[(base + 1 + i as u64) as usize]); i += 1; } (self.cached_idx, v) }
    pub fn get_latest_block_filter_hashes(&self, fin: u32) -> Vec<Byte32> { let mut v = Vec::new(); let base = fin as u64 * INTERVAL; let mut i = 0; while i < self.latest_len { v.push(self.fh[(base + 1 + i as u64) as usize]); i += 1; } v }
    pub fn add_matched_blocks(&self, m: &mut MatchedMap, b: Vec<(Byte32, bool)>) { m.n += b.len(); unsafe { G.mem_added += b.len(); } }
    pub fn could_request_more_block_filters(&self, _f: u32, _n: u64) -> bool { any_usize() & 1 == 1 }
    pub fn get_best_proved_peers(&self, _t: &packed::Header) -> Vec<PeerIndex> { let mut v = Vec::new(); v.push(PeerIndex(1)); v }
}
pub struct Arc<T: 'static>(pub &'static T);
impl<T> Arc<T> { pub fn clone(a: &Arc<T>) -> Arc<T> { Arc(a.0) } pub fn as_ref(&self) -> &T { self.0 } }
impl<T> Deref for Arc<T> { type Target = T; fn deref(&self) -> &T { self.0 } }
pub struct Nc;
pub struct FilterProtocol { pub storage: Storage, pub peers: Arc<Peers>, pub matched: [bool; CAP] }
impl FilterProtocol {
    /// Golomb-coded-set matching is uninterpreted: an arbitrary subset of the first `limit` filters matches
    pub fn check_filters_data(&self, bf: packed::BlockFilters, limit: usize) -> Vec<Byte32> { let mut v = Vec::new(); let mut i = 0; while i < limit && i < bf.filters.len() { if self.matched[i] { v.push(bf.hashes[i]); } i += 1; } v }
    pub fn update_min_filtered_block_number(&self, n: u64) { unsafe { G.min_upd = Some(n); G.seq += 1; G.min_at = G.seq; } }
    pub fn send_get_block_filters(&self, _nc: Arc<Nc>, _p: PeerIndex, n: u64) { unsafe { G.asked = Some(n); } }
    pub fn try_send_get_block_filter_hashes(&self, _nc: Arc<Nc>) {}
}
pub fn prove_or_download_matched_blocks(_p: Arc<Peers>, _t: &packed::Header, _m: &MatchedMap, _nc: &Nc, _n: usize) {}
pub mod rand { pub struct Rng; pub fn thread_rng() -> Rng { Rng } }
pub struct BlockFiltersProcess<'a> { pub message: packed::BlockFiltersReader<'a>, pub filter: &'a FilterProtocol, pub nc: Arc<Nc>, pub peer: PeerIndex }

include!("extracted.rs");

#[cfg(kani)]
mod harness {
    use super::*;
    static NC: Nc = Nc;
    fn filters_step<const NF: usize>() {
        let fh: [u8; WIN] = kani::any(); let fhb: [Byte32; WIN] = unsafe { std::mem::transmute(fh) };
        let fin_idx: u32 = kani::any(); kani::assume(fin_idx <= 2);
        let min_filtered: u64 = kani::any(); kani::assume(min_filtered < 11);
        let cached_idx: u32 = kani::any(); kani::assume(cached_idx <= 2);
        let cached_len: usize = kani::any(); kani::assume(cached_len <= 4);
        let latest_len: usize = kani::any(); kani::assume(latest_len <= 4);
        let proved: bool = kani::any();
        let proven_hash: u8 = kani::any();
        let mut ps = ProveState::default(); ps.last.header.id = proven_hash;
        let mem0: usize = if kani::any() { 0 } else { 1 };
        let peers: &'static Peers = Box::leak(Box::new(Peers { state: if kani::any() { Some(PeerState { ps: if proved { Some(ps) } else { None } }) } else { None }, mb: RwLock { inner: std::cell::UnsafeCell::new(MatchedMap { n: mem0 }) }, cached_idx, cached_len, latest_len, fh: fhb }));
        let connected = peers.state.is_some();
        let fp = FilterProtocol { storage: Storage { scripts_empty: kani::any(), min_filtered, earliest: None, fin_idx, fh: fhb }, peers: Arc(peers), matched: kani::any() };
        let nf: usize = kani::any(); kani::assume(nf <= NF);
        let nb: usize = kani::any(); kani::assume(nb <= NF);
        let fb: [u8; CAP] = kani::any(); let hb: [u8; CAP] = kani::any();
        let mut filters = Vec::new(); let mut hashes = Vec::new();
        let mut i = 0; while i < CAP { if i < nf { filters.push(FilterBytes(fb[i])); } i += 1; }
        let mut i = 0; while i < CAP { if i < nb { hashes.push(Byte32(hb[i])); } i += 1; }
        let start: u64 = kani::any();
        let msg = packed::BlockFilters { start, filters, hashes };
        let p = BlockFiltersProcess { message: packed::BlockFiltersReader { e: &msg }, filter: &fp, nc: Arc(&NC), peer: PeerIndex(0) };
        let st = p.execute();
        unsafe {
            assert!(!G.write_unlocked, "SPEC filters: matched-block record written outside the matched_blocks write lock");
            if let Some(f) = G.min_upd {
                assert!(connected && proved && !fp.storage.scripts_empty, "SPEC filters: filtered height advanced for an unproven / unknown peer or with no script registered");
                assert!(start == min_filtered + 1, "SPEC filters: filtered height advanced by a batch that does not start right after it");
                assert!(nf == nb && nf > 0, "SPEC filters: filtered height advanced by a batch with mismatched counts");
                assert!(f + 1 >= start && f <= start - 1 + nf as u64, "SPEC filters: new filtered height outside the batch");
                let accepted = (f - (start - 1)) as usize;
                // expected hashes available for this start, from ground truth
                let fin_no = fin_idx as u64 * INTERVAL;
                let avail: u64 = if start <= fin_no { let cb = cached_idx as u64 * INTERVAL; (cb + cached_len as u64).saturating_sub(start - 1) } else { (fin_no + latest_len as u64).saturating_sub(start - 1) };
                assert!(accepted as u64 == cmp::min(nf as u64, avail), "SPEC filters: accepted prefix is not min(filters, agreed hashes)");
                // authenticity of the accepted prefix: chained from the true parent hash to the true hash of each height
                let mut parent = fhb[(start - 1) as usize];
                let mut k = 0;
                while k < CAP {
                    if k < accepted { let h = calc_filter_hash(&parent, &FilterBytes(fb[k])); assert!(h == fhb[(start as usize) + k], "SPEC filters: an accepted filter does not hash (chained from the right parent) to the agreed filter hash of its height"); parent = h; }
                    k += 1;
                }
                // matched-block record: exactly the message's hashes at the matching indices of the accepted prefix
                let mut want = Vec::<(Byte32, bool)>::new(); let mut k = 0;
                while k < CAP { if k < accepted && fp.matched[k] { want.push((Byte32(hb[k]), hb[k] == proven_hash)); } k += 1; }
                match G.added {
                    Some((s, c, blocks)) => { assert!(s == start && c == accepted as u64, "SPEC filters: record range is not the accepted range"); assert!(blocks == want, "SPEC filters: recorded block hashes are not the message's hashes at the matching indices"); }
                    None => { assert!(want.len == 0, "SPEC filters: a matching filter was dropped without a record"); }
                }
                // crash order (C08): these are separate storage writes; the filtered height is persisted LAST - a crash before it repeats the batch, whereas a filtered
                // height persisted before the matched-block record (or before the script numbers) is a batch that is never examined again
                if G.added.is_some() { assert!(G.added_at < G.min_at, "SPEC crash order: the filtered height is persisted before the matched-block record of the same batch (a crash in between loses the matched blocks)"); }
                if G.blk_upd.is_some() { assert!(G.blk_at < G.min_at, "SPEC crash order: the filtered height is persisted before the script block numbers of the same batch"); }
                // a script's recorded number is raised only when nothing is pending
                if let Some(b) = G.blk_upd { assert!(b == f && want.len == 0 && mem0 == 0, "SPEC filters: script block numbers raised although matched blocks are pending"); }
                kani::cover!(accepted == 2 && start > fin_no, "two filters accepted against the latest hashes");
                kani::cover!(accepted >= 1 && start <= fin_no, "accepted against the cached (finalized) hashes");
                kani::cover!(want.len == 2, "two matched blocks recorded");
            } else {
                assert!(G.added.is_none() && G.mem_added == 0, "SPEC filters: matched blocks recorded without advancing the filtered height");
                if let Some(b) = G.blk_upd { assert!(b == min_filtered && start != min_filtered + 1, "SPEC filters: script block numbers raised without an accepted batch"); }
            }
        }
    }
    #[kani::proof] #[kani::unwind(6)] fn filters_q() { filters_step::<3>(); }
    #[kani::proof] #[kani::unwind(7)] fn filters_t() { filters_step::<4>(); }
}
