// K-model unit `pending`: real text of PendingTxs (src/protocols/relayer.rs): push / get / fetch_transaction_hashes_for_broadcast.
// LinkedHashMap is modelled as an insertion-ordered array with the semantics of linked-hash-map 0.5.6 (insert of an existing key
// replaces the value and moves the entry to the back; pop_front removes the oldest).
#![allow(unused, dead_code, unused_mut, static_mut_refs, non_snake_case)]
pub const CAP: usize = 4;
pub const MAP_CAP: usize = 3;
pub const LHM_CAP: usize = 4;
#[macro_use] #[path = "../../prelude/macros.rs"] mod pmacros;
include!("../../prelude/vec.rs");
include!("../../prelude/hashmap.rs");
include!("../../prelude/u256.rs");
include!("../../prelude/epoch.rs");
include!("../../prelude/lc_types.rs");
pub type Cycle = u64;
#[derive(Clone, Copy, PartialEq, Eq, Default, Debug, Hash)] pub struct PeerId(pub u8);
pub struct Instant; impl Instant { pub fn now() -> Instant { Instant } pub fn elapsed(&self) -> Duration { Duration(0) } }
#[derive(PartialEq, PartialOrd)] pub struct Duration(pub u64); impl Duration { pub fn from_secs(s: u64) -> Duration { Duration(s) } }
pub mod packed { pub use super::Byte32; #[derive(Clone, Copy, Default, PartialEq, Eq, Debug)] pub struct Transaction(pub u8); }
#[derive(Clone, Copy)] pub struct TransactionView { pub id: u8 }
impl TransactionView { pub fn hash(&self) -> Byte32 { Byte32(self.id) } pub fn data(&self) -> packed::Transaction { packed::Transaction(self.id) } }
#[derive(Clone, Copy)]
pub struct LinkedHashMap<K: Copy + Eq + Default, V: Copy + Default> { pub keys: [K; LHM_CAP], pub vals: [V; LHM_CAP], pub len: usize }
impl<K: Copy + Eq + Default, V: Copy + Default> LinkedHashMap<K, V> {
    pub fn new() -> Self { LinkedHashMap { keys: [K::default(); LHM_CAP], vals: [V::default(); LHM_CAP], len: 0 } }
    fn pos(&self, k: &K) -> Option<usize> { let mut i = 0; while i < self.len { if self.keys[i] == *k { return Some(i); } i += 1; } None }
    fn remove_at(&mut self, i: usize) { let mut j = i; while j + 1 < self.len { self.keys[j] = self.keys[j + 1]; self.vals[j] = self.vals[j + 1]; j += 1; } self.len -= 1; }
    /// linked-hash-map: an existing key is re-linked at the back with the new value
    pub fn insert(&mut self, k: K, v: V) -> Option<V> {
        let old = match self.pos(&k) { Some(i) => { let o = self.vals[i]; self.remove_at(i); Some(o) } None => None };
        assert!(self.len < LHM_CAP, "MODEL-BOUND: LinkedHashMap capacity"); self.keys[self.len] = k; self.vals[self.len] = v; self.len += 1; old
    }
    pub fn pop_front(&mut self) -> Option<(K, V)> { if self.len == 0 { None } else { let r = (self.keys[0], self.vals[0]); self.remove_at(0); Some(r) } }
    pub fn len(&self) -> usize { self.len }
    pub fn is_empty(&self) -> bool { self.len == 0 }
    pub fn get(&self, k: &K) -> Option<&V> { match self.pos(k) { Some(i) => Some(&self.vals[i]), None => None } }
    pub fn iter_mut(&mut self) -> std::iter::Zip<std::slice::Iter<'_, K>, std::slice::IterMut<'_, V>> { let n = self.len; self.keys[..n].iter().zip(self.vals[..n].iter_mut()) }
}

include!("extracted.rs");

#[cfg(kani)]
mod harness {
    use super::*;
    fn order(p: &PendingTxs) -> ([u8; LHM_CAP], usize) { let mut a = [0u8; LHM_CAP]; let mut i = 0; while i < p.txs.len { a[i] = p.txs.keys[i].0; i += 1; } (a, p.txs.len) }
    /// ONE arbitrary operation from an ARBITRARY pool (<= limit entries with distinct hashes, arbitrary announced-sets)
    #[kani::proof] #[kani::unwind(6)] fn pool() { pool_g::<3>(); }
    #[kani::proof] #[kani::unwind(6)] fn pool_q() { pool_g::<2>(); }
    fn pool_g<const MAXL: usize>() {
        let limit: usize = kani::any(); kani::assume(limit >= 1 && limit <= MAXL);
        let n0: usize = kani::any(); kani::assume(n0 <= limit);
        let mut p = PendingTxs::new(limit);
        let mut refk = [0u8; 4]; let mut told = [[false; 2]; 4];   // told[hash][peer]
        let mut i = 0;
        while i < 3 {
            if i < n0 {
                let id: u8 = kani::any(); kani::assume(id < 4);
                let mut j = 0; while j < 3 { if j < i { kani::assume(refk[j] != id); } j += 1; }
                refk[i] = id;
                let mut hs = HashSet::new();
                if kani::any() { hs.insert(PeerId(0)); told[id as usize][0] = true; }
                if kani::any() { hs.insert(PeerId(1)); told[id as usize][1] = true; }
                p.txs.keys[i] = Byte32(id); p.txs.vals[i] = (packed::Transaction(id), 0, hs); p.txs.len = i + 1;
            }
            i += 1;
        }
        let mut refn = n0;
        let op: u8 = kani::any(); kani::assume(op < 3);
        if op == 0 {
            let id: u8 = kani::any(); kani::assume(id < 4);
            p.push(TransactionView { id }, kani::any());
            // reference: remove if present, append, evict the oldest beyond the limit; a (re)pushed tx is announced afresh
            let mut j = 0; let mut w = 0; while j < 4 { if j < refn && refk[j] != id { refk[w] = refk[j]; w += 1; } j += 1; } refn = w;
            refk[refn] = id; refn += 1; told[id as usize] = [false; 2];
            if refn > limit { let mut j = 0; while j + 1 < 4 { refk[j] = refk[j + 1]; j += 1; } refn -= 1; }
            kani::cover!(n0 == limit && refn == limit, "push into a full pool");
        } else if op == 1 {
            let peer: u8 = kani::any(); kani::assume(peer < 2);
            let hs = p.fetch_transaction_hashes_for_broadcast(PeerId(peer));
            let mut want = [0u8; 4]; let mut wn = 0; let mut j = 0;
            while j < 4 { if j < refn && !told[refk[j] as usize][peer as usize] { want[wn] = refk[j]; wn += 1; told[refk[j] as usize][peer as usize] = true; } j += 1; }
            assert!(hs.len == wn, "SPEC relay: a pending hash was announced to a peer twice or not at all");
            let mut j = 0; while j < 4 { if j < wn { assert!(hs.buf[j].0 == want[j], "SPEC relay: announced hashes differ from the not-yet-announced pool members"); } j += 1; }
            // and a second call announces nothing
            let again = p.fetch_transaction_hashes_for_broadcast(PeerId(peer));
            assert!(again.len == 0, "SPEC relay: a pending hash was announced to the same peer twice");
            kani::cover!(wn == 2, "two hashes announced");
        } else {
            let id: u8 = kani::any(); kani::assume(id < 4);
            let g = p.get(&Byte32(id));
            let mut present = false; let mut j = 0; while j < 4 { if j < refn && refk[j] == id { present = true; } j += 1; }
            assert!(g.is_some() == present, "SPEC relay: get must report exactly the pool members");
            if let Some((tx, _, _)) = g { assert!(tx.0 == id, "SPEC relay: get returned another transaction"); }
        }
        let (a, n) = order(&p);
        assert!(n <= limit, "SPEC relay: the pending pool exceeds its limit");
        assert!(n == refn, "SPEC relay: pool size differs from the reference (oldest-first eviction, re-push refreshes)");
        let mut j = 0; while j < 4 { if j < n { assert!(a[j] == refk[j], "SPEC relay: pool order differs from the reference"); } j += 1; }
        // announced-sets of the members agree with the reference
        let mut j = 0;
        while j < 4 { if j < n { let v = p.txs.vals[j]; assert!(v.2.contains(&PeerId(0)) == told[a[j] as usize][0] && v.2.contains(&PeerId(1)) == told[a[j] as usize][1], "SPEC relay: announced-set differs from the reference"); } j += 1; }
    }
    /// the once-per-peer clause under RE-SUBMISSION: a transaction already announced to a peer is submitted again (send_transaction does not
    /// de-duplicate); the next relay tick must not announce its hash to that peer a second time
    #[kani::proof] #[kani::unwind(6)]
    fn resubmission() {
        let limit: usize = kani::any(); kani::assume(limit >= 1 && limit <= 3);
        let n0: usize = kani::any(); kani::assume(n0 >= 1 && n0 <= limit);
        let mut p = PendingTxs::new(limit);
        let mut ids = [0u8; 3]; let mut i = 0;
        while i < 3 {
            if i < n0 {
                let id: u8 = kani::any(); kani::assume(id < 4);
                let mut j = 0; while j < 3 { if j < i { kani::assume(ids[j] != id); } j += 1; }
                ids[i] = id;
                let mut hs = HashSet::new();
                if kani::any() { hs.insert(PeerId(0)); }
                if kani::any() { hs.insert(PeerId(1)); }
                p.txs.keys[i] = Byte32(id); p.txs.vals[i] = (packed::Transaction(id), 0, hs); p.txs.len = i + 1;
            }
            i += 1;
        }
        let k: usize = kani::any(); kani::assume(k < n0);
        let peer: u8 = kani::any(); kani::assume(peer < 2);
        kani::assume(p.txs.vals[k].2.contains(&PeerId(peer)));   // already announced to this peer
        p.push(TransactionView { id: ids[k] }, kani::any());
        let hs = p.fetch_transaction_hashes_for_broadcast(PeerId(peer));
        let mut j = 0; while j < 4 { if j < hs.len { assert!(hs.buf[j].0 != ids[k], "SPEC relay: a pending hash is announced to the same peer a second time after the transaction was submitted again"); } j += 1; }
        kani::cover!(n0 == 2, "two members");
    }
}
