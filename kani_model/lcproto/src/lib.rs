// K-model unit `lcproto`: real text of SendLastStateProcess::execute + check_last_state (send_last_state.rs),
// LightClientProtocol::{update_prove_state_to_child, commit_prove_state} (light_client/mod.rs), the PeerState /
// ProveState code (peers.rs) and HeaderUtils::is_parent_of (prelude.rs), over models of Storage / Peers.
#![allow(unused, dead_code, unused_mut, static_mut_refs, non_snake_case)]
use std::{fmt, mem};
pub const CAP: usize = 3;
pub const MAP_CAP: usize = 3;
#[macro_use] #[path = "../../prelude/macros.rs"] mod pmacros;
include!("../../prelude/vec.rs");
include!("../../prelude/hashmap.rs");
include!("../../prelude/u256.rs");
include!("../../prelude/epoch.rs");
include!("../../prelude/lc_types.rs");
include!("../../prelude/status.rs");
pub const MAX_TIP_AGE: u64 = 24 * 60 * 60 * 1000;
pub static mut NOW: u64 = 0;
pub fn unix_time_as_millis() -> u64 { unsafe { NOW } }
pub trait HeaderUtils { fn is_parent_of(&self, child: &Self) -> bool; fn is_child_of(&self, parent: &Self) -> bool { parent.is_parent_of(self) } }
pub mod packed {
    pub use super::Byte32;
    #[derive(Clone, Copy, Default, PartialEq, Eq, Debug)] pub struct GetLastStateProof(pub u8);
    #[derive(Clone, Copy)] pub struct PVH(pub super::VerifiableHeader);
    impl PVH { pub fn to_entity(&self) -> PVH { *self } }
    impl From<PVH> for super::VerifiableHeader { fn from(p: PVH) -> Self { p.0 } }
    pub struct SendLastStateReader<'a> { pub vh: &'a PVH }
    impl<'a> SendLastStateReader<'a> { pub fn last_header(&self) -> PVH { *self.vh } }
}
pub struct Nc; pub trait CKBProtocolContext {} impl CKBProtocolContext for Nc {}

// ---- ghost log of every effect, in order -----------------------------------------------------------------
#[derive(Clone, Copy, PartialEq, Eq, Debug)]
pub enum Ev { None, RemoveMatched(u64), Rollback(u64), UpdateLastState, ClearMemory, Lock, Unlock, PeerProveState, PeerLastState }
pub struct Ghost {
    pub ev: [Ev; 10], pub n: usize, pub locked: bool, pub write_unlocked: bool,
    pub stored_td: u64, pub stored_hdr: u8, pub stored_last_n: usize, pub stored_last_ids: [u8; CAP],
    pub header_checked_ok: bool,
}
pub static mut G: Ghost = Ghost { ev: [Ev::None; 10], n: 0, locked: false, write_unlocked: false, stored_td: 0, stored_hdr: 0, stored_last_n: 0, stored_last_ids: [0; CAP], header_checked_ok: false };
fn log_ev(e: Ev) { unsafe { assert!(G.n < 10, "MODEL-BOUND: ghost log capacity"); G.ev[G.n] = e; G.n += 1; } }

// ---- Storage model --------------------------------------------------------------------------------------
pub struct Storage { pub td: u64, pub tip: HeaderView, pub last_n: Vec<(u64, Byte32)> }
pub static mut RECORDS: Vec<u64> = Vec { buf: [0; CAP], len: 0 };   // start numbers of pending matched-block records
impl Storage {
    pub fn get_last_state(&self) -> (U256, PHeader) { (U256(self.td), PHeader(self.tip)) }
    pub fn get_last_n_headers(&self) -> Vec<(u64, Byte32)> { self.last_n }
    pub fn get_latest_matched_blocks(&self) -> Option<(u64, u64, Vec<(Byte32, bool)>)> {
        unsafe { let mut best: Option<u64> = None; let mut i = 0; while i < RECORDS.len { let s = RECORDS.buf[i]; if best.map(|b| s > b).unwrap_or(true) { best = Some(s); } i += 1; } best.map(|s| (s, 1, Vec::new())) }
    }
    pub fn remove_matched_blocks(&self, start: u64) {
        unsafe { if !G.locked { G.write_unlocked = true; } RECORDS.retain(|s| *s != start); }
        log_ev(Ev::RemoveMatched(start));
    }
    pub fn rollback_to_block(&self, n: u64) { unsafe { if !G.locked { G.write_unlocked = true; } } log_ev(Ev::Rollback(n)); }
    pub fn update_last_state(&self, td: &U256, h: &PHeader, last_n: &[HeaderView]) {
        unsafe { G.stored_td = td.0; G.stored_hdr = h.0.id; G.stored_last_n = last_n.len(); let mut i = 0; while i < last_n.len() && i < CAP { G.stored_last_ids[i] = last_n[i].id; i += 1; } }
        log_ev(Ev::UpdateLastState);
    }
}
// ---- Peers model ----------------------------------------------------------------------------------------
pub struct PoisonErr; 
pub struct MatchedGuard;
impl MatchedGuard { pub fn clear(&mut self) { log_ev(Ev::ClearMemory); } }
impl Drop for MatchedGuard { fn drop(&mut self) { unsafe { G.locked = false; } log_ev(Ev::Unlock); } }
pub struct MatchedLock;
impl MatchedLock { pub fn write(&self) -> Option<MatchedGuard> { unsafe { G.locked = true; } log_ev(Ev::Lock); Some(MatchedGuard) } }
pub struct Peers { pub st: std::cell::RefCell<PeerState>, pub lock: MatchedLock }
impl Peers {
    pub fn matched_blocks(&self) -> &MatchedLock { &self.lock }
    pub fn update_last_state(&self, _p: PeerIndex, ls: LastState) -> Result<(), Status> { let cur = self.st.borrow().clone(); let n = cur.receive_last_state(ls)?; *self.st.borrow_mut() = n; log_ev(Ev::PeerLastState); Ok(()) }
    pub fn update_prove_state(&self, _p: PeerIndex, ps: ProveState) -> Result<(), Status> { let cur = self.st.borrow().clone(); let n = cur.receive_last_state_proof(ps)?; *self.st.borrow_mut() = n; log_ev(Ev::PeerProveState); Ok(()) }
}
pub struct LightClientProtocol { pub storage: Storage, pub peers: Peers, pub header_ok: bool, pub last_n: u64 }
impl LightClientProtocol {
    pub fn get_peer_state(&self, _p: &PeerIndex) -> Result<PeerState, Status> { Ok(self.peers.st.borrow().clone()) }
    /// PoW + chain-root check of the incoming header: an arbitrary Boolean that must have been true (uninterpreted)
    pub fn check_verifiable_header(&self, vh: &VerifiableHeader) -> Result<(), Status> {
        // contract of the real function (decided on its own text: C10 O10.guard-*): Ok implies the total difficulty does not overflow
        if vh.root.td.0.checked_add(vh.header.diff).is_none() { return Err(Status::from(StatusCode::MalformedProtocolMessage)); }
        if self.header_ok { unsafe { G.header_checked_ok = true; } Ok(()) } else { Err(Status::from(StatusCode::InvalidNonce)) }
    }
    pub fn peers(&self) -> &Peers { &self.peers }
    pub fn last_n_blocks(&self) -> u64 { self.last_n }
    pub fn get_last_state_proof(&self, _nc: &dyn CKBProtocolContext, _p: PeerIndex) -> Result<bool, Status> { Ok(true) }
}
pub struct SendLastStateProcess<'a> { pub message: packed::SendLastStateReader<'a>, pub protocol: &'a mut LightClientProtocol, pub peer_index: PeerIndex, pub nc: &'a dyn CKBProtocolContext }

include!("extracted.rs");
impl fmt::Display for PeerState { fn fmt(&self, f: &mut fmt::Formatter) -> fmt::Result { Ok(()) } }
impl fmt::Display for LastState { fn fmt(&self, f: &mut fmt::Formatter) -> fmt::Result { Ok(()) } }
impl fmt::Display for ProveRequest { fn fmt(&self, f: &mut fmt::Formatter) -> fmt::Result { Ok(()) } }
impl fmt::Display for ProveState { fn fmt(&self, f: &mut fmt::Formatter) -> fmt::Result { Ok(()) } }

#[cfg(kani)]
mod harness {
    use super::*;
    fn any_hv() -> HeaderView {
        let id: u8 = kani::any(); kani::assume(id < 8);
        HeaderView { id, number: kani::any(), parent: kani::any(), epoch: EpochNumberWithFraction(kani::any()), timestamp: kani::any(), diff: kani::any(), ..Default::default() }
    }
    /// a header that passed check_verifiable_header earlier (proven / stored): its total difficulty is representable
    fn any_vh() -> VerifiableHeader {
        let v = any_wire_vh();
        kani::assume(v.root.td.0.checked_add(v.header.diff).is_some());
        v
    }
    /// a header as it arrives from the wire: no assumption at all
    fn any_wire_vh() -> VerifiableHeader { VerifiableHeader { header: any_hv(), uncles: 0, ext: None, root: HeaderDigest { td: U256(kani::any()), end_number: kani::any(), id: 0 } } }
    fn td(v: &VerifiableHeader) -> u64 { v.root.td.0.wrapping_add(v.header.diff) }
    fn ready_state(p: VerifiableHeader, window: Vec<HeaderView>) -> PeerState {
        let ls = LastState::new(p);
        let ps = ProveState::new_from_request(ProveRequest::new(ls.clone(), Default::default()), Vec::new(), window);
        PeerState::Ready { last_state: ls, prove_state: ps }
    }
    fn count(e: Ev) -> usize { unsafe { let mut c = 0; let mut i = 0; while i < G.n { if G.ev[i] == e { c += 1; } i += 1; } c } }
    fn pos(e: Ev) -> Option<usize> { unsafe { let mut i = 0; while i < G.n { if G.ev[i] == e { return Some(i); } i += 1; } None } }
    fn any_window(max: usize) -> Vec<HeaderView> { let n: usize = kani::any(); kani::assume(n <= max); let mut v = Vec::new(); let mut i = 0; while i < CAP { if i < n { v.push(any_hv()); } i += 1; } v }

    // ---------------------------------------------------------------------------------------------------
    // O12.4 (+O12.1 for the child path): SendLastStateProcess::execute with the peer Ready on a proven header
    // ---------------------------------------------------------------------------------------------------
    #[kani::proof] #[kani::unwind(12)]
    fn child_fast_path() {
        let p = any_vh();
        let last_n: u64 = kani::any(); kani::assume(last_n >= 1 && last_n <= 2);
        let window = any_window(last_n as usize);
        let st = ready_state(p, window);
        let stored_td: u64 = kani::any();
        let mut proto = LightClientProtocol { storage: Storage { td: stored_td, tip: any_hv(), last_n: Vec::new() },
            peers: Peers { st: std::cell::RefCell::new(st), lock: MatchedLock }, header_ok: kani::any(), last_n };
        let c = any_wire_vh();
        unsafe { NOW = kani::any(); }
        let pvh = packed::PVH(c);
        let nc = Nc;
        let proc_ = SendLastStateProcess { message: packed::SendLastStateReader { vh: &pvh }, protocol: &mut proto, peer_index: PeerIndex(0), nc: &nc };
        let status = proc_.execute();
        unsafe {
            if count(Ev::UpdateLastState) > 0 {
                assert!(G.header_checked_ok, "SPEC tip: tip stored although the header's PoW / chain-root check did not pass");
                assert!(G.stored_td > stored_td, "SPEC tip: tip moved without strictly more total difficulty");
                assert!(G.stored_hdr == c.header.id, "SPEC tip: stored tip is not the received header");
                assert!(p.header.number.checked_add(1) == Some(c.header.number) && c.header.parent == p.header.id, "SPEC tip: child not linked to the proven header");
                assert!(G.stored_td == td(&c), "SPEC tip: stored total difficulty is not the one committed by the header's chain root");
                assert!(c.root.td.0 == td(&p), "SPEC tip: stored total difficulty is not the proven parent's total difficulty plus the child's own difficulty");
                assert!(G.stored_last_n as u64 <= last_n, "SPEC tip: remembered window longer than last-N");
                assert!(G.stored_last_n >= 1 && G.stored_last_ids[G.stored_last_n - 1] == p.header.id, "SPEC tip: the window does not end with the proven parent");
                kani::cover!(true, "tip stored through the child fast path");
            }
            if count(Ev::PeerProveState) > 0 {
                assert!(G.header_checked_ok, "SPEC tip: prove state replaced although the header check did not pass");
                assert!(p.header.number.checked_add(1) == Some(c.header.number) && c.header.parent == p.header.id, "SPEC tip: prove state moved to a header that is not a child of the proven one");
                assert!(c.root.td.0 == td(&p), "SPEC tip: prove state moved to a child whose chain root disagrees with the proven parent's total difficulty");
            }
            if !proto.header_ok { assert!(G.n == 0, "SPEC tip: state changed although the header check failed"); }
        }
    }

    // ---------------------------------------------------------------------------------------------------
    // O11.5: a SendLastState that repeats the peer's current last state changes nothing - in particular it does not refresh the age of the last state and does
    // not complete an outstanding GetLastState request, so a peer whose last state never changes is still disconnected after the message timeout
    // ---------------------------------------------------------------------------------------------------
    #[kani::proof] #[kani::unwind(12)]
    fn same_last_state_keeps_its_age() {
        let p = any_vh();
        let t0: u64 = kani::any();
        unsafe { NOW = t0; }
        let ls = LastState::new(p);
        let sent: u64 = kani::any();
        let which: u8 = kani::any(); kani::assume(which < 3);
        let mk_ps = || ProveState::new_from_request(ProveRequest::new(ls.clone(), Default::default()), Vec::new(), any_window(1));
        let st = match which { 0 => PeerState::OnlyHasLastState { last_state: ls.clone() }, 1 => PeerState::Ready { last_state: ls.clone(), prove_state: mk_ps() },
                               _ => PeerState::RequestNewLastState { last_state: ls.clone(), prove_state: mk_ps(), when_sent: sent } };
        let mut proto = LightClientProtocol { storage: Storage { td: kani::any(), tip: any_hv(), last_n: Vec::new() },
            peers: Peers { st: std::cell::RefCell::new(st), lock: MatchedLock }, header_ok: kani::any(), last_n: 1 };
        unsafe { NOW = kani::any(); }
        let pvh = packed::PVH(p);
        let nc = Nc;
        let proc_ = SendLastStateProcess { message: packed::SendLastStateReader { vh: &pvh }, protocol: &mut proto, peer_index: PeerIndex(0), nc: &nc };
        let _ = proc_.execute();
        let after = proto.peers.st.borrow().clone();
        unsafe { assert!(G.n == 0, "SPEC same last state: repeating the current last state changed stored / peer state"); }
        assert!(after.get_last_state().map(|l| l.update_ts) == Some(t0), "SPEC same last state: the age of an UNCHANGED last state was refreshed (such a peer is never disconnected by the timeout check)");
        let same_variant = match (which, &after) { (0, PeerState::OnlyHasLastState { .. }) => true, (1, PeerState::Ready { .. }) => true, (2, PeerState::RequestNewLastState { when_sent, .. }) => *when_sent == sent, _ => false };
        assert!(same_variant, "SPEC same last state: the peer left its state / its outstanding request was completed by an answer that carries nothing new");
        kani::cover!(which == 2 && proto.header_ok, "repeated last state while a GetLastState request is outstanding");
    }

    // ---------------------------------------------------------------------------------------------------
    // O12.2: ProveState::new_child
    // ---------------------------------------------------------------------------------------------------
    #[kani::proof] #[kani::unwind(5)]
    fn new_child_window() {
        let p = any_vh();
        let last_n: usize = kani::any(); kani::assume(last_n >= 1 && last_n <= 3);
        let window = any_window(last_n);
        let w0 = window;
        let ls = LastState::new(p);
        // reorg headers of the parent state (a fork switch happened below it): 0..2 arbitrary headers
        let nre: usize = kani::any(); kani::assume(nre <= 2);
        let mut reorg = Vec::new(); let mut i = 0; while i < 2 { if i < nre { reorg.push(any_hv()); } i += 1; }
        let r0 = reorg;
        let ps = ProveState::new_from_request(ProveRequest::new(ls.clone(), Default::default()), reorg, window);
        let c = any_vh();
        let ch = ps.new_child(LastState::new(c), last_n);
        // a child of a state that sits on a fork switch still sits on it: a peer whose state is COPIED from the child (get_last_state_proof) must drop
        // its cached filter hashes of the abandoned branch too (Peers::update_prove_state decides by these headers)
        let r1 = ch.get_reorg_last_headers();
        assert!(r1.len() == r0.len, "SPEC child state: the reorg headers of the parent state are not inherited");
        let mut i = 0; while i < 2 { if i < r0.len { assert!(r1[i] == r0.buf[i], "SPEC child state: the reorg headers of the parent state are not inherited"); } i += 1; }
        let w = ch.get_last_headers();
        assert!(w.len() <= last_n && w.len() >= 1, "SPEC window: length not within 1..=last-N");
        assert!(w[w.len() - 1] == p.header, "SPEC window: newest entry is not the old last header");
        let drop_ = if w0.len >= last_n { 1 } else { 0 };
        assert!(w.len() == w0.len - drop_ + 1, "SPEC window: wrong length");
        let mut i = 0;
        while i < CAP { if i + 1 < w.len() { assert!(w[i] == w0.buf[i + drop_], "SPEC window: older entries not preserved in order"); } i += 1; }
        assert!(ch.get_last_header().header.id == c.header.id, "SPEC window: child is not the new last header");
        kani::cover!(drop_ == 1 && w.len() == 3, "oldest entry dropped");
    }

    // ---------------------------------------------------------------------------------------------------
    // O4.1 / O12.1: commit_prove_state
    // ---------------------------------------------------------------------------------------------------
    #[kani::proof] #[kani::unwind(12)]
    fn commit() {
        // stored state
        let stored_td: u64 = kani::any();
        let tip = any_hv();
        let nl: usize = kani::any(); kani::assume(nl <= 3);
        let mut stored_last = Vec::new();
        let mut i = 0;
        while i < CAP { if i < nl { let num: u64 = kani::any(); kani::assume(num < (1u64 << 63)); /* numbers of PROVEN headers: a chain has fewer than 2^63 blocks */ let h: u8 = kani::any(); kani::assume(h < 4); stored_last.push((num, Byte32(h))); } i += 1; }
        // representation invariant of LAST_N_HEADERS: distinct numbers
        if nl >= 2 { kani::assume(stored_last.buf[0].0 != stored_last.buf[1].0); }
        if nl >= 3 { kani::assume(stored_last.buf[0].0 != stored_last.buf[2].0 && stored_last.buf[1].0 != stored_last.buf[2].0); }
        let nr: usize = kani::any(); kani::assume(nr <= 3);
        unsafe { RECORDS = Vec::new(); let mut i = 0; while i < CAP { if i < nr { let s: u64 = kani::any(); kani::assume(s >= 1); RECORDS.push(s); } i += 1; }
            if nr >= 2 { kani::assume(RECORDS.buf[0] != RECORDS.buf[1]); } if nr >= 3 { kani::assume(RECORDS.buf[0] != RECORDS.buf[2] && RECORDS.buf[1] != RECORDS.buf[2]); } }
        let rec0 = unsafe { RECORDS };
        // new prove state: last header, reorg headers (strictly increasing numbers: guaranteed by check_if_response_is_matched)
        let last = any_vh();
        let ng: usize = kani::any(); kani::assume(ng <= 3);
        let mut reorg = Vec::new();
        let mut i = 0;
        while i < CAP { if i < ng { let mut h = HeaderView::default(); h.number = kani::any(); h.id = kani::any(); kani::assume(h.id < 4); reorg.push(h); } i += 1; }
        if ng >= 2 { kani::assume(reorg.buf[0].number < reorg.buf[1].number); } if ng >= 3 { kani::assume(reorg.buf[1].number < reorg.buf[2].number); }
        let new_window = any_window(2);
        let ls = LastState::new(last);
        let new_ps = ProveState::new_from_request(ProveRequest::new(ls.clone(), Default::default()), reorg, new_window);
        // the peer is waiting for this proof
        let st = PeerState::RequestFirstLastStateProof { last_state: ls.clone(), request: ProveRequest::new(ls.clone(), Default::default()), when_sent: 0 };
        let proto = LightClientProtocol { storage: Storage { td: stored_td, tip, last_n: stored_last }, peers: Peers { st: std::cell::RefCell::new(st), lock: MatchedLock }, header_ok: true, last_n: 2 };
        let r = proto.commit_prove_state(PeerIndex(0), new_ps.clone());
        let new_td = td(&last);
        unsafe {
            assert!(!G.write_unlocked, "SPEC fork: matched-block record removal / rollback outside the matched_blocks write lock");
            assert!(!G.locked, "SPEC fork: lock still held on return");
            // independent computation of the fork point: highest reorg number whose (number, hash) is remembered
            let mut fork: Option<u64> = None;
            let mut i = 0;
            while i < CAP { if i < ng { let mut j = 0; while j < CAP { if j < nl && stored_last.buf[j].0 == reorg.buf[i].number && stored_last.buf[j].1 .0 == reorg.buf[i].id { fork = Some(reorg.buf[i].number); } j += 1; } } i += 1; }
            if new_td <= stored_td {
                assert!(count(Ev::UpdateLastState) == 0 && pos(Ev::Lock).is_none() && G.n == count(Ev::PeerProveState), "SPEC tip: storage touched although the total difficulty is not strictly greater");
                assert!(matches!(r, Ok(true)), "SPEC tip: lighter proof must still update the peer's prove state");
            } else if ng > 0 && fork.is_none() {
                assert!(matches!(r, Ok(false)), "SPEC fork: no common remembered header must report a long fork");
                assert!(G.n == 0, "SPEC fork: long fork must leave store, memory and peer state untouched");
                kani::cover!(true, "long fork detected");
            } else {
                assert!(count(Ev::UpdateLastState) == 1, "SPEC tip: heavier proven header not stored exactly once");
                assert!(G.stored_td == new_td && G.stored_hdr == last.header.id && G.stored_last_n == new_window.len, "SPEC tip: stored (difficulty, header, last-N) is not the proven one");
                let upd = pos(Ev::UpdateLastState).unwrap();
                if ng > 0 {
                    let f = fork.unwrap();
                    // exactly the records starting above the fork point are removed
                    let mut span: Option<u64> = None;   // highest record start <= fork
                    let mut i = 0;
                    while i < CAP { if i < nr { let s = rec0.buf[i];
                        if s > f { assert!(count(Ev::RemoveMatched(s)) == 1, "SPEC fork: a pending record above the fork point was kept"); }
                        else { assert!(count(Ev::RemoveMatched(s)) == 0, "SPEC fork: a pending record at or below the fork point was removed"); if span.map(|x| s > x).unwrap_or(true) { span = Some(s); } } } i += 1; }
                    let want = span.unwrap_or(f).checked_add(1);
                    assert!(want.is_some() && count(Ev::Rollback(want.unwrap())) == 1, "SPEC fork: rollback target is not (spanning record start, else fork point) + 1");
                    let rb = pos(Ev::Rollback(want.unwrap())).unwrap();
                    assert!(rb < upd, "SPEC fork: tip stored before the rollback");
                    assert!(count(Ev::ClearMemory) == 1 && pos(Ev::ClearMemory).unwrap() > rb, "SPEC fork: in-memory matched blocks not cleared after the rollback");
                    kani::cover!(span.is_some(), "fork point inside a pending record");
                    kani::cover!(nr == 3 && count(Ev::RemoveMatched(rec0.buf[0])) == 1, "records removed");
                } else if tip.number == 1 {
                    assert!(count(Ev::Rollback(1)) == 1 && pos(Ev::Rollback(1)).unwrap() < upd, "SPEC fork: block #1 tip must be rolled back before the new tip is stored");
                } else {
                    assert!(pos(Ev::Lock).is_none() && count(Ev::ClearMemory) == 0, "SPEC fork: plain extension must not roll anything back");
                }
                assert!(matches!(r, Ok(true)), "SPEC tip: committed proof must return Ok(true)");
                assert!(count(Ev::PeerProveState) == 1 && pos(Ev::PeerProveState).unwrap() > upd, "SPEC tip: peer prove state not updated after the store");
            }
        }
    }
}
