// K-model unit `sampling`: real text of src/protocols/light_client/sampling.rs (multiply, FlyClientPDF, sample_blocks, estimate_k,
// estimate_samples_count).  U256 -> 64 bits, U512 -> 128 bits (probe P13: the real 8-limb arithmetic does not finish); f64 arithmetic
// and casts are bit-precise in CBMC; libm pow / log are NOT modelled by the solver: they are replaced (textually: .powf -> .mpowf,
// .log -> .mlog) by arbitrary values within the mathematically documented range.
#![allow(unused, dead_code, unused_mut, static_mut_refs, non_snake_case)]
pub const CAP: usize = 4;
pub const MAP_CAP: usize = 4;
#[macro_use] #[path = "../../prelude/macros.rs"] mod pmacros;
include!("../../prelude/vec.rs");
include!("../../prelude/hashmap.rs");
pub type BlockNumber = u64;
// this unit narrows further than the shared prelude: U256 -> 32 bits, U512 -> 64 bits (the 10^9 scale factor needs 30 bits, so the
// product of a 32-bit value with the numerator fits 64 bits, exactly as the 256-bit value times the numerator fits 512 bits)
#[derive(Clone, Copy, PartialEq, Eq, PartialOrd, Ord, Debug, Default, Hash)] pub struct U256(pub u32);
impl U256 { pub fn zero() -> Self { U256(0) } pub fn one() -> Self { U256(1) } pub fn is_zero(&self) -> bool { self.0 == 0 } }
fn u256_add(a: u32, b: u32) -> U256 { match a.checked_add(b) { Some(x) => U256(x), None => panic!("U256: attempt to add with overflow") } }
fn u256_sub(a: u32, b: u32) -> U256 { match a.checked_sub(b) { Some(x) => U256(x), None => panic!("U256: attempt to subtract with overflow") } }
impl std::ops::Add for U256 { type Output = U256; fn add(self, o: U256) -> U256 { u256_add(self.0, o.0) } }
impl<'a> std::ops::Add<U256> for &'a U256 { type Output = U256; fn add(self, o: U256) -> U256 { u256_add(self.0, o.0) } }
impl<'a, 'b> std::ops::Add<&'b U256> for &'a U256 { type Output = U256; fn add(self, o: &U256) -> U256 { u256_add(self.0, o.0) } }
impl<'a, 'b> std::ops::Sub<&'b U256> for &'a U256 { type Output = U256; fn sub(self, o: &U256) -> U256 { u256_sub(self.0, o.0) } }
impl<'a> std::ops::Sub<u32> for &'a U256 { type Output = U256; fn sub(self, o: u32) -> U256 { u256_sub(self.0, o) } }
impl std::fmt::Display for U256 { fn fmt(&self, _f: &mut std::fmt::Formatter) -> std::fmt::Result { Ok(()) } }
#[derive(Clone, Copy, PartialEq, Eq, PartialOrd, Ord, Debug, Default)] pub struct U512(pub u64);
impl From<u32> for U512 { fn from(x: u32) -> Self { U512(x as u64) } }
impl std::ops::Mul for U512 { type Output = U512; fn mul(self, o: U512) -> U512 { match self.0.checked_mul(o.0) { Some(x) => U512(x), None => panic!("U512: attempt to multiply with overflow") } } }
impl std::ops::Div for U512 {
    type Output = U512;
    /// division as a CONTRACT (fresh q, r with r < d and q*d + r = x): bit-blasting a 128-bit divider does not finish
    fn div(self, o: U512) -> U512 {
        if o.0 == 0 { panic!("U512: attempt to divide by zero") }
        #[cfg(kani)] { let q: u64 = kani::any(); let r: u64 = kani::any(); kani::assume(r < o.0); let p = q.checked_mul(o.0); kani::assume(p.is_some()); let sm = p.unwrap().checked_add(r); kani::assume(sm == Some(self.0)); return U512(q); }
        #[cfg(not(kani))] { U512(self.0 / o.0) }
    }
}
pub trait UintConvert<T> { fn convert_into(&self) -> (T, bool); }
impl UintConvert<U512> for U256 { fn convert_into(&self) -> (U512, bool) { (U512(self.0 as u64), false) } }
impl UintConvert<U256> for U512 { fn convert_into(&self) -> (U256, bool) { (U256(self.0 as u32), self.0 > u32::MAX as u64) } }
#[cfg(kani)] fn any_f64() -> f64 { kani::any() }
#[cfg(not(kani))] fn any_f64() -> f64 { 0.5 }
pub trait MFloat { fn mpowf(self, e: f64) -> f64; fn mlog(self, base: f64) -> f64; fn mceil(self) -> f64; }
impl MFloat for f64 {
    /// pow: for 0 < base < 1: exponent > 0 gives a value in [0, 1) (may underflow to 0), exponent 0 gives 1, exponent < 0 gives >= 1; otherwise arbitrary
    fn mpowf(self, e: f64) -> f64 {
        let r = any_f64();
        #[cfg(kani)] { if self > 0.0 && self < 1.0 { if e > 0.0 { kani::assume(r >= 0.0 && r < 1.0); } else if e == 0.0 { kani::assume(r == 1.0); } else if e < 0.0 { kani::assume(r >= 1.0); } }
                       else if self == 0.0 { if e > 0.0 { kani::assume(r == 0.0); } else if e == 0.0 { kani::assume(r == 1.0); } } }
        r
    }
    /// log: for 0 < x < 1 and 0 < base < 1 the result is > 0; for x == 1 it is 0; for x > 1 it is < 0; non-positive x: NaN or infinite
    fn mlog(self, base: f64) -> f64 {
        let r = any_f64();
        #[cfg(kani)] { if base > 0.0 && base < 1.0 { if self > 0.0 && self < 1.0 { kani::assume(r > 0.0); } else if self == 1.0 { kani::assume(r == 0.0); } else if self > 1.0 { kani::assume(r < 0.0); } } }
        r
    }
    /// the real ceil (bit-precise in CBMC); its result is recorded
    fn mceil(self) -> f64 { let r = self.ceil(); unsafe { LAST_CEIL = Some(r); } r }
}
/// ghost: the value of the last `ceil` call - in estimate_samples_count the FlyClient bound m before its cast to a block count
pub static mut LAST_CEIL: Option<f64> = None;
pub struct ThreadRng;
pub fn thread_rng() -> ThreadRng { ThreadRng }
impl ThreadRng { pub fn gen_range(&mut self, r: std::ops::Range<f64>) -> f64 { let x = any_f64(); #[cfg(kani)] kani::assume(x >= r.start && x < r.end); x } }

include!("extracted.rs");

#[cfg(kani)]
mod harness {
    use super::*;
    #[kani::proof]
    fn multiply_range() {
        let u = U256(kani::any()); kani::assume(u.0 < (1 << 16));   // stated bound: wider operands do not finish (SAT on the multiplier)
        let r: f64 = kani::any(); kani::assume(r >= 0.0 && r < 1.0);
        let m = multiply(&u, r);
        assert!(m.0 >= 1 && (m.0 <= u.0 || (u.0 == 0 && m.0 == 1)), "SPEC sampling: multiply(u, ratio<1) must lie in [1, max(u,1)]");
        kani::cover!(m.0 > 1u32 << 10, "a large product");
    }
    #[kani::proof]
    fn samples_count() {
        let blocks: u64 = kani::any(); let last_n: u64 = kani::any(); let k: f64 = kani::any(); let lambda: u32 = kani::any();
        let c = estimate_samples_count(blocks, last_n, k, lambda);
        if blocks <= last_n { assert!(c == 0, "SPEC sampling: samples requested although at most last-N blocks are missing"); }
        else {
            assert!(c >= 1 && c <= blocks - last_n, "SPEC sampling: samples count outside [1, blocks - last_n]");
            // the FlyClient bound m = ceil(lambda / log_{1/2}(1 - 1/k)) with the value the (unmodelled) logarithm returned: the request carries m samples minus the
            // last-N blocks that are fetched anyway - discounted ONCE - and never more than the blocks that exist
            if let Some(mc) = unsafe { LAST_CEIL } {
                let m = mc as u64;
                let want = if m <= last_n { 1 } else if m > blocks { blocks - last_n } else { m - last_n };
                assert!(c >= want, "SPEC sampling: fewer samples than the FlyClient bound requires after discounting the last-N blocks once");
                assert!(c == want, "SPEC sampling: samples count differs from max(1, min(bound, blocks) - last_n)");
                kani::cover!(m > blocks && blocks - last_n < last_n, "the bound exceeds a short gap");
            }
        }
        kani::cover!(c > 1000, "many samples");
    }
    fn sample_blocks_wellformed<const EXTRA: u64>() {
        let last_n: u64 = kani::any(); kani::assume(last_n >= 1 && last_n <= 3);
        let start_number: u64 = kani::any(); let last_number: u64 = kani::any();
        // the sampling branch: more than last-N blocks are missing; at most 3 samples (loop bound)
        kani::assume(last_number > start_number && last_number - start_number > last_n && last_number - start_number <= last_n + EXTRA);
        let start_td = U256(kani::any()); let last_td = U256(kani::any());
        // total difficulty grows by at least 1 per block
        kani::assume(last_td.0 > start_td.0 && (last_td.0 - start_td.0) as u64 >= last_number - start_number && last_td.0 - start_td.0 < (1 << 16));
        let (boundary, ds) = sample_blocks(start_number, &start_td, last_number, &last_td, last_n);
        assert!(boundary.0 > start_td.0 && boundary.0 <= last_td.0, "SPEC sampling: difficulty boundary outside (start total difficulty, last total difficulty]");
        assert!(ds.len >= 1 && ds.len as u64 <= last_number - start_number - last_n, "SPEC sampling: number of distinct samples outside [1, blocks - last_n]");
        let mut i = 0;
        while i < CAP {
            if i < ds.len { assert!(ds.buf[i].0 >= start_td.0 && ds.buf[i].0 < boundary.0, "SPEC sampling: a sampled difficulty lies outside [start, boundary)"); }
            if i + 1 < ds.len { assert!(ds.buf[i].0 < ds.buf[i + 1].0, "SPEC sampling: sampled difficulties not strictly increasing / not unique"); }
            i += 1;
        }
        kani::cover!(ds.len as u64 == EXTRA, "the maximal number of distinct samples");
    }
    #[kani::proof] #[kani::unwind(7)] fn sample_blocks_q() { sample_blocks_wellformed::<1>(); }
    #[kani::proof] #[kani::unwind(7)] fn sample_blocks_t() { sample_blocks_wellformed::<3>(); }
}
