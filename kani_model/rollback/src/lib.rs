// K-model unit `rollback`: real text of Storage::rollback_to_block and Storage::get_transaction (storage.rs) with the real key encoding
// (Key / KeyPrefix / Key::into_vec / append_key / extract_raw_data) over a sorted byte-level model of the history rows of the index
// (ordered reverse iteration from a seek key, point lookups of stored transactions) and an ordered log of the write batch.
// Scripts are (1-byte code hash, 1-byte hash type, <= 2 bytes of args); transactions carry <= 1 input and <= 2 outputs; hashes are
// 1-byte identifiers.
#![allow(unused, dead_code, unused_mut, static_mut_refs, non_snake_case, non_camel_case_types)]
pub const CAP: usize = 24;
#[macro_use] #[path = "../../prelude/macros.rs"] mod pmacros;
include!("../../prelude/vec_bulk.rs");
impl<'a> From<&'a [u8]> for Vec<u8> { fn from(s: &'a [u8]) -> Self { Vec::from_long(s) } }
impl AsRef<[u8]> for Vec<u8> { fn as_ref(&self) -> &[u8] { &self.buf[..self.len] } }
pub trait MConcat { fn mconcat(&self) -> Vec<u8>; }
impl<'a, const N: usize> MConcat for [&'a [u8]; N] { fn mconcat(&self) -> Vec<u8> { let mut v = Vec::new(); let mut i = 0; while i < N { v.extend_from_slice(self[i]); i += 1; } v } }
pub mod log { macro_rules! debug { ($($t:tt)*) => {{ if false { let _ = format_args!($($t)*); } }} } pub(crate) use debug; }

pub type BlockNumber = u64; pub type TxIndex = u32; pub type CpIndex = u32; pub type OutputIndex = u32; pub type CellIndex = u32;
#[derive(Clone, Copy, PartialEq, Eq, Default, Debug)] pub struct Byte32(pub u8);
impl Byte32 { pub fn as_slice(&self) -> &[u8] { std::slice::from_ref(&self.0) } pub fn to_entity(&self) -> Byte32 { *self } }
/// packed::Script: 1-byte code hash, 1-byte hash type, 0..=2 bytes of args; `as_slice()` (the molecule serialisation) = code ++ type ++ len ++ args
#[derive(Clone, Copy, PartialEq, Eq, Default, Debug)] pub struct Script { pub code: u8, pub ht: u8, pub args: [u8; 2], pub alen: usize, pub ser: [u8; 5] }
impl Script {
    pub fn of(code: u8, ht: u8, a0: u8, a1: u8, alen: usize) -> Script { let args = [if alen >= 1 { a0 } else { 0 }, if alen >= 2 { a1 } else { 0 }]; Script { code, ht, args, alen, ser: [code, ht, alen as u8, args[0], args[1]] } }
    pub fn code_hash(&self) -> B1 { B1([self.code]) } pub fn hash_type(&self) -> B1 { B1([self.ht]) } pub fn args(&self) -> Args { Args { b: self.args, n: self.alen } }
    pub fn as_slice(&self) -> &[u8] { &self.ser[..3 + self.alen] }
}
pub struct B1(pub [u8; 1]); impl B1 { pub fn as_slice(&self) -> &[u8] { &self.0[..] } }
pub struct Args { pub b: [u8; 2], pub n: usize }
pub struct ArgsRaw { pub b: [u8; 2], pub n: usize }
impl std::ops::Deref for ArgsRaw { type Target = [u8]; fn deref(&self) -> &[u8] { &self.b[..self.n] } }
impl Args { pub fn raw_data(&self) -> ArgsRaw { ArgsRaw { b: self.b, n: self.n } } pub fn len(&self) -> usize { self.n } }
#[derive(Clone, Copy, PartialEq, Eq, Debug, Default)] pub enum ScriptType { #[default] Lock, Type }
#[derive(Clone, Copy, Default)] pub struct ScriptStatus { pub script: Script, pub script_type: ScriptType, pub block_number: BlockNumber }
pub trait Unpack<T> { fn unpack(&self) -> T; }
#[derive(Clone, Copy, Default)] pub struct PU32(pub u32);
impl Unpack<u32> for PU32 { fn unpack(&self) -> u32 { self.0 } }
#[derive(Clone, Copy, Default, PartialEq, Eq, Debug)] pub struct OutPoint { pub tx: u8, pub index: u32 }
impl OutPoint { pub fn tx_hash(&self) -> Byte32 { Byte32(self.tx) } pub fn index(&self) -> PU32 { PU32(self.index) } }
#[derive(Clone, Copy, Default)] pub struct CellInput { pub prev: OutPoint }
impl CellInput { pub fn previous_output(&self) -> OutPoint { self.prev } }
pub const NTX: usize = 2;
#[derive(Clone, Copy, Default)] pub struct TxModel { pub nin: usize, pub input: CellInput }
#[derive(Clone, Copy, Default)] pub struct Transaction(pub TxModel);
pub struct InVec(pub TxModel);
impl InVec { pub fn get(&self, i: usize) -> Option<CellInput> { if i < self.0.nin { Some(self.0.input) } else { None } } }
impl Transaction {
    pub fn raw(&self) -> Transaction { *self } pub fn inputs(&self) -> InVec { InVec(self.0) }
    /// stored transaction = 1-byte identifier in the model; an unknown identifier is the real `expect("stored Transaction")` failing
    pub fn from_slice(s: &[u8]) -> std::result::Result<Transaction, ()> { unsafe { if s.len() == 1 && (s[0] as usize) < NTX { Ok(Transaction(WORLD.as_ref().unwrap().txs[s[0] as usize])) } else { Err(()) } } }
}
pub mod packed { pub use super::{Byte32, Script, Transaction}; pub struct Byte32Reader; impl Byte32Reader { pub fn from_slice_should_be_ok(s: &[u8]) -> super::Byte32 { assert!(s.len() == 1, "REAL-PANIC: stored hash does not decode"); super::Byte32(s[0]) } } }

// ---- the store --------------------------------------------------------------------------------------------------------------------
#[cfg(not(any(rb_small, rb_tiny)))] pub const NROWS: usize = 3;
#[cfg(rb_small)] pub const NROWS: usize = 2;
#[cfg(rb_tiny)] pub const NROWS: usize = 1;
#[cfg(rb_tiny)] pub const MAXS: usize = 1;
#[cfg(not(rb_tiny))] pub const MAXS: usize = 2;
pub const VCAP: usize = 13;
#[derive(Clone, Copy)] pub struct ValB { pub b: [u8; VCAP], pub len: usize }
impl std::ops::Deref for ValB { type Target = [u8]; fn deref(&self) -> &[u8] { &self.b[..self.len] } }
impl ValB { pub fn of(s: &[u8]) -> ValB { let mut b = [0u8; VCAP]; b[..s.len()].copy_from_slice(s); ValB { b, len: s.len() } } }
#[derive(Clone, Copy)] pub struct Row { pub key: Vec<u8>, pub tx: u8 }
pub struct World { pub rows: [Row; NROWS], pub nrows: usize, pub txs: [TxModel; NTX], pub tx_stored: [bool; NTX], pub tx_number: [u64; NTX], pub tx_index: [u32; NTX],
                   pub scripts: [ScriptStatus; 2], pub nscripts: usize, pub min_filtered: u64 }
pub static mut WORLD: Option<World> = None;
pub fn words(v: &Vec<u8>) -> (u128, u64) { let mut a = [0u8; 16]; a.copy_from_slice(&v.buf[0..16]); let mut b = [0u8; 8]; b.copy_from_slice(&v.buf[16..24]); (u128::from_be_bytes(a), u64::from_be_bytes(b)) }
pub fn key_lt(a: &Vec<u8>, b: &Vec<u8>) -> bool { let (a0, a1) = words(a); let (b0, b1) = words(b); a0 < b0 || (a0 == b0 && (a1 < b1 || (a1 == b1 && a.len < b.len))) }
pub fn padded(v: &Vec<u8>) -> Vec<u8> { let mut o = Vec::new(); let mut i = 0; while i < CAP { o.buf[i] = if i < v.len { v.buf[i] } else { 0 }; i += 1; } o.len = v.len; o }
pub enum Direction { Forward, Reverse }
pub enum IteratorMode<'a> { From(&'a [u8], Direction) }
// loop-free pipeline (see unit `cells`): every stage handles at most one source row per pull; only the consumer loops
pub enum Step<T> { Item(T), Skipped, End }
pub trait Pipe: Sized {
    type Item;
    fn pull_one(&mut self) -> Step<Self::Item>;
    fn take_while<P: FnMut(&Self::Item) -> bool>(self, p: P) -> TakeWhileP<Self, P> { TakeWhileP { inner: self, p, stopped: false } }
    fn filter<P: FnMut(&Self::Item) -> bool>(self, p: P) -> FilterP<Self, P> { FilterP { inner: self, p } }
    fn for_each<F: FnMut(Self::Item)>(mut self, mut f: F) { let mut k = 0; while k < NROWS + 1 { match self.pull_one() { Step::Item(x) => f(x), Step::Skipped => {}, Step::End => break } k += 1; } }
}
pub struct TakeWhileP<I, P> { inner: I, p: P, stopped: bool }
impl<I: Pipe, P: FnMut(&I::Item) -> bool> Pipe for TakeWhileP<I, P> { type Item = I::Item; fn pull_one(&mut self) -> Step<I::Item> { if self.stopped { return Step::End; } match self.inner.pull_one() { Step::Item(x) => if (self.p)(&x) { Step::Item(x) } else { self.stopped = true; Step::End }, o => o } } }
pub struct FilterP<I, P> { inner: I, p: P }
impl<I: Pipe, P: FnMut(&I::Item) -> bool> Pipe for FilterP<I, P> { type Item = I::Item; fn pull_one(&mut self) -> Step<I::Item> { match self.inner.pull_one() { Step::Item(x) => if (self.p)(&x) { Step::Item(x) } else { Step::Skipped }, o => o } } }
pub struct SnapIter { pos: usize, rev: bool }
impl Pipe for SnapIter {
    type Item = (Vec<u8>, ValB);
    fn pull_one(&mut self) -> Step<Self::Item> {
        unsafe {
            let w = WORLD.as_ref().unwrap();
            if !self.rev { if self.pos < w.nrows && self.pos < NROWS { let r = w.rows[self.pos]; self.pos += 1; Step::Item((r.key, ValB::of(&[r.tx]))) } else { Step::End } }
            else { if self.pos > 0 && self.pos <= NROWS { self.pos -= 1; let r = w.rows[self.pos]; Step::Item((r.key, ValB::of(&[r.tx]))) } else { Step::End } }
        }
    }
}
pub struct Db;
impl Db {
    pub fn iterator(&self, mode: IteratorMode) -> SnapIter {
        let IteratorMode::From(from, d) = mode; let from = padded(&Vec::from(from)); let rev = matches!(d, Direction::Reverse);
        unsafe {
            let w = WORLD.as_ref().unwrap();
            let mut lt = 0; let mut le = 0; let mut i = 0;
            while i < NROWS { if i < w.nrows { if key_lt(&w.rows[i].key, &from) { lt += 1; } if !key_lt(&from, &w.rows[i].key) { le += 1; } } i += 1; }
            SnapIter { pos: if rev { le } else { lt }, rev }
        }
    }
}
// ---- write batch: ordered log -----------------------------------------------------------------------------------------------------
pub const OPS: usize = 12;
/// key kept as two big-endian words + length (zero padded), value as one little-endian word + length: the harness compares integers, not byte strings
#[derive(Clone, Copy)] pub struct Op { pub put: bool, pub k0: u128, pub k1: u64, pub klen: usize, pub v: u64, pub vlen: usize }
pub struct Batch { pub ops: [Op; OPS], pub n: usize }
pub static mut COMMITTED: Option<Batch> = None;
pub static mut COMMITS: usize = 0;
impl Batch {
    pub fn new() -> Batch { Batch { ops: [Op { put: false, k0: 0, k1: 0, klen: 0, v: 0, vlen: 0 }; OPS], n: 0 } }
    fn add(&mut self, put: bool, k: &[u8], v: &[u8]) { assert!(self.n < OPS, "MODEL-BOUND: batch capacity"); assert!(v.len() <= 8, "MODEL-BOUND: value capacity"); let mut val = [0u8; 8]; val[..v.len()].copy_from_slice(v); let kk = padded(&Vec::from(k)); let (k0, k1) = words(&kk); self.ops[self.n] = Op { put, k0, k1, klen: kk.len, v: u64::from_le_bytes(val), vlen: v.len() }; self.n += 1; }
    pub fn put_kv<K: Into<Vec<u8>>, V: Into<Vec<u8>>>(&mut self, key: K, value: V) -> Result<(), ()> { let k: Vec<u8> = key.into(); let v: Vec<u8> = value.into(); self.add(true, &k, &v); Ok(()) }
    pub fn put<K: AsRef<[u8]>, V: AsRef<[u8]>>(&mut self, key: K, value: V) -> Result<(), ()> { self.add(true, key.as_ref(), value.as_ref()); Ok(()) }
    pub fn delete<K: AsRef<[u8]>>(&mut self, key: K) -> Result<(), ()> { self.add(false, key.as_ref(), &[]); Ok(()) }
    pub fn commit(self) -> Result<(), ()> { unsafe { COMMITTED = Some(self); COMMITS += 1; } Ok(()) }
}
pub struct Storage { pub db: Db }
impl Storage {
    fn batch(&self) -> Batch { Batch::new() }
    pub fn get_filter_scripts(&self) -> Vec<ScriptStatus> { unsafe { let w = WORLD.as_ref().unwrap(); let mut v = Vec::new(); let mut i = 0; while i < 2 { if i < w.nscripts { v.push(w.scripts[i]); } i += 1; } v } }
    pub fn get_min_filtered_block_number(&self) -> BlockNumber { unsafe { WORLD.as_ref().unwrap().min_filtered } }
    /// point lookup: TxHash(id) -> number ++ tx index ++ transaction
    fn get<K: AsRef<[u8]>>(&self, key: K) -> Result<Option<ValB>, ()> {
        unsafe {
            let w = WORLD.as_ref().unwrap(); let k = key.as_ref();
            if k.len() == 2 && k[0] == KeyPrefix::TxHash as u8 {
                let id = k[1] as usize;
                if id < NTX && w.tx_stored[id] { let mut b = [0u8; 13]; b[0..8].copy_from_slice(&w.tx_number[id].to_be_bytes()); b[8..12].copy_from_slice(&w.tx_index[id].to_be_bytes()); b[12] = id as u8; return Ok(Some(ValB::of(&b))); }
            }
            Ok(None)
        }
    }
}

include!("extracted.rs");
include!("../../prelude/kani_shim.rs");
#[cfg(test)] mod fuzz { #[test] fn fuzz_rollback() { let (ok, bad) = super::kani::fuzz(2_000_000, super::harness::rollback_any_body); eprintln!("valid samples {} failures {:?}", ok, bad); let (ok2, bad2) = super::kani::fuzz(2_000_000, super::harness::rollback_prefix_body); eprintln!("prefix-related: valid samples {} failures {:?}", ok2, bad2); assert!(bad.is_empty() && bad2.is_empty() && ok > 1000 && ok2 > 1000); } }

#[cfg(any(kani, test))]
mod harness;
