// Harness of unit `rollback` (C04 O4.2): one call of Storage::rollback_to_block(to) on an ARBITRARY sorted set of history rows.
// Ground truth is computed from the STRUCTURED fields of the rows (never from key bytes).
use super::*;

#[derive(Clone, Copy)]
pub struct HRow { pub space: u8, pub script: Script, pub number: u64, pub ti: u32, pub ci: u32, pub out: bool, pub tx: u8 }

/// a script with a CONCRETE args length: every key length is then concrete, which keeps CBMC's symbolic execution of the byte-level code cheap
fn script_of_len(alen: usize) -> Script { Script::of(kani::any(), kani::any(), kani::any(), kani::any(), alen) }
/// one script's raw data (code hash ++ hash type ++ args) is a proper prefix of the other's, or of the other's followed by key bytes:
/// same code hash / hash type and different args lengths with the shorter args a prefix of the longer, or the shorter one followed by anything
fn alias_risk(a: &Script, b: &Script) -> bool { a.code == b.code && a.ht == b.ht && a.alen != b.alen }
fn same_script(a: &Script, b: &Script) -> bool { a.code == b.code && a.ht == b.ht && a.alen == b.alen && a.args[0] == b.args[0] && a.args[1] == b.args[1] }
fn stype(space: u8) -> ScriptType { if space == 0 { ScriptType::Lock } else { ScriptType::Type } }
fn hist_key(t: ScriptType, s: &Script, n: u64, ti: u32, ci: u32, out: bool) -> Vec<u8> {
    let c = if out { CellType::Output } else { CellType::Input };
    padded(&match t { ScriptType::Lock => Key::TxLockScript(s, n, ti, ci, c).into_vec(), ScriptType::Type => Key::TxTypeScript(s, n, ti, ci, c).into_vec() })
}
fn cell_key(t: ScriptType, s: &Script, n: u64, ti: u32, oi: u32) -> Vec<u8> {
    padded(&match t { ScriptType::Lock => Key::CellLockScript(s, n, ti, oi).into_vec(), ScriptType::Type => Key::CellTypeScript(s, n, ti, oi).into_vec() })
}
fn row_key(r: &HRow) -> Vec<u8> { if r.space <= 1 { hist_key(stype(r.space), &r.script, r.number, r.ti, r.ci, r.out) } else { cell_key(ScriptType::Lock, &r.script, r.number, r.ti, r.ci) } }
fn script_key(ss: &ScriptStatus) -> Vec<u8> {
    let mut k = Key::Meta(FILTER_SCRIPTS_KEY).into_vec(); k.extend_from_slice(ss.script.as_slice()); k.push(match ss.script_type { ScriptType::Lock => 0, ScriptType::Type => 1 }); padded(&k)
}
fn min_key() -> Vec<u8> { padded(&Key::Meta(MIN_FILTERED_BLOCK_NUMBER).into_vec()) }
/// a key as two big-endian words + length (keys are zero padded): integer comparisons instead of byte loops
#[derive(Clone, Copy, PartialEq, Eq)] pub struct KW { k0: u128, k1: u64, len: usize }
fn kw(k: &Vec<u8>) -> KW { let (k0, k1) = words(k); KW { k0, k1, len: k.len } }
fn is(o: &Op, k: &KW) -> bool { o.k0 == k.k0 && o.k1 == k.k1 && o.klen == k.len }
fn val(v: &[u8]) -> u64 { let mut b = [0u8; 8]; let mut i = 0; while i < 8 { if i < v.len() { b[i] = v[i]; } i += 1; } u64::from_le_bytes(b) }
fn batch() -> &'static Batch { unsafe { COMMITTED.as_ref().unwrap() } }
/// index of the first op (put / delete) with that key
fn find(put: bool, k: &Vec<u8>) -> Option<usize> { let b = batch(); let k = kw(k); let mut r = None; let mut i = OPS; while i > 0 { i -= 1; if i < b.n { let o = b.ops[i]; if o.put == put && is(&o, &k) { r = Some(i); } } } r }
fn find_put_val(k: &Vec<u8>, v: &[u8]) -> Option<usize> { let b = batch(); let k = kw(k); let vv = val(v); let mut r = None; let mut i = OPS; while i > 0 { i -= 1; if i < b.n { let o = b.ops[i]; if o.put && is(&o, &k) && o.vlen == v.len() && o.v == vv { r = Some(i); } } } r }
fn touched(k: &Vec<u8>) -> bool { let b = batch(); let k = kw(k); let mut t = false; let mut i = 0; while i < OPS { if i < b.n { let o = b.ops[i]; if is(&o, &k) { t = true; } } i += 1; } t }

pub fn rollback_step<const A0: usize, const A1: usize, const A2: usize>(prefix_related: bool) {
    let to: u64 = kani::any();
    // registered scripts (distinct)
    let nscripts: usize = kani::any(); kani::assume(nscripts <= MAXS);
    let s0 = script_of_len(A0);
    // prefix_related: s1 continues s0 by one args byte (A1 == A0 + 1)
    let s1 = if prefix_related { let x: u8 = kani::any(); if A0 == 0 { Script::of(s0.code, s0.ht, x, 0, 1) } else { Script::of(s0.code, s0.ht, s0.args[0], x, 2) } } else { script_of_len(A1) };
    let scripts = [ScriptStatus { script: s0, script_type: if kani::any() { ScriptType::Lock } else { ScriptType::Type }, block_number: kani::any() },
                   ScriptStatus { script: s1, script_type: if kani::any() { ScriptType::Lock } else { ScriptType::Type }, block_number: kani::any() }];
    if nscripts == 2 { kani::assume(!(same_script(&s0, &s1) && scripts[0].script_type == scripts[1].script_type)); if !prefix_related { kani::assume(!alias_risk(&s0, &s1)); } }
    // stored transactions: <= 1 input each
    let mut txs = [TxModel::default(); NTX]; let mut i = 0;
    while i < NTX { let nin: usize = kani::any(); kani::assume(nin <= 1); let ptx: u8 = kani::any(); kani::assume(ptx <= NTX as u8); let pidx: u32 = kani::any(); txs[i] = TxModel { nin, input: CellInput { prev: OutPoint { tx: ptx, index: pidx } } }; i += 1; }
    let tx_number: [u64; NTX] = [kani::any(), kani::any()]; let tx_index: [u32; NTX] = [kani::any(), kani::any()];
    let tx_stored: [bool; NTX] = [kani::any(), kani::any()];
    // history rows: of the registered scripts or of any other script / key space
    let nrows: usize = kani::any(); kani::assume(nrows <= NROWS);
    let mut hr = [HRow { space: 0, script: s0, number: 0, ti: 0, ci: 0, out: false, tx: 0 }; NROWS];
    let mut rows = [Row { key: Vec::new(), tx: 0 }; NROWS];
    let mut i = 0;
    while i < NROWS {
        let which: u8 = kani::any(); let space: u8 = kani::any(); kani::assume(space <= 2);
        let script = if which == 0 { s0 } else if which == 1 { s1 } else { script_of_len(A2) };
        let tx: u8 = kani::any(); kani::assume((tx as usize) < NTX);
        let r = HRow { space, script, number: kani::any(), ti: kani::any(), ci: kani::any(), out: kani::any(), tx };
        kani::assume(r.number < u64::MAX);     // the reverse scan starts at prefix ++ u64::MAX: a row AT block 2^64-1 lies beyond it (not a reachable block number)
        if i < nrows && space <= 1 {
            // invariants of the index (what filter_block writes): a history row points at a stored transaction; an input row at one of its inputs;
            // an input spends an output of an EARLIER transaction
            kani::assume(tx_stored[tx as usize]);
            if !r.out { kani::assume((r.ci as usize) < txs[tx as usize].nin);
                let p = txs[tx as usize].input.prev; if (p.tx as usize) < NTX && tx_stored[p.tx as usize] { let (pn, pi) = (tx_number[p.tx as usize], tx_index[p.tx as usize]); kani::assume(pn < r.number || (pn == r.number && pi < r.ti)); } }
        }
        if !prefix_related && i < nrows {
            // rollback_any: no row belongs to a script that could alias a registered one (decided separately by rollback_prefix_related)
            let mut j = 0; while j < 2 { if j < nscripts { kani::assume(!alias_risk(&scripts[j].script, &r.script)); } j += 1; }
        }
        hr[i] = r; rows[i] = Row { key: row_key(&r), tx };
        i += 1;
    }
    let mut i = 0; while i + 1 < NROWS { if i + 1 < nrows { kani::assume(key_lt(&rows[i].key, &rows[i + 1].key)); } i += 1; }
    let min_filtered: u64 = kani::any();
    unsafe { COMMITTED = None; COMMITS = 0; WORLD = Some(World { rows, nrows, txs, tx_stored, tx_number, tx_index, scripts, nscripts, min_filtered }); }

    Storage { db: Db }.rollback_to_block(to);

    unsafe { assert!(COMMITS == 1, "SPEC rollback: the rollback must be one atomic batch"); }
    let b = batch();
    // which registered script (rolled back: recorded at or above `to`) owns row i
    let owner = |r: &HRow| -> Option<usize> { let mut o = None; let mut j = 0; while j < 2 { if j < nscripts && r.space <= 1 && same_script(&scripts[j].script, &r.script) && scripts[j].script_type == stype(r.space) && scripts[j].block_number >= to && r.number >= to { o = Some(j); } j += 1; } o };
    let mut expected = 0usize; let mut hazard = false; let mut restored = false;
    let mut i = 0;
    while i < NROWS {
        if i < nrows {
            let r = hr[i]; let k = rows[i].key;
            match owner(&r) {
                None => assert!(!touched(&k), "SPEC rollback: a row of another script, of a script recorded below the fork point, or of a block below it is deleted / overwritten"),
                Some(_) => {
                    let t = stype(r.space);
                    assert!(find(false, &k).is_some(), "SPEC rollback: the history row of a rolled-back block is not deleted");
                    expected += 1;
                    if r.out {
                        let ck = cell_key(t, &r.script, r.number, r.ti, r.ci);
                        let d = find(false, &ck);
                        assert!(d.is_some(), "SPEC rollback: the live cell created in a rolled-back block is not deleted");
                        expected += 1;
                        // if the same cell is also restored by a rolled-back spend, the deletion must come last
                        if let Some(p) = find(true, &ck) { hazard = true; assert!(d.unwrap() > p, "SPEC rollback: a cell created AND spent above the fork point is restored after it was deleted (it stays live)"); }
                    } else {
                        let p = txs[r.tx as usize].input.prev;
                        if (p.tx as usize) < NTX && tx_stored[p.tx as usize] {
                            let ck = cell_key(t, &r.script, tx_number[p.tx as usize], tx_index[p.tx as usize], p.index);
                            assert!(find_put_val(&ck, &[p.tx]).is_some(), "SPEC rollback: the cell spent in a rolled-back block is not restored as live (right creating block / tx index / output index -> creating tx hash)");
                            expected += 1; restored = true;
                        }
                    }
                }
            }
        }
        i += 1;
    }
    let mut j = 0;
    while j < 2 { if j < nscripts { let sk = script_key(&scripts[j]);
        if scripts[j].block_number >= to { assert!(find_put_val(&sk, &to.to_be_bytes()).is_some(), "SPEC rollback: a rolled-back script is not re-recorded at the fork point"); expected += 1; }
        else { assert!(!touched(&sk), "SPEC rollback: a script recorded below the fork point is changed"); } } j += 1; }
    if min_filtered >= to { assert!(find_put_val(&min_key(), &to.saturating_sub(1).to_le_bytes()).is_some(), "SPEC rollback: MIN_FILTERED_NUMBER is not rewound to fork point - 1"); expected += 1; }
    else { assert!(!touched(&min_key()), "SPEC rollback: MIN_FILTERED_NUMBER changed although it lies below the fork point"); }
    assert!(b.n == expected, "SPEC rollback: the batch holds operations beyond the rollback of the rolled-back rows (phantom cells restored, rows of other scripts deleted, ...)");
    kani::cover!(restored, "a spent cell is restored");
    kani::cover!(hazard, "a cell created and spent above the fork point");
    kani::cover!(nrows == NROWS && expected >= 4, "several rows rolled back");
}

/// every pair of args lengths of the two registered scripts, one third-party length each (quick tier)
pub fn rollback_any_body() {
    let sel: u8 = kani::any(); kani::assume(sel < 9);
    match sel { 0 => rollback_step::<0, 0, 0>(false), 1 => rollback_step::<1, 1, 1>(false), 2 => rollback_step::<2, 2, 2>(false), 3 => rollback_step::<0, 1, 2>(false), 4 => rollback_step::<1, 2, 0>(false),
                5 => rollback_step::<2, 0, 1>(false), 6 => rollback_step::<0, 2, 1>(false), 7 => rollback_step::<1, 0, 2>(false), _ => rollback_step::<2, 1, 0>(false) }
}
pub fn rollback_prefix_body() {
    let sel: u8 = kani::any(); kani::assume(sel < 6);
    match sel { 0 => rollback_step::<0, 1, 0>(true), 1 => rollback_step::<0, 1, 1>(true), 2 => rollback_step::<0, 1, 2>(true), 3 => rollback_step::<1, 2, 0>(true), 4 => rollback_step::<1, 2, 1>(true), _ => rollback_step::<1, 2, 2>(true) }
}
#[cfg(kani)] #[kani::proof] #[kani::unwind(26)] pub fn rollback_any() { rollback_any_body(); }
#[cfg(kani)] #[kani::proof] #[kani::unwind(26)] pub fn rollback_prefix_related() { rollback_prefix_body(); }
