// K-model unit `ufs`: real text of Storage::update_filter_scripts, is_filter_scripts_empty, get/update_min_filtered_block_number,
// clear_matched_blocks, update_block_number (storage.rs) over the byte-level sorted key/value store model.
// Quick flavour: `Key::Meta(name).into_vec()` is abstracted to a 1-byte tag per name (the names themselves are extracted from
// storage.rs and checked to be pairwise prefix-free, which is what justifies the abstraction).
#![allow(unused, dead_code, unused_mut, static_mut_refs, non_snake_case)]
pub const CAP: usize = 3;
#[cfg(not(ufs_small))] pub const NS: usize = 3;
#[cfg(not(ufs_small))] pub const MREC: usize = 2;
// quick tier (RUSTFLAGS=--cfg ufs_small): 2 script identities, 1 pending record
#[cfg(ufs_small)] pub const NS: usize = 2;
#[cfg(ufs_small)] pub const MREC: usize = 1;
pub const BCAP: usize = 6;
pub const VCAP: usize = 8;
#[macro_use] #[path = "../../prelude/macros.rs"] mod pmacros;
include!("../../prelude/vec.rs");
include!("../../prelude/kvstore_meta.rs");
pub type BlockNumber = u64;
#[derive(Clone, Copy, PartialEq, Eq, Default, Debug)]
pub struct Script { pub bytes: [u8; 2] }
impl Script {
    pub fn as_slice(&self) -> &[u8] { &self.bytes[..] }
    pub fn from_slice(s: &[u8]) -> Result<Script, ()> { if s.len() == 2 { Ok(Script { bytes: [s[0], s[1]] }) } else { Err(()) } }
}
#[derive(Clone, Copy, Default)] pub struct Block;
pub enum Key<'a> { Meta(&'a str) }
pub fn meta_tag(name: &str) -> u8 {
    // one byte per Meta name, in the byte order of the real names (F < G < L < MA < MI)
    let b = name.as_bytes();
    match (b.len(), b[0], b[1]) { (14, b'F', _) => 0xE1, (13, b'G', _) => 0xE2, (10, b'L', _) => 0xE3, (14, b'L', _) => 0xE4, (14, b'M', b'A') => 0xE5, (21, b'M', b'A') => 0xE6, (19, b'M', b'I') => 0xE7, _ => panic!("MODEL-BOUND: unknown Meta key name") }
}
impl<'a> Key<'a> { pub fn into_vec(self) -> ByteVec { let Key::Meta(n) = self; let mut v = ByteVec::new(); v.push(meta_tag(n)); v } }
pub static mut GENESIS_FILTERED: usize = 0;
pub struct Storage { pub db: DbHandle }
impl Storage {
    fn batch(&self) -> Batch { Batch::new() }
    pub fn get_genesis_block(&self) -> Block { Block }
    pub fn filter_block(&self, _b: Block) { unsafe { GENESIS_FILTERED += 1; } }
}
impl Default for ScriptType { fn default() -> Self { ScriptType::Lock } }
impl Clone for ScriptType { fn clone(&self) -> Self { match self { ScriptType::Lock => ScriptType::Lock, ScriptType::Type => ScriptType::Type } } }
impl Copy for ScriptType {}
impl Clone for ScriptStatus { fn clone(&self) -> Self { ScriptStatus { script: self.script, script_type: self.script_type, block_number: self.block_number } } }
impl Copy for ScriptStatus {}
impl Default for ScriptStatus { fn default() -> Self { ScriptStatus { script: Script::default(), script_type: ScriptType::Lock, block_number: 0 } } }

include!("extracted.rs");

#[cfg(kani)]
mod harness {
    use super::*;
    // script identities 0..NS (lock scripts with bytes [id+1, 7])
    fn skey(id: usize) -> ByteVec { let mut k = ByteVec::new(); k.push(0xE1); k.push(id as u8 + 1); k.push(7); k.push(0); k }
    fn mkey(start: u64) -> ByteVec { let mut k = ByteVec::new(); k.push(0xE5); k.extend_from_slice(&start.to_be_bytes()); k }
    fn minkey() -> ByteVec { let mut k = ByteVec::new(); k.push(0xE7); k }
    unsafe fn number_of(id: usize) -> Option<u64> { u64_be(DB.scripts[id * 2]) }
    unsafe fn pending_count() -> usize { DB.nmatched }

    struct Pre { num: [Option<u64>; NS], min: u64, npending: usize }
    unsafe fn arbitrary_store(max_pending: usize) -> Pre {
        DB.reset(); GENESIS_FILTERED = 0;
        let min: u64 = kani::any();
        DB.put_raw(&minkey(), &min.to_le_bytes());
        let mut num = [None; NS]; let mut cnt = 0; let mut i = 0;
        while i < NS { if kani::any() && cnt < 2 { let n: u64 = kani::any(); num[i] = Some(n); DB.put_raw(&skey(i), &n.to_be_bytes()); cnt += 1; } i += 1; }
        let npending: usize = kani::any(); kani::assume(npending <= max_pending);
        // pending records exist only while scripts are registered; starts arbitrary and distinct
        if cnt == 0 { kani::assume(npending == 0); }
        let s1: u64 = kani::any(); let s2: u64 = kani::any(); kani::assume(s1 != s2);
        kani::assume(npending <= MREC);
        if npending >= 1 { DB.put_raw(&mkey(s1), &[1u8; 8]); }
        if npending >= 2 { DB.put_raw(&mkey(s2), &[1u8; 8]); }
        // invariant J (what block-filter processing maintains): a script's number lags MIN only while records are pending
        if npending == 0 { let mut i = 0; while i < NS { if let Some(n) = num[i] { kani::assume(n >= min); } i += 1; } }
        Pre { num, min, npending }
    }

    fn set_scripts<const NCMD: usize, const MAXP: usize, const CMD: u8>() {
        let st = Storage { db: DbHandle };
        let pre = unsafe { arbitrary_store(MAXP) };
        let cmd: u8 = if CMD < 3 { CMD } else { let c: u8 = kani::any(); kani::assume(c < 3); c };
        let n: usize = kani::any(); kani::assume(n <= NCMD);
        let mut scripts = Vec::new(); let mut ids = [0usize; 2]; let mut nums = [0u64; 2];
        let mut i = 0;
        while i < 2 { if i < n { let id: usize = kani::any(); kani::assume(id < NS); let b: u64 = kani::any(); ids[i] = id; nums[i] = b;
            scripts.push(ScriptStatus { script: Script { bytes: [id as u8 + 1, 7] }, script_type: ScriptType::Lock, block_number: b }); } i += 1; }
        let command = match cmd { 0 => SetScriptsCommand::All, 1 => SetScriptsCommand::Partial, _ => SetScriptsCommand::Delete };
        st.update_filter_scripts(scripts, command);
        unsafe {
            // ---- documented script set ----
            let mut want = pre.num;
            if cmd == 0 { want = [None; NS]; }
            let mut i = 0;
            while i < 2 { if i < n { if cmd == 2 { want[ids[i]] = None; } else { want[ids[i]] = Some(nums[i]); } } i += 1; }
            let mut i = 0;
            while i < NS { assert!(number_of(i) == want[i], "SPEC set_scripts: resulting script set / start numbers are not the documented replace / upsert / remove"); i += 1; }
            let min1 = st.get_min_filtered_block_number();
            if n == 0 && cmd != 0 {
                // documented early return: nothing changes at all
                assert!(min1 == pre.min && pending_count() == pre.npending && DB.writes == 0, "SPEC set_scripts: empty partial / delete must change nothing");
            } else {
                assert!(pending_count() == 0, "SPEC set_scripts: pending matched-block records were not discarded");
                // the pending records are gone, so every script still registered must get every block after its own number
                let mut i = 0;
                while i < NS { if let Some(x) = want[i] { assert!(min1 <= x, "SPEC set_scripts: a script that is still registered has its recorded block number below MIN_FILTERED while the pending matched blocks were discarded (blocks after its number are never examined)"); } i += 1; }
                // genesis is filtered when a script starts at 0
                let mut zero = false; let mut i = 0; while i < 2 { if i < n && nums[i] == 0 && cmd != 2 { zero = true; } i += 1; }
                assert!((GENESIS_FILTERED > 0) == zero, "SPEC set_scripts: genesis block filtered iff a given script starts at 0");
            }
            kani::cover!(pre.npending > 0 && n == NCMD && (NCMD < 2 || cmd != 0 || ids[0] == ids[1]), "the command with pending records (replace: with a duplicated script when two are given)");
        }
    }
    #[kani::proof] #[kani::unwind(10)] fn set_scripts_all_q() { set_scripts::<1, 1, 0>(); }
    #[kani::proof] #[kani::unwind(10)] fn set_scripts_partial_q() { set_scripts::<1, 1, 1>(); }
    #[kani::proof] #[kani::unwind(10)] fn set_scripts_delete_q() { set_scripts::<1, 1, 2>(); }
    #[kani::proof] #[kani::unwind(10)] fn set_scripts_t() { set_scripts::<2, 2, 3>(); }

    /// O8.1: crash at any write boundary of update_filter_scripts.  `DB.crash_after = k`: the first k write operations (a batch is
    /// one atomic operation) take effect, the rest are lost.  Recoverability invariant R2 = J: on the surviving store a script's
    /// recorded number may lag MIN_FILTERED only while matched-block records are pending.
    #[kani::proof] #[kani::unwind(10)]
    fn set_scripts_crash() {
        let st = Storage { db: DbHandle };
        let pre = unsafe { arbitrary_store(1) };
        let k: usize = kani::any(); kani::assume(k <= 5);
        unsafe { DB.crash_after = k; }
        let cmd: u8 = kani::any(); kani::assume(cmd < 3);
        let n: usize = kani::any(); kani::assume(n >= 1 && n <= 2);
        let mut scripts = Vec::new(); let mut i = 0;
        // scripts that start above genesis (a start at 0 additionally re-filters the genesis block; not part of this obligation)
        while i < 2 { if i < n { let id: usize = kani::any(); kani::assume(id < NS); let b: u64 = kani::any(); kani::assume(b > 0);
            scripts.push(ScriptStatus { script: Script { bytes: [id as u8 + 1, 7] }, script_type: ScriptType::Lock, block_number: b }); } i += 1; }
        let command = match cmd { 0 => SetScriptsCommand::All, 1 => SetScriptsCommand::Partial, _ => SetScriptsCommand::Delete };
        st.update_filter_scripts(scripts, command);
        unsafe {
            let total = DB.writes;                   // write operations the complete run performs
            let min1 = u64_le(DB.min).unwrap_or(0);
            let mut i = 0;
            while i < NS {
                if let Some(x) = number_of(i) { if x < min1 { assert!(pending_count() > 0, "SPEC crash: after a crash inside set_scripts a registered script has its recorded number below MIN_FILTERED with no pending matched blocks: the blocks in between are never examined"); } }
                i += 1;
            }
            kani::cover!(k < total && k >= 1, "a crash strictly inside the operation");
            kani::cover!(k >= total, "no crash");
        }
    }

    /// O9.2: update_block_number(n) only raises numbers below n to exactly n
    #[kani::proof] #[kani::unwind(10)]
    fn raise_numbers() {
        let st = Storage { db: DbHandle };
        let pre = unsafe { arbitrary_store(1) };
        let n: u64 = kani::any();
        st.update_block_number(n);
        unsafe {
            let mut i = 0;
            while i < NS { match pre.num[i] { None => assert!(number_of(i).is_none(), "SPEC block number: a script appeared"), Some(x) => assert!(number_of(i) == Some(if x < n { n } else { x }), "SPEC block number: update_block_number must raise numbers below n to exactly n and leave the others") } i += 1; }
            assert!(st.get_min_filtered_block_number() == pre.min && pending_count() == pre.npending, "SPEC block number: other keys changed");
            kani::cover!(pre.num[0].is_some() && pre.num[1].is_some(), "two scripts");
        }
    }
}
