// K-model unit `syncarm`: real text of the SendBlock arm of SyncProtocol::received (synchronizer.rs), wrapped as a method, plus the
// real Peers::{add_block, all_matched_blocks_downloaded, clear_matched_blocks, add_matched_blocks}, Peer::add_block and BlocksRequest
// (peers.rs), over models of Storage (with a crash counter), the network context and ckb-types' Block / BlockView.
#![allow(unused, dead_code, unused_mut, static_mut_refs, non_snake_case)]
use std::ops::{Deref, DerefMut};
pub const CAP: usize = 3;
pub const MAP_CAP: usize = 3;
pub const DM_CAP: usize = 1;
pub const INIT_BLOCKS_IN_TRANSIT_PER_PEER: usize = 16;
pub const BAD_MESSAGE_BAN_TIME: u64 = 300;
#[macro_use] #[path = "../../prelude/macros.rs"] mod pmacros;
include!("../../prelude/vec.rs");
include!("../../prelude/hashmap.rs");
include!("../../prelude/dashmap.rs");
include!("../../prelude/u256.rs");
include!("../../prelude/epoch.rs");
include!("../../prelude/lc_types.rs");
include!("../../prelude/uf.rs");
pub static mut H_TX: Uf = Uf::new();    // merkle root of the transactions (+ witnesses) of a body
pub static mut H_AUX: Uf = Uf::new();   // extra hash of (uncles, extension)
pub mod packed {
    use super::*;
    pub use super::Byte32;
    /// ckb-types packed::Block: header (hash id, number, transactions_root, extra_hash) + body id + (uncles, extension) id
    #[derive(Clone, Copy, Default, PartialEq, Eq, Debug)]
    pub struct Block { pub id: u8, pub number: u64, pub timestamp: u64, pub tx_root: u8, pub extra: u8, pub body: u8, pub aux: u8 }
    impl Block {
        pub fn header(&self) -> PHeader { PHeader(HeaderView { id: self.id, number: self.number, timestamp: self.timestamp, tx_root: self.tx_root, extra_hash: self.extra, ..Default::default() }) }
        /// ckb-types: "converts into a BlockView without resetting the header"
        pub fn into_view_without_reset_header(self) -> BlockView { BlockView { b: self } }
        /// ckb-types: "calculates transaction associated hashes, RESETS all hashes and merkle roots in the header"
        pub fn into_view(self) -> BlockView {
            let mut b = self; let t = unsafe { H_TX.apply(b.body as u64) }; let x = unsafe { H_AUX.apply(b.aux as u64) };
            if b.tx_root != t || b.extra != x { b.tx_root = t; b.extra = x; b.id ^= 0x80; }
            BlockView { b }
        }
    }
    #[derive(Clone, Copy)] pub struct SendBlock { pub b: Block }
    impl SendBlock { pub fn block(&self) -> Block { self.b } }
    pub struct SendBlockReader<'a> { pub e: &'a Block }
    impl<'a> SendBlockReader<'a> { pub fn to_entity(&self) -> SendBlock { SendBlock { b: *self.e } } }
    #[derive(Clone, Copy, Default)] pub struct Header;
}
#[derive(Clone, Copy)] pub struct BlockView { pub b: packed::Block }
pub struct ExtraHashView(pub u8);
impl ExtraHashView { pub fn extra_hash(&self) -> Byte32 { Byte32(self.0) } }
impl BlockView {
    pub fn calc_transactions_root(&self) -> Byte32 { unsafe { Byte32(H_TX.apply(self.b.body as u64)) } }
    pub fn transactions_root(&self) -> Byte32 { Byte32(self.b.tx_root) }
    pub fn calc_extra_hash(&self) -> ExtraHashView { unsafe { ExtraHashView(H_AUX.apply(self.b.aux as u64)) } }
    pub fn extra_hash(&self) -> Byte32 { Byte32(self.b.extra) }
    pub fn hash(&self) -> Byte32 { Byte32(self.b.id) }
}
// ---- ghost -----------------------------------------------------------------------------------------------------
#[derive(Clone, Copy, PartialEq, Eq, Debug)] pub enum Ev { None, Remove(u64), Filter(u8, u8), BlockNumber(u64) }
pub struct Ghost { pub ev: [Ev; 6], pub n: usize, pub banned: bool, pub locked: bool, pub write_unlocked: bool, pub writes: usize, pub crash_after: usize, pub asked_more: bool, pub nfilt: usize, pub last_num: u64, pub out_of_order: bool }
pub static mut G: Ghost = Ghost { ev: [Ev::None; 6], n: 0, banned: false, locked: false, write_unlocked: false, writes: 0, crash_after: usize::MAX, asked_more: false, nfilt: 0, last_num: 0, out_of_order: false };
/// one storage write operation: takes effect only before the crash point
fn admit(e: Ev) -> bool { unsafe { if !G.locked { G.write_unlocked = true; } let ok = G.writes < G.crash_after; G.writes += 1; if ok { assert!(G.n < 6, "MODEL-BOUND: ghost log"); G.ev[G.n] = e; G.n += 1; } ok } }
// ---- storage model: pending matched-block records ----------------------------------------------------------------
pub type Record = (u64, u64, Vec<(Byte32, bool)>);
pub static mut RECORDS: [Option<Record>; 2] = [None, None];   // sorted by start number
pub struct Storage;
impl Storage {
    pub fn get_earliest_matched_blocks(&self) -> Option<Record> { unsafe { if RECORDS[0].is_some() { RECORDS[0] } else { RECORDS[1] } } }
    pub fn get_latest_matched_blocks(&self) -> Option<Record> { unsafe { if RECORDS[1].is_some() { RECORDS[1] } else { RECORDS[0] } } }
    pub fn remove_matched_blocks(&self, start: u64) { if admit(Ev::Remove(start)) { unsafe { let mut i = 0; while i < 2 { if let Some(r) = RECORDS[i] { if r.0 == start { RECORDS[i] = None; } } i += 1; } } } }
    pub fn filter_block(&self, b: packed::Block) { if admit(Ev::Filter(b.id, b.body)) { unsafe { if G.nfilt > 0 && b.number < G.last_num { G.out_of_order = true; } G.last_num = b.number; G.nfilt += 1; } } }
    pub fn update_block_number(&self, n: u64) { admit(Ev::BlockNumber(n)); }
    pub fn get_tip_header(&self) -> packed::Header { packed::Header }
}
// ---- peers -----------------------------------------------------------------------------------------------------
pub type Matched = HashMap<H256, (bool, Option<packed::Block>)>;
pub struct Guard<'a> { m: &'a mut Matched }
impl<'a> Deref for Guard<'a> { type Target = Matched; fn deref(&self) -> &Matched { self.m } }
impl<'a> DerefMut for Guard<'a> { fn deref_mut(&mut self) -> &mut Matched { self.m } }
impl<'a> Drop for Guard<'a> { fn drop(&mut self) { unsafe { G.locked = false; } } }
pub struct RwLock { pub inner: std::cell::UnsafeCell<Matched> }
impl RwLock { pub fn write(&self) -> Result<Guard<'_>, ()> { unsafe { G.locked = true; Ok(Guard { m: &mut *self.inner.get() }) } } }
#[derive(Clone, Default)] pub struct Peer { pub blocks_request: Option<BlocksRequest> }
pub struct Peers { pub inner: DashMap<PeerIndex, Peer>, pub matched_blocks: RwLock }
impl Peers { pub fn matched_blocks(&self) -> &RwLock { &self.matched_blocks } }
pub struct Arc<T: 'static>(pub &'static T);
impl<T> Arc<T> { pub fn clone(a: &Arc<T>) -> Arc<T> { Arc(a.0) } pub fn as_ref(&self) -> &T { self.0 } }
impl<T> Deref for Arc<T> { type Target = T; fn deref(&self) -> &T { self.0 } }
pub struct Nc;
impl Nc { pub fn ban_peer(&self, _p: PeerIndex, _d: u64, _r: String) { unsafe { G.banned = true; } } }
pub fn prove_or_download_matched_blocks(_p: Arc<Peers>, _t: &packed::Header, _m: &Matched, _nc: &Nc, _n: usize) { unsafe { G.asked_more = true; } }
pub struct SyncProtocol { pub storage: Storage, pub peers: Arc<Peers> }

include!("extracted.rs");

#[cfg(kani)]
mod harness {
    use super::*;
    static NC: Nc = Nc;
    fn committed(b: &packed::Block) -> bool { unsafe { H_TX.apply(b.body as u64) == b.tx_root && H_AUX.apply(b.aux as u64) == b.extra } }
    fn any_block(id: u8) -> packed::Block { packed::Block { id, number: kani::any(), timestamp: kani::any(), tx_root: kani::any(), extra: kani::any(), body: kani::any(), aux: kani::any() } }
    fn count(e: Ev) -> usize { unsafe { let mut c = 0; let mut i = 0; while i < G.n { if G.ev[i] == e { c += 1; } i += 1; } c } }

    /// Representation invariant of (stored records, in-memory matched blocks): the in-memory map holds exactly the hashes of the
    /// earliest stored record; a block already downloaded was accepted earlier (proved entry, committed body, right hash).
    struct Pre { rec: Record, m0: Matched, nrec: usize }
    unsafe fn arbitrary_state() -> Pre {
        G.n = 0; G.banned = false; G.locked = false; G.write_unlocked = false; G.writes = 0; G.asked_more = false; G.nfilt = 0; G.last_num = 0; G.out_of_order = false;
        let start: u64 = kani::any(); let cnt: u64 = kani::any(); kani::assume(cnt >= 1 && start >= 1 && start.checked_add(cnt).is_some());
        let nh: usize = kani::any(); kani::assume(nh >= 1 && nh <= 2);
        let mut hs = Vec::new(); let mut m = HashMap::new();
        let mut i = 0;
        while i < 2 { if i < nh { let h: u8 = kani::any(); kani::assume(h < 3); let proved: bool = kani::any(); hs.push((Byte32(h), proved));
            if m.get(&H256(h)).is_none() { let have: bool = kani::any(); let mut blk = None;
                if have { let b = any_block(h); kani::assume(committed(&b) && proved); blk = Some(b); }
                m.insert(H256(h), (proved || kani::any(), blk)); } } i += 1; }
        let rec = (start, cnt, hs);
        RECORDS = [Some(rec), None];
        let nrec: usize = if kani::any() { 2 } else { 1 };
        if nrec == 2 { let s2: u64 = kani::any(); kani::assume(s2 > start); let mut h2 = Vec::new(); h2.push((Byte32(kani::any()), kani::any())); RECORDS[1] = Some((s2, 1, h2)); }
        Pre { rec, m0: m, nrec }
    }

    fn send_block<const CRASH: bool>() {
        let pre = unsafe { arbitrary_state() };
        unsafe { G.crash_after = if CRASH { kani::any() } else { usize::MAX }; }
        let peers: &'static Peers = Box::leak(Box::new(Peers { inner: DashMap::new(), matched_blocks: RwLock { inner: std::cell::UnsafeCell::new(pre.m0) } }));
        let mut sp = SyncProtocol { storage: Storage, peers: Arc(peers) };
        let hid: u8 = kani::any(); kani::assume(hid < 3);
        let blk = any_block(hid);
        let ok_body = committed(&blk);
        let reader = packed::SendBlockReader { e: &blk };
        sp.send_block_arm(Arc(&NC), PeerIndex(0), reader);
        let m1 = unsafe { &*peers.matched_blocks.inner.get() };
        unsafe {
            assert!(!G.write_unlocked, "SPEC block arrival: storage written outside the matched_blocks write lock");
            if !ok_body {
                // C02: the right header with a different body
                assert!(G.n == 0 && G.banned, "SPEC body commitment: a block whose body is not committed by its header (transactions root / extra hash) was not rejected");
                let mut i = 0; while i < MAP_CAP { if i < m1.len { assert!(m1.vals[i].1 == pre.m0.get(&m1.keys[i]).unwrap().1, "SPEC body commitment: an uncommitted body was stored"); } i += 1; }
                return;
            }
            // every indexed block: committed body, hash recorded in the earliest record, marked proved; at most once
            let mut nf = 0; let mut i = 0;
            while i < 6 {
                if i < G.n { if let Ev::Filter(id, body) = G.ev[i] {
                    nf += 1;
                    let e = pre.m0.get(&H256(id));
                    assert!(e.is_some() && e.unwrap().0, "SPEC block arrival: a block that is not a proved matched block was indexed");
                    let src = if id == blk.id { blk } else { e.unwrap().1.unwrap() };   // a re-sent proved block replaces the stored copy
                    assert!(src.body == body && committed(&src), "SPEC block arrival: indexed body is not the committed body of that header");
                    assert!(count(Ev::Filter(id, body)) == 1, "SPEC block arrival: a block was indexed twice");
                } }
                i += 1;
            }
            // filter_block recognises a spent cell only if the creating transaction is already indexed: the blocks of a record go in CHAIN order
            assert!(!G.out_of_order, "SPEC block arrival: the matched blocks of a record are not indexed in block-number order");
            if nf > 0 && !CRASH {
                assert!(count(Ev::Remove(pre.rec.0)) == 1 && G.ev[0] == Ev::Remove(pre.rec.0), "SPEC block arrival: blocks indexed without consuming their pending record first");
                assert!(G.ev[G.n - 1] == Ev::BlockNumber(pre.rec.0 + pre.rec.1 - 1), "SPEC block arrival: script block numbers not raised to the end of the record's range after indexing");
                assert!(nf == pre.m0.len, "SPEC block arrival: not every matched block of the record was indexed");
                assert!(m1.len == 0 || pre.nrec == 2, "SPEC block arrival: in-memory matched blocks not cleared");
            }
            if nf == 0 && !CRASH { assert!(G.n == 0, "SPEC block arrival: storage changed although not all matched blocks are downloaded"); }
            kani::cover!(nf == 2, "two blocks indexed");
            kani::cover!(nf == 0 && m1.len == 2, "block stored, waiting for the other one");
        }
    }
    #[kani::proof] #[kani::unwind(8)] fn send_block_ok() { send_block::<false>(); }

    /// O8.2: crash at any write boundary of block arrival (remove record -> index each block -> raise script numbers).
    /// Recoverability: once the pending record is gone from the store, every block it listed must be indexed and the script
    /// numbers raised - otherwise nothing on disk remembers that those blocks still have to be examined.
    #[kani::proof] #[kani::unwind(8)]
    fn send_block_crash() {
        let pre = unsafe { arbitrary_state() };
        let k: usize = kani::any(); kani::assume(k <= 5);
        unsafe { G.crash_after = k; }
        let peers: &'static Peers = Box::leak(Box::new(Peers { inner: DashMap::new(), matched_blocks: RwLock { inner: std::cell::UnsafeCell::new(pre.m0) } }));
        let mut sp = SyncProtocol { storage: Storage, peers: Arc(peers) };
        let hid: u8 = kani::any(); kani::assume(hid < 3);
        let blk = any_block(hid);
        kani::assume(committed(&blk));
        let reader = packed::SendBlockReader { e: &blk };
        sp.send_block_arm(Arc(&NC), PeerIndex(0), reader);
        unsafe {
            let total = G.writes;
            if count(Ev::Remove(pre.rec.0)) == 1 {
                let mut nf = 0; let mut i = 0; while i < 6 { if i < G.n { if let Ev::Filter(_, _) = G.ev[i] { nf += 1; } } i += 1; }
                assert!(nf == pre.m0.len && count(Ev::BlockNumber(pre.rec.0 + pre.rec.1 - 1)) == 1, "SPEC crash: after a crash inside block arrival the pending matched-block record is gone although not all of its blocks were indexed / the script numbers were not raised: those blocks are skipped silently");
            }
            kani::cover!(k >= 1 && k < total, "a crash strictly inside the operation");
        }
    }
}
