// K-model unit `cfd`: real text of FilterProtocol::check_filters_data (filter/block_filter.rs) and Storage::get_scripts_hash (storage.rs)
// over the decoded Meta store.  Golomb-coded-set matching is abstracted: a filter is a bit set over the script identities it matches,
// `match_any` answers whether any of the offered script hashes is in it.
#![allow(unused, dead_code, unused_mut, static_mut_refs, non_snake_case)]
pub const CAP: usize = 3;
pub const NS: usize = 3;
#[macro_use] #[path = "../../prelude/macros.rs"] mod pmacros;
include!("../../prelude/vec.rs");
// minimal ordered store: the FILTER_SCRIPTS rows (key = prefix byte, 2-byte script, 1-byte script type; value = big-endian block number) followed by one
// row of another namespace, so that a scan which forgets to stop at the prefix boundary is visible
#[derive(Clone, Copy)] pub struct Prefix(pub [u8; 1]);
impl Prefix { pub fn len(&self) -> usize { 1 } }
impl AsRef<Prefix> for Prefix { fn as_ref(&self) -> &Prefix { self } }
#[derive(Clone, Copy)] pub struct RowKey { pub b: [u8; 4], pub n: usize }
impl RowKey { pub fn len(&self) -> usize { self.n } pub fn starts_with(&self, p: &Prefix) -> bool { self.n >= 1 && self.b[0] == p.0[0] } }
impl std::ops::Index<std::ops::Range<usize>> for RowKey { type Output = [u8]; fn index(&self, r: std::ops::Range<usize>) -> &[u8] { assert!(r.end <= self.n, "PANIC: key slice out of range"); &self.b[r] } }
#[derive(Clone, Copy)] pub struct RowVal(pub [u8; 8]);
impl AsRef<[u8]> for RowVal { fn as_ref(&self) -> &[u8] { &self.0 } }
pub struct Db { pub rows: [Option<u64>; NS], pub other: Option<u64> }
pub static mut DB: Db = Db { rows: [None; NS], other: None };
pub enum Direction { Forward, Reverse }
pub enum IteratorMode<'a> { From(&'a Prefix, Direction) }
pub struct DbIter { pos: usize }
impl Iterator for DbIter {
    type Item = (RowKey, RowVal);
    fn next(&mut self) -> Option<Self::Item> { unsafe {
        while self.pos < NS { let i = self.pos; self.pos += 1; if let Some(n) = DB.rows[i] { return Some((RowKey { b: [0xE1, i as u8 + 1, 7, 0], n: 4 }, RowVal(n.to_be_bytes()))); } }
        if self.pos == NS { self.pos += 1; if let Some(n) = DB.other { return Some((RowKey { b: [0xE7, 0, 0, 0], n: 1 }, RowVal(n.to_be_bytes()))); } }
        None } }
}
pub struct DbHandle;
impl DbHandle { pub fn iterator(&self, mode: IteratorMode) -> DbIter { let IteratorMode::From(p, d) = mode; assert!(p.0[0] == 0xE1 && matches!(d, Direction::Forward), "MODEL-BOUND: forward scan from the FILTER_SCRIPTS prefix only"); DbIter { pos: 0 } } }
pub type BlockNumber = u64;
#[derive(Clone, Copy, PartialEq, Eq, Default, Debug)] pub struct Byte32(pub u8);
impl Byte32 { pub fn as_slice(&self) -> &[u8] { std::slice::from_ref(&self.0) } }
impl std::fmt::LowerHex for Byte32 { fn fmt(&self, _f: &mut std::fmt::Formatter) -> std::fmt::Result { Ok(()) } }
#[derive(Clone, Copy, PartialEq, Eq, Default, Debug)] pub struct Script { pub bytes: [u8; 2] }
impl Script {
    pub fn from_slice(s: &[u8]) -> Result<Script, ()> { if s.len() == 2 { Ok(Script { bytes: [s[0], s[1]] }) } else { Err(()) } }
    /// script hash = its identity (1..=NS)
    pub fn calc_script_hash(&self) -> Byte32 { Byte32(self.bytes[0]) }
}
pub enum Key<'a> { Meta(&'a str) }
impl<'a> Key<'a> { pub fn into_vec(self) -> Prefix { let Key::Meta(n) = self; assert!(n.len() == 14 && n.as_bytes()[0] == b'F', "MODEL-BOUND: only FILTER_SCRIPTS is read here"); Prefix([0xE1]) } }
pub trait Unpack<T> { fn unpack(&self) -> T; }
#[derive(Clone, Copy, Default)] pub struct PU64(pub u64);
impl Unpack<u64> for PU64 { fn unpack(&self) -> u64 { self.0 } }
pub struct SipHasher24Builder; impl SipHasher24Builder { pub fn new(_a: u64, _b: u64) -> Self { SipHasher24Builder } }
pub const M: u64 = 784931; pub const P: u8 = 19;
pub struct GCSFilterReader;
impl GCSFilterReader {
    pub fn new(_h: SipHasher24Builder, _m: u64, _p: u8) -> Self { GCSFilterReader }
    /// abstraction of Golomb-coded-set matching: bit (id-1) of the filter byte says "script id is in the filter"
    pub fn match_any<'a, I: Iterator<Item = &'a [u8]>>(&self, input: &mut Cursor, query: &mut I) -> Result<bool, ()> { if input.0 & 0x80 != 0 { return Err(()); } /* not a well-formed Golomb-coded set: UnexpectedEof */ let mut r = false; for h in query { let id = h[0]; if id >= 1 && id <= 8 && (input.0 >> (id - 1)) & 1 == 1 { r = true; } } Ok(r) }
}
pub struct Cursor(pub u8); impl Cursor { pub fn new(b: u8) -> Cursor { Cursor(b) } }
#[derive(Clone, Copy, Default)] pub struct FilterBytes(pub u8);
impl FilterBytes { pub fn raw_data(&self) -> u8 { self.0 } }
pub mod packed {
    use super::*;
    pub use super::Byte32;
    #[derive(Clone, Copy, Default)]
    pub struct BlockFilters { pub start: u64, pub filters: Vec<FilterBytes>, pub hashes: Vec<Byte32> }
    #[derive(Clone, Copy, Default)] pub struct Byte32Vec(pub Vec<Byte32>);
    impl Byte32Vec { pub fn get(&self, i: usize) -> Option<Byte32> { if i < self.0.len { Some(self.0.buf[i]) } else { None } } }
    impl BlockFilters { pub fn start_number(&self) -> PU64 { PU64(self.start) } pub fn filters(&self) -> Vec<FilterBytes> { self.filters } pub fn block_hashes(&self) -> Byte32Vec { Byte32Vec(self.hashes) } }
}
pub struct Storage { pub db: DbHandle }
pub struct FilterProtocol { pub storage: Storage }

include!("extracted.rs");

#[cfg(kani)]
mod harness {
    use super::*;
    #[kani::proof] #[kani::unwind(6)]
    fn matching_scripts() {
        // registered scripts (identities 1..=3) with arbitrary recorded block numbers, and a row of the next namespace
        let num: [Option<u64>; NS] = kani::any(); let other: Option<u64> = kani::any();
        unsafe { DB.rows = num; DB.other = other; }
        let fp = FilterProtocol { storage: Storage { db: DbHandle } };
        let nf: usize = kani::any(); kani::assume(nf <= 3);
        let limit: usize = kani::any(); kani::assume(limit <= nf);
        let start: u64 = kani::any(); kani::assume(start < (1u64 << 62));
        let fb: [u8; 3] = kani::any(); let hb: [u8; 3] = [11, 12, 13];   // block hashes of a batch are pairwise distinct
        let mut filters = Vec::new(); let mut hashes = Vec::new(); let mut i = 0;
        // only the first `limit` filters were verified against the agreed filter hashes (authentic, hence well-formed); a filter beyond them is whatever the peer sent -
        // possibly not a well-formed Golomb-coded set (bit 7 in the model), which the reader answers with an error
        let bad: [bool; 3] = kani::any();
        while i < 3 { if i < nf { filters.push(FilterBytes((fb[i] & 7) | if i >= limit && bad[i] { 0x80 } else { 0 })); hashes.push(Byte32(hb[i])); } i += 1; }
        let out = fp.check_filters_data(packed::BlockFilters { start, filters, hashes }, limit);
        // reference
        let mut k = 0usize; let mut j = 0usize;
        while j < 3 {
            if j < limit {
                let n = start + j as u64;
                // must be reported: the filter of block n matches a registered script whose recorded number is below n
                let mut needed = false; let mut any_reg = false; let mut s = 0;
                while s < NS { if let Some(b) = num[s] { if (fb[j] >> s) & 1 == 1 { any_reg = true; if b < n { needed = true; } } } s += 1; }
                let reported = k < out.len && out.buf[k] == Byte32(hb[j]);   // output is in batch order
                if reported { k += 1; }
                assert!(!needed || reported, "SPEC filter matching: a block whose filter matches a registered script with a recorded number below that block is not reported (its activity is skipped)");
                assert!(!reported || any_reg, "SPEC filter matching: a block is reported although its filter matches no registered script");
            }
            j += 1;
        }
        assert!(k == out.len, "SPEC filter matching: blocks are reported out of batch order, twice, or beyond the limit");
        kani::cover!(out.len == 2, "two blocks matched");
    }
}
