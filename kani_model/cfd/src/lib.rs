// K-model unit `cfd`: real text of FilterProtocol::check_filters_data (filter/block_filter.rs) and Storage::get_scripts_hash (storage.rs)
// over the decoded Meta store.  Golomb-coded-set matching is abstracted: a filter is a bit set over the script identities it matches,
// `match_any` answers whether any of the offered script hashes is in it.
#![allow(unused, dead_code, unused_mut, static_mut_refs, non_snake_case)]
pub const CAP: usize = 3;
pub const NS: usize = 2;
pub const MREC: usize = 1;
pub const BCAP: usize = 2;
pub const VCAP: usize = 8;
#[macro_use] #[path = "../../prelude/macros.rs"] mod pmacros;
include!("../../prelude/vec.rs");
include!("../../prelude/kvstore_meta.rs");
pub type BlockNumber = u64;
#[derive(Clone, Copy, PartialEq, Eq, Default, Debug)] pub struct Byte32(pub u8);
impl Byte32 { pub fn as_slice(&self) -> &[u8] { std::slice::from_ref(&self.0) } }
impl std::fmt::LowerHex for Byte32 { fn fmt(&self, _f: &mut std::fmt::Formatter) -> std::fmt::Result { Ok(()) } }
#[derive(Clone, Copy, PartialEq, Eq, Default, Debug)] pub struct Script { pub bytes: [u8; 2] }
impl Script {
    pub fn from_slice(s: &[u8]) -> Result<Script, ()> { if s.len() == 2 { Ok(Script { bytes: [s[0], s[1]] }) } else { Err(()) } }
    /// script hash = its identity (1..=NS)
    pub fn calc_script_hash(&self) -> Byte32 { Byte32(self.bytes[0]) }
}
pub enum Key<'a> { Meta(&'a str) }
impl<'a> Key<'a> { pub fn into_vec(self) -> ByteVec { let Key::Meta(n) = self; assert!(n.len() == 14 && n.as_bytes()[0] == b'F', "MODEL-BOUND: only FILTER_SCRIPTS is read here"); let mut v = ByteVec::new(); v.push(0xE1); v } }
pub trait Unpack<T> { fn unpack(&self) -> T; }
#[derive(Clone, Copy, Default)] pub struct PU64(pub u64);
impl Unpack<u64> for PU64 { fn unpack(&self) -> u64 { self.0 } }
pub struct SipHasher24Builder; impl SipHasher24Builder { pub fn new(_a: u64, _b: u64) -> Self { SipHasher24Builder } }
pub const M: u64 = 784931; pub const P: u8 = 19;
pub struct GCSFilterReader;
impl GCSFilterReader {
    pub fn new(_h: SipHasher24Builder, _m: u64, _p: u8) -> Self { GCSFilterReader }
    /// abstraction of Golomb-coded-set matching: bit (id-1) of the filter byte says "script id is in the filter"
    pub fn match_any<'a, I: Iterator<Item = &'a [u8]>>(&self, input: &mut Cursor, query: &mut I) -> Result<bool, ()> { let mut r = false; for h in query { let id = h[0]; if id >= 1 && id <= 8 && (input.0 >> (id - 1)) & 1 == 1 { r = true; } } Ok(r) }
}
pub struct Cursor(pub u8); impl Cursor { pub fn new(b: u8) -> Cursor { Cursor(b) } }
#[derive(Clone, Copy, Default)] pub struct FilterBytes(pub u8);
impl FilterBytes { pub fn raw_data(&self) -> u8 { self.0 } }
pub mod packed {
    use super::*;
    pub use super::Byte32;
    #[derive(Clone, Copy, Default)]
    pub struct BlockFilters { pub start: u64, pub filters: Vec<FilterBytes>, pub hashes: Vec<Byte32> }
    #[derive(Clone, Copy, Default)] pub struct Byte32Vec(pub Vec<Byte32>);
    impl Byte32Vec { pub fn get(&self, i: usize) -> Option<Byte32> { if i < self.0.len { Some(self.0.buf[i]) } else { None } } }
    impl BlockFilters { pub fn start_number(&self) -> PU64 { PU64(self.start) } pub fn filters(&self) -> Vec<FilterBytes> { self.filters } pub fn block_hashes(&self) -> Byte32Vec { Byte32Vec(self.hashes) } }
}
pub struct Storage { pub db: DbHandle }
pub struct FilterProtocol { pub storage: Storage }

include!("extracted.rs");

#[cfg(kani)]
mod harness {
    use super::*;
    fn skey(id: usize) -> ByteVec { let mut k = ByteVec::new(); k.push(0xE1); k.push(id as u8 + 1); k.push(7); k.push(0); k }
    #[kani::proof] #[kani::unwind(8)]
    fn matching_scripts() {
        unsafe { DB.reset(); }
        // registered scripts (identities 1..=2) with arbitrary recorded block numbers
        let mut num: [Option<u64>; NS] = [None; NS]; let mut i = 0;
        while i < NS { if kani::any() { let n: u64 = kani::any(); num[i] = Some(n); unsafe { DB.put_raw(&skey(i), &n.to_be_bytes()); } } i += 1; }
        let fp = FilterProtocol { storage: Storage { db: DbHandle } };
        let nf: usize = kani::any(); kani::assume(nf <= 2);
        let limit: usize = kani::any(); kani::assume(limit <= nf);
        let start: u64 = kani::any(); kani::assume(start < (1u64 << 62));
        let fb: [u8; 2] = kani::any(); let hb: [u8; 2] = kani::any();
        let mut filters = Vec::new(); let mut hashes = Vec::new(); let mut i = 0;
        while i < 2 { if i < nf { filters.push(FilterBytes(fb[i] & 3)); hashes.push(Byte32(hb[i])); } i += 1; }
        let out = fp.check_filters_data(packed::BlockFilters { start, filters, hashes }, limit);
        // reference
        let mut k = 0usize; let mut j = 0usize;
        while j < 2 {
            if j < limit {
                let n = start + j as u64;
                // must be reported: the filter of block n matches a registered script whose recorded number is below n
                let mut needed = false; let mut any_reg = false; let mut s = 0;
                while s < NS { if let Some(b) = num[s] { if (fb[j] >> s) & 1 == 1 { any_reg = true; if b < n { needed = true; } } } s += 1; }
                // walk the output in order: reported blocks appear in batch order
                if k < out.len && out.buf[k] == Byte32(hb[j]) && (needed || any_reg) { k += 1; }
                else { assert!(!needed, "SPEC filter matching: a block whose filter matches a registered script with a recorded number below that block is not reported (its activity is skipped)"); }
            }
            j += 1;
        }
        assert!(k == out.len, "SPEC filter matching: a block is reported although its filter matches no registered script, or blocks are reported out of order / beyond the limit");
        kani::cover!(out.len == 2, "two blocks matched");
    }
}
