// K-model unit `sbp`: real text of SendBlocksProofProcess::execute_internally + verify_extra_hash (send_blocks_proof.rs), the real
// BlocksProofRequest and Peers::mark_matched_blocks_proved (peers.rs) over a model of the message reader, the protocol object, the peer
// table and the store.  Every effect (header stored, matched block marked proved, GetBlocks sent, request installed, fetch entry removed /
// marked missing / released) is recorded in a ghost log; PoW and MMR verification are arbitrary verdicts chosen by the harness.
#![allow(unused, dead_code, unused_mut, static_mut_refs, non_snake_case)]
use std::{fmt, mem};
pub const CAP: usize = 3;
pub const MAP_CAP: usize = 4;
#[macro_use] #[path = "../../prelude/macros.rs"] mod pmacros;
include!("../../prelude/vec.rs");
include!("../../prelude/hashmap.rs");
include!("../../prelude/u256.rs");
include!("../../prelude/epoch.rs");
include!("../../prelude/lc_types.rs");
include!("../../prelude/uf.rs");
include!("../../prelude/status.rs");
pub static mut H_EXT: Uf = Uf::new();
pub static mut H_EXTRA: Uf = Uf::new();
impl PBytes { pub fn calc_raw_data_hash(&self) -> Byte32 { unsafe { Byte32(H_EXT.apply(self.key())) } } }
pub struct ExtraHashView { u: Byte32, e: Option<Byte32> }
impl ExtraHashView {
    pub fn new(u: Byte32, e: Option<Byte32>) -> Self { ExtraHashView { u, e } }
    pub fn extra_hash(&self) -> Byte32 { unsafe { Byte32(H_EXTRA.apply(((self.u.0 as u64) << 16) | match self.e { None => 0, Some(b) => 0x100 | b.0 as u64 })) } }
}
impl<'a> Default for &'a Byte32 { fn default() -> Self { &Byte32(0) } }
pub trait Pack<T> { fn pack(&self) -> T; }
impl Pack<packed::Byte32Vec> for [Byte32] { fn pack(&self) -> packed::Byte32Vec { let mut v = Vec::new(); let mut i = 0; while i < self.len() { v.push(self[i]); i += 1; } packed::Byte32Vec(v) } }
pub trait MToVec { fn mto_vec(&self) -> &Self; }
impl MToVec for [Byte32] { fn mto_vec(&self) -> &Self { self } }
// ---- the message --------------------------------------------------------------------------------------------------------------------
#[derive(Clone, Copy, Default)]
pub struct Msg { pub last: VerifiableHeader, pub proof_len: u8, pub headers: Vec<HeaderView>, pub missing: Vec<Byte32>, pub extra_fields: usize, pub extra_ok: bool, pub uncles: Vec<Byte32>, pub exts: Vec<Option<PBytes>> }
#[derive(Clone, Copy)] pub struct Ent<T: Copy>(pub T);
impl<T: Copy> Ent<T> { pub fn to_entity(&self) -> T { self.0 } }
#[derive(Clone, Copy)] pub struct VhEnt(pub VerifiableHeader);
impl From<VhEnt> for VerifiableHeader { fn from(v: VhEnt) -> Self { v.0 } }
#[derive(Clone, Copy)] pub struct ProofR(pub u8);
impl ProofR { pub fn is_empty(&self) -> bool { self.0 == 0 } }
#[derive(Clone, Copy)] pub struct ListR<T: Copy + Default>(pub Vec<T>);
pub struct ListIter<T: Copy + Default> { v: Vec<T>, p: usize }
impl<T: Copy + Default> Iterator for ListIter<T> { type Item = Ent<T>; fn next(&mut self) -> Option<Ent<T>> { if self.p < self.v.len { let r = self.v.buf[self.p]; self.p += 1; Some(Ent(r)) } else { None } } }
impl<T: Copy + Default> ListR<T> { pub fn is_empty(&self) -> bool { self.0.len == 0 } pub fn iter(&self) -> ListIter<T> { ListIter { v: self.0, p: 0 } } }
impl ListR<Byte32> { pub fn to_entity(&self) -> packed::Byte32Vec { packed::Byte32Vec(self.0) } }
#[derive(Clone, Copy, Default)] pub struct BytesOpt(pub Option<PBytes>);
impl BytesOpt { pub fn to_opt(&self) -> Option<PBytes> { self.0 } }
pub mod packed {
    use super::*;
    pub use super::Byte32;
    pub type Bytes = PBytes;
    #[derive(Clone, Copy, Default)] pub struct Byte32Vec(pub Vec<Byte32>);
    impl Byte32Vec { pub fn len(&self) -> usize { self.0.len } pub fn into_iter(self) -> VecIntoIter<Byte32> { self.0.into_iter() } }
    #[derive(Clone, Copy, Default)] pub struct GetBlocksProof { pub hashes: Vec<Byte32>, pub last: Byte32 }
    impl GetBlocksProof { pub fn block_hashes(&self) -> Byte32Vec { Byte32Vec(self.hashes) } pub fn last_hash(&self) -> Byte32 { self.last } }
    #[derive(Clone, Copy, Default, PartialEq, Eq, Debug)] pub struct Block { pub hdr: u8, pub body: u8 }
    #[derive(Clone, Copy)] pub struct SendBlocksProofReader<'a>(pub &'a Msg);
    impl<'a> SendBlocksProofReader<'a> {
        pub fn last_header(&self) -> Ent<VhEnt> { Ent(VhEnt(self.0.last)) }
        pub fn proof(&self) -> ProofR { ProofR(self.0.proof_len) }
        pub fn headers(&self) -> ListR<PHeader> { let mut v = Vec::new(); let mut i = 0; while i < self.0.headers.len { v.push(PHeader(self.0.headers.buf[i])); i += 1; } ListR(v) }
        pub fn missing_block_hashes(&self) -> ListR<Byte32> { ListR(self.0.missing) }
        pub fn count_extra_fields(&self) -> usize { self.0.extra_fields }
        pub fn as_slice(&self) -> &'a Msg { self.0 }
    }
    pub struct SendBlocksProofV1Reader<'a>(pub &'a Msg);
    impl<'a> SendBlocksProofV1Reader<'a> {
        /// molecule: reading the two extra fields of a table that has fewer than two is out of bounds; and the CONTENTS of extra fields are not verified when the
        /// message is decoded in compatible mode (`extra_ok` = they happen to be well-formed vectors): reading them through an unchecked reader slices out of range
        pub fn new_unchecked(m: &'a Msg) -> Self {
            assert!(m.extra_fields >= 2, "REAL-PANIC: SendBlocksProofV1Reader over a table without the two extra fields (slice index out of range)");
            assert!(m.extra_ok, "REAL-PANIC: the extra fields of a message decoded in compatible mode are read through an unchecked reader although their contents were never verified (slice index out of range in molecule)");
            SendBlocksProofV1Reader(m)
        }
        /// molecule verification of the V1 table (compatible mode): all six fields present and well-formed
        pub fn from_compatible_slice(m: &'a Msg) -> Result<Self, VerificationError> { if m.extra_fields >= 2 && m.extra_ok { Ok(SendBlocksProofV1Reader(m)) } else { Err(VerificationError) } }
        pub fn blocks_uncles_hash(&self) -> ListR<Byte32> { ListR(self.0.uncles) }
        pub fn blocks_extension(&self) -> ListR<BytesOpt> { let mut v = Vec::new(); let mut i = 0; while i < self.0.exts.len { v.push(BytesOpt(self.0.exts.buf[i])); i += 1; } ListR(v) }
    }
    #[derive(Debug)] pub struct VerificationError;
    #[derive(Clone, Copy, Default)] pub struct GetBlocks { pub hashes: Byte32Vec }
    pub struct GetBlocksBuilder(Byte32Vec);
    impl GetBlocks { pub fn new_builder() -> GetBlocksBuilder { GetBlocksBuilder(Byte32Vec::default()) } }
    impl GetBlocksBuilder { pub fn block_hashes(self, h: Byte32Vec) -> Self { GetBlocksBuilder(h) } pub fn build(self) -> GetBlocks { GetBlocks { hashes: self.0 } } }
    #[derive(Clone, Copy, Default)] pub struct SyncMessage(pub GetBlocks);
    pub struct SyncMessageBuilder(GetBlocks);
    impl SyncMessage { pub fn new_builder() -> SyncMessageBuilder { SyncMessageBuilder(GetBlocks::default()) } pub fn as_bytes(&self) -> GetBlocks { self.0 } }
    impl SyncMessageBuilder { pub fn set(self, c: GetBlocks) -> Self { SyncMessageBuilder(c) } pub fn build(self) -> SyncMessage { SyncMessage(self.0) } }
}
pub struct HeaderWithExtension { pub header: PHeader, pub extension: Option<PBytes> }
// ---- ghost log ----------------------------------------------------------------------------------------------------------------------
pub struct Log {
    pub stored: [(u8, Option<PBytes>); 3], pub nstored: usize, pub sent: [u8; 4], pub nsent: usize, pub sent_to: u8, pub req_installed: Option<(u8, Vec<Byte32>)>,
    pub removed: [u8; 3], pub nremoved: usize, pub missing: [u8; 3], pub nmissing: usize, pub released: bool, pub new_last_state: bool, pub mmr_headers: [u8; 3], pub nmmr: usize, pub mmr_called: bool,
}
pub static mut LOG: Log = Log { stored: [(0, None); 3], nstored: 0, sent: [0; 4], nsent: 0, sent_to: 0, req_installed: None, removed: [0; 3], nremoved: 0, missing: [0; 3], nmissing: 0, released: false, new_last_state: false, mmr_headers: [0; 3], nmmr: 0, mmr_called: false };
pub static mut MMR_OK: bool = false;
pub static mut PLS_OK: bool = false;
pub static mut SEND_OK: bool = true;
pub static mut CHOICE: usize = 0;
pub fn verify_mmr_proof<'a, I: Iterator<Item = &'a HeaderView>>(_epoch: u64, _last: &VerifiableHeader, _proof: ProofR, headers: I) -> Result<(), Status> {
    unsafe { LOG.mmr_called = true; for h in headers { if LOG.nmmr < 3 { LOG.mmr_headers[LOG.nmmr] = h.id; LOG.nmmr += 1; } } if MMR_OK { Ok(()) } else { Err(StatusCode::InvalidProof.into()) } }
}
// ---- peers / protocol / store -------------------------------------------------------------------------------------------------------
pub struct RwLock<T> { pub v: std::cell::UnsafeCell<T> }
pub struct Guard<'a, T> { r: &'a mut T }
impl<'a, T> std::ops::Deref for Guard<'a, T> { type Target = T; fn deref(&self) -> &T { self.r } }
impl<'a, T> std::ops::DerefMut for Guard<'a, T> { fn deref_mut(&mut self) -> &mut T { self.r } }
impl<T> RwLock<T> { pub fn write(&self) -> Result<Guard<'_, T>, ()> { unsafe { Ok(Guard { r: &mut *self.v.get() }) } } }
#[derive(Clone, Copy, Default)] pub struct BlocksRequest;
/// the outstanding blocks-proof request lives in a static (the real type is Clone, not Copy)
pub static mut REQ: Option<BlocksProofRequest> = None;
#[derive(Clone, Copy, Default)] pub struct Peer { pub has_bpr: bool, pub br: Option<BlocksRequest> }
impl Peer { pub fn get_blocks_proof_request(&self) -> Option<&BlocksProofRequest> { if self.has_bpr { unsafe { REQ.as_ref() } } else { None } } pub fn get_blocks_request(&self) -> Option<&BlocksRequest> { self.br.as_ref() } }
pub struct Peers { pub table: [Option<Peer>; 2], pub best: Vec<PeerIndex>, pub mb: RwLock<HashMap<H256, (bool, Option<packed::Block>)>>, pub fetching: std::cell::Cell<[bool; 4]> }
impl Peers {
    pub fn get_peer(&self, i: &PeerIndex) -> Option<Peer> { if (i.0 as usize) < 2 { self.table[i.0 as usize].clone() } else { None } }
    pub fn matched_blocks(&self) -> &RwLock<HashMap<H256, (bool, Option<packed::Block>)>> { &self.mb }
    pub fn mark_fetching_headers_timeout(&self, _p: PeerIndex) { unsafe { LOG.released = true; } }
    pub fn get_best_proved_peers(&self, _h: &PHeader) -> Vec<PeerIndex> { self.best }
    pub fn update_blocks_request(&self, p: PeerIndex, r: Option<Vec<Byte32>>) { unsafe { LOG.req_installed = r.map(|v| (p.0, v)); } }
    pub fn remove_fetching_header(&self, h: &Byte32) -> bool { let mut f = self.fetching.get(); let i = (h.0 & 3) as usize; let was = f[i]; if was { f[i] = false; self.fetching.set(f); unsafe { if LOG.nremoved < 3 { LOG.removed[LOG.nremoved] = h.0; LOG.nremoved += 1; } } } was }
    pub fn mark_fetching_headers_missing(&self, hs: &[Byte32]) { unsafe { let mut i = 0; while i < hs.len() { if LOG.nmissing < 3 { LOG.missing[LOG.nmissing] = hs[i].0; LOG.nmissing += 1; } i += 1; } } }
}
pub struct Storage;
impl Storage { pub fn add_fetched_header(&self, h: &HeaderWithExtension) { unsafe { if LOG.nstored < 3 { LOG.stored[LOG.nstored] = (h.header.0.id, h.extension); LOG.nstored += 1; } } } }
pub struct LightClientProtocol { pub peers: Peers, pub storage: Storage }
impl LightClientProtocol {
    pub fn get_peer(&self, i: &PeerIndex) -> Result<Peer, Status> { self.peers.get_peer(i).ok_or_else(|| StatusCode::PeerIsNotFound.into()) }
    pub fn peers(&self) -> &Peers { &self.peers }
    pub fn storage(&self) -> &Storage { &self.storage }
    pub fn process_last_state(&self, _p: PeerIndex, _l: VerifiableHeader) -> Result<(), Status> { unsafe { if PLS_OK { LOG.new_last_state = true; Ok(()) } else { Err(StatusCode::InvalidLastState.into()) } } }
    pub fn check_pow_for_headers<'a, T: Iterator<Item = &'a HeaderView>>(&self, mut headers: T) -> Result<(), Status> { for h in headers { if !h.pow_ok { return Err(StatusCode::InvalidNonce.into()); } } Ok(()) }
    pub fn mmr_activated_epoch(&self) -> u64 { 0 }
    pub fn init_blocks_in_transit_per_peer(&self) -> usize { 2 }
}
pub enum SupportProtocols { Sync }
impl SupportProtocols { pub fn protocol_id(&self) -> u8 { 0 } }
pub trait CKBProtocolContext { fn send_message(&self, proto: u8, peer: PeerIndex, m: packed::GetBlocks) -> Result<(), ()>; }
pub struct Nc;
impl CKBProtocolContext for Nc { fn send_message(&self, _proto: u8, peer: PeerIndex, m: packed::GetBlocks) -> Result<(), ()> { unsafe { if !SEND_OK { return Err(()); } LOG.sent_to = peer.0; let mut i = 0; while i < m.hashes.0.len { if LOG.nsent < 4 { LOG.sent[LOG.nsent] = m.hashes.0.buf[i].0; LOG.nsent += 1; } i += 1; } Ok(()) } } }
pub mod rand { pub struct Rng; pub fn thread_rng() -> Rng { Rng } }
/// vector of references (the model Vec needs Default elements): used for the `.collect::<Vec<_>>().choose(..)` of idle peers (textual adaptation Vec -> RefVec)
pub struct RefVec<T: Copy> { pub a: [Option<T>; 2], pub n: usize }
impl<T: Copy> FromIterator<T> for RefVec<T> { fn from_iter<I: IntoIterator<Item = T>>(it: I) -> Self { let mut v = RefVec { a: [None; 2], n: 0 }; for x in it { assert!(v.n < 2, "MODEL-BOUND: RefVec capacity"); v.a[v.n] = Some(x); v.n += 1; } v } }
impl<T: Copy> RefVec<T> { pub fn choose(&self, _r: &mut rand::Rng) -> Option<&T> { if self.n == 0 { None } else { let i = unsafe { CHOICE }; if i < self.n { self.a[i].as_ref() } else { self.a[0].as_ref() } } } }
pub trait Choose<T> { fn choose(&self, r: &mut rand::Rng) -> Option<&T>; }
impl<T: Copy + Default> Choose<T> for Vec<T> { fn choose(&self, _r: &mut rand::Rng) -> Option<&T> { if self.len == 0 { None } else { let i = unsafe { CHOICE }; if i < self.len { Some(&self.buf[i]) } else { Some(&self.buf[0]) } } } }
pub struct SendBlocksProofProcess<'a> { pub message: packed::SendBlocksProofReader<'a>, pub protocol: &'a LightClientProtocol, pub peer_index: PeerIndex, pub nc: &'a dyn CKBProtocolContext }

include!("extracted.rs");

#[cfg(kani)]
mod harness {
    use super::*;
    fn any_ids(n: usize) -> Vec<Byte32> { let mut v = Vec::new(); let mut i = 0; while i < 2 { if i < n { let x: u8 = kani::any(); kani::assume(x < 4); v.push(Byte32(x)); } i += 1; } v }
    fn has(v: &Vec<Byte32>, x: u8) -> bool { let mut i = 0; while i < v.len { if v.buf[i].0 == x { return true; } i += 1; } false }
    #[kani::proof] #[kani::unwind(6)]
    fn blocks_proof() {
        // the outstanding request of peer 0: <=2 distinct hashes over 4 identities
        let nreq: usize = kani::any(); kani::assume(nreq >= 1 && nreq <= 2);
        let req = any_ids(nreq); kani::assume(nreq < 2 || req.buf[0] != req.buf[1]);
        let req_last: u8 = kani::any(); let should_get: bool = kani::any();
        let has_req: bool = kani::any();
        unsafe { REQ = Some(BlocksProofRequest::new(packed::GetBlocksProof { hashes: req, last: Byte32(req_last) }, 0, should_get)); }
        // the message
        let nh: usize = kani::any(); kani::assume(nh <= 2);
        let nm: usize = kani::any(); kani::assume(nm <= 2);
        let mut headers = Vec::new(); let mut i = 0;
        while i < 2 { if i < nh { let id: u8 = kani::any(); kani::assume(id < 4); headers.push(HeaderView { id, extra_hash: kani::any(), pow_ok: kani::any(), ..Default::default() }); } i += 1; }
        let missing = any_ids(nm);
        let nu: usize = kani::any(); kani::assume(nu <= 2); let ne: usize = kani::any(); kani::assume(ne <= 2);
        let uncles = any_ids(nu);
        let mut exts = Vec::new(); let mut i = 0;
        while i < 2 { if i < ne { let e: Option<u8> = kani::any(); exts.push(e.map(|x| PBytes::of(1, x & 1, 0))); } i += 1; }
        let extra_fields: usize = kani::any(); kani::assume(extra_fields <= 3);
        let last_id: u8 = kani::any();
        let msg = Msg { last: VerifiableHeader { header: HeaderView { id: last_id, ..Default::default() }, ..Default::default() }, proof_len: kani::any(), headers, missing, extra_fields, extra_ok: kani::any(), uncles, exts };
        // the peer table, matched blocks, fetch table
        let other_busy: bool = kani::any();
        let mut mb: HashMap<H256, (bool, Option<packed::Block>)> = HashMap::new();
        let nmb: usize = kani::any(); kani::assume(nmb <= 2); let mut i = 0;
        while i < 2 { if i < nmb { let h: u8 = kani::any(); kani::assume(h < 4); mb.insert(H256(h), (kani::any(), None)); } i += 1; }
        let mb0 = mb;
        let fetching0: [bool; 4] = kani::any();
        let mut best = Vec::new(); if kani::any() { best.push(PeerIndex(0)); } if kani::any() { best.push(PeerIndex(1)); }
        let peers = Peers { table: [Some(Peer { has_bpr: has_req, br: None }), Some(Peer { has_bpr: false, br: if other_busy { Some(BlocksRequest) } else { None } })], best,
            mb: RwLock { v: std::cell::UnsafeCell::new(mb) }, fetching: std::cell::Cell::new(fetching0) };
        let protocol = LightClientProtocol { peers, storage: Storage };
        unsafe { MMR_OK = kani::any(); PLS_OK = kani::any(); SEND_OK = kani::any(); CHOICE = kani::any(); }
        let nc = Nc;
        let p = SendBlocksProofProcess { message: packed::SendBlocksProofReader(&msg), protocol: &protocol, peer_index: PeerIndex(0), nc: &nc };
        let status = p.execute_internally();
        let mb1 = unsafe { *protocol.peers.mb.v.get() };
        unsafe {
            let any_effect = LOG.nstored > 0 || LOG.nsent > 0 || LOG.req_installed.is_some() || LOG.nremoved > 0 || LOG.nmissing > 0 || !mb_eq(&mb1, &mb0);
            if LOG.new_last_state {
                // the "new last state" reply: accepted only without data, releases the in-flight fetches, nothing else
                assert!(has_req && last_id != req_last && msg.proof_len == 0 && nh == 0 && nm == 0, "SPEC blocks proof: a reply with another last state was accepted although it carries data / nothing was requested");
                assert!(!any_effect && LOG.released && status.is_ok(), "SPEC blocks proof: the new-last-state reply must only release the in-flight fetches");
            } else if any_effect {
                assert!(has_req && last_id == req_last, "SPEC blocks proof: effects without an outstanding request for this last hash");
                // received + missing is exactly the requested set
                let mut x = 0u8; while x < 4 { let c = (has(&headers_ids(&msg), x) as usize) + (has(&msg.missing, x) as usize); assert!(c == has(&req, x) as usize, "SPEC blocks proof: effects although received + missing is not exactly the requested set"); x += 1; }
                if nh > 0 {
                    let mut i = 0; while i < 2 { if i < nh { assert!(msg.headers.buf[i].pow_ok, "SPEC blocks proof: effects although a header fails PoW"); } i += 1; }
                    assert!(LOG.mmr_called && MMR_OK && LOG.nmmr == nh, "SPEC blocks proof: effects without a successful MMR verification of ALL received headers");
                    let mut i = 0; while i < 2 { if i < nh { assert!(LOG.mmr_headers[i] == msg.headers.buf[i].id, "SPEC blocks proof: the MMR verification covered other headers"); } i += 1; }
                    if extra_fields >= 2 {
                        assert!(nu == nh && ne == nh, "SPEC blocks proof: V1 reply accepted with mismatching uncles / extension lists");
                        let mut i = 0; while i < 2 { if i < nh { let want = ExtraHashView::new(msg.uncles.buf[i], msg.exts.buf[i].map(|e| e.calc_raw_data_hash())).extra_hash(); assert!(want.0 == msg.headers.buf[i].extra_hash, "SPEC blocks proof: an extension that the header does not commit to was accepted"); } i += 1; }
                    }
                }
            }
            // every stored header is a received (verified) header that was being fetched, with ITS extension
            let mut k = 0; while k < 3 { if k < LOG.nstored { let (id, ext) = LOG.stored[k]; let mut found = false; let mut i = 0; while i < 2 { if i < nh && msg.headers.buf[i].id == id { found = true; let want = if extra_fields >= 2 { msg.exts.buf[i] } else { None }; assert!(ext == want || nh == 2 && msg.headers.buf[0].id == msg.headers.buf[1].id, "SPEC blocks proof: a header was stored with an extension that is not its own"); } i += 1; }
                assert!(found, "SPEC blocks proof: a header that was not received (and verified) was stored"); assert!(fetching0[(id & 3) as usize], "SPEC blocks proof: a header nobody asked to fetch was stored"); } k += 1; }
            // matched blocks: only received hashes become proved, nothing else changes
            let mut i = 0; while i < 2 { if i < mb0.len { let k = mb0.keys[i]; let v0 = mb0.vals[i]; let v1 = mb1.get(&k); assert!(v1.is_some(), "SPEC blocks proof: a matched block entry vanished"); let v1 = v1.unwrap();
                if v1.0 != v0.0 { assert!(!v0.0 && has(&headers_ids(&msg), k.0) && should_get, "SPEC blocks proof: a matched block was marked proved although its header was not received and verified (it may be MISSING on the peer's chain)"); }
                else if !v0.0 && should_get && nh > 0 && status.is_ok() && has(&headers_ids(&msg), k.0) { assert!(false, "SPEC blocks proof: a verified matched block was not marked proved"); } } i += 1; }
            assert!(mb1.len == mb0.len, "SPEC blocks proof: matched block entries appeared / vanished");
            // GetBlocks: exactly the received hashes, to an idle best peer, and the request is installed for that peer
            if LOG.nsent > 0 { assert!(should_get && LOG.nsent == nh, "SPEC blocks proof: GetBlocks does not ask for exactly the verified headers"); let mut i = 0; while i < 2 { if i < nh { assert!(LOG.sent[i] == msg.headers.buf[i].id, "SPEC blocks proof: GetBlocks asks for another block"); } i += 1; }
                assert!(has_idx(&protocol.peers.best, LOG.sent_to) && !(LOG.sent_to == 1 && other_busy), "SPEC blocks proof: GetBlocks sent to a peer that is not an idle best proved peer");
                match LOG.req_installed { Some((p, v)) => { assert!(p == LOG.sent_to && v.len == nh, "SPEC blocks proof: blocks request installed for another peer / other hashes"); } None => { assert!(false, "SPEC blocks proof: GetBlocks sent without installing the blocks request"); } } }
            // missing marks: exactly the missing list of an accepted reply
            let mut k = 0; while k < 3 { if k < LOG.nmissing { assert!(has(&msg.missing, LOG.missing[k]) && has(&req, LOG.missing[k]), "SPEC blocks proof: a hash that was not reported missing (or not requested) was marked missing"); } k += 1; }
            if !status.is_ok() && status.code() != StatusCode::Network { assert!(!any_effect, "SPEC blocks proof: a rejected reply left effects behind"); }
            kani::cover!(LOG.nstored == 2, "two headers stored");
            kani::cover!(LOG.nsent == 2 && LOG.nmissing == 0, "GetBlocks for two proved matched blocks");
            kani::cover!(LOG.nmissing == 1 && LOG.nstored == 1, "one stored, one missing");
        }
    }
    fn mb_eq(a: &HashMap<H256, (bool, Option<packed::Block>)>, b: &HashMap<H256, (bool, Option<packed::Block>)>) -> bool { if a.len != b.len { return false; } let mut i = 0; while i < a.len { if a.keys[i] != b.keys[i] || a.vals[i] != b.vals[i] { return false; } i += 1; } true }
    fn headers_ids(m: &Msg) -> Vec<Byte32> { let mut v = Vec::new(); let mut i = 0; while i < m.headers.len { v.push(Byte32(m.headers.buf[i].id)); i += 1; } v }
    fn has_idx(v: &Vec<PeerIndex>, x: u8) -> bool { let mut i = 0; while i < v.len { if v.buf[i].0 == x { return true; } i += 1; } false }
}
