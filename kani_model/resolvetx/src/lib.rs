// K-model unit `resolvetx`: real text of `resolve_tx` and `parse_dep_group_data` (src/verify.rs) - the cell resolution step of
// send_transaction / estimate_cycles - over plain-struct models of ckb-types' OutPoint / CellDep / CellMeta / TransactionView, an
// array-backed HashMap (entry API) / HashSet / Vec, and the cell provider as an ARBITRARY pure function (out point, eager) -> status.
#![allow(unused, dead_code, unused_mut, static_mut_refs, non_snake_case)]
pub const CAP: usize = 2;      // inputs, cell deps, out points of a dep group
#[cfg(not(rt_small))] pub const DEPS: usize = 2;     // cell deps
#[cfg(not(rt_small))] pub const RCAP: usize = 4;     // resolved cell deps (2 groups x 2)
#[cfg(not(rt_small))] pub const MAPCAP: usize = 8;   // resolve cache
#[cfg(not(rt_small))] pub const NID: usize = 4;      // out point identities
#[cfg(rt_small)] pub const DEPS: usize = 1;
#[cfg(rt_small)] pub const RCAP: usize = 2;
#[cfg(rt_small)] pub const MAPCAP: usize = 5;
#[cfg(rt_small)] pub const NID: usize = 3;
#[derive(Clone, Copy, PartialEq, Eq, Default, Debug, Hash)] pub struct OutPoint(pub u8);
impl OutPoint { pub fn to_owned(&self) -> OutPoint { *self } }
#[derive(Clone, Copy, PartialEq, Eq, Default, Debug)] pub struct Bytes(pub u8);   // identity of a cell's data
#[derive(Clone, Copy, PartialEq, Eq, Default, Debug)] pub struct CellMeta { pub id: u8, pub eager: bool, pub mem_cell_data: Option<Bytes> }
#[derive(Clone, Copy, PartialEq, Eq, Debug)] pub enum CellStatus { Live(CellMeta), Dead, Unknown }
#[derive(Clone, Copy, PartialEq, Eq, Debug)] pub enum OutPointError { Dead(OutPoint), Unknown(OutPoint), InvalidDepGroup(OutPoint) }
#[derive(Clone, Copy, PartialEq, Eq, Debug)] pub struct PByte(pub u8);
#[derive(Clone, Copy, PartialEq, Eq, Debug)] pub enum DepType { Code = 0, DepGroup = 1 }
impl From<DepType> for PByte { fn from(d: DepType) -> PByte { PByte(d as u8) } }
#[derive(Clone, Copy, PartialEq, Eq, Default, Debug)] pub struct CellDep { pub op: OutPoint, pub group: bool }
impl CellDep { pub fn dep_type(&self) -> PByte { PByte(self.group as u8) } pub fn out_point(&self) -> OutPoint { self.op } }
// small fixed vectors / iterators
#[derive(Clone, Copy, PartialEq, Eq, Debug)] pub struct SVec<T: Copy + Default, const N: usize> { pub a: [T; N], pub n: usize }
impl<T: Copy + Default, const N: usize> Default for SVec<T, N> { fn default() -> Self { SVec { a: [T::default(); N], n: 0 } } }
impl<T: Copy + Default, const N: usize> SVec<T, N> {
    pub fn len(&self) -> usize { self.n }
    pub fn is_empty(&self) -> bool { self.n == 0 }
    pub fn push(&mut self, t: T) { assert!(self.n < N, "MODEL-BOUND: vector capacity"); self.a[self.n] = t; self.n += 1; }
}
pub struct SIter<T: Copy + Default, const N: usize> { v: SVec<T, N>, p: usize }
impl<T: Copy + Default, const N: usize> Iterator for SIter<T, N> { type Item = T; fn next(&mut self) -> Option<T> { if self.p < self.v.n { let r = self.v.a[self.p]; self.p += 1; Some(r) } else { None } } }
impl<T: Copy + Default, const N: usize> IntoIterator for SVec<T, N> { type Item = T; type IntoIter = SIter<T, N>; fn into_iter(self) -> SIter<T, N> { SIter { v: self, p: 0 } } }
/// std Vec as used by resolve_tx: with_capacity / new / push
pub struct Vec<T>(std::marker::PhantomData<T>);
impl Vec<CellMeta> { pub fn with_capacity(_n: usize) -> SVec<CellMeta, RCAP> { SVec::default() } pub fn new() -> SVec<CellMeta, RCAP> { SVec::default() } }
pub type OutPointVec = SVec<OutPoint, CAP>;
/// molecule decoding of a dep group's data: an arbitrary, FIXED function of the data identity (table chosen by the harness)
pub static mut DECODE: [Option<OutPointVec>; NID] = [None; NID];
impl SVec<OutPoint, CAP> { pub fn from_slice(b: &Bytes) -> Result<OutPointVec, DecErr> { unsafe { match DECODE[(b.0 as usize) % NID] { Some(v) => Ok(v), None => Err(DecErr) } } } }
/// zero-sized String: std Strings drag Kani's allocator checks into the encoding (DESIGN.md 11.2)
#[derive(Clone, Copy, Debug, Default, PartialEq, Eq)] pub struct String;
impl String { pub fn new() -> Self { String } }
pub struct DecErr; impl DecErr { pub fn to_string(&self) -> String { String::new() } }
impl Bytes { pub fn is_empty(&self) -> bool { self.0 == 0 } }
#[derive(Clone, Copy, PartialEq, Eq, Default, Debug)]
pub struct TransactionView { pub ins: SVec<OutPoint, CAP>, pub deps: SVec<CellDep, CAP> }
impl TransactionView {
    pub fn inputs(&self) -> SVec<OutPoint, CAP> { self.ins }
    pub fn cell_deps(&self) -> SVec<CellDep, CAP> { self.deps }
    pub fn input_pts_iter(&self) -> SIter<OutPoint, CAP> { self.ins.into_iter() }
    pub fn cell_deps_iter(&self) -> SIter<CellDep, CAP> { self.deps.into_iter() }
}
pub struct ResolvedTransaction { pub transaction: TransactionView, pub resolved_inputs: SVec<CellMeta, RCAP>, pub resolved_cell_deps: SVec<CellMeta, RCAP>, pub resolved_dep_groups: SVec<CellMeta, RCAP> }
/// the cell provider (storage + pending pool): an arbitrary pure function
pub static mut STATUS: [[u8; 2]; NID] = [[0; 2]; NID];     // 0 live, 1 dead, 2 unknown
pub static mut DATA: [u8; NID] = [0; NID];
pub static mut NCALLS: usize = 0;
pub struct StorageWithChainData;
impl StorageWithChainData {
    pub fn cell(&self, op: &OutPoint, eager: bool) -> CellStatus { unsafe {
        NCALLS += 1;
        let i = (op.0 as usize) % NID;
        match STATUS[i][eager as usize] { 0 => CellStatus::Live(CellMeta { id: op.0, eager, mem_cell_data: if eager { Some(Bytes(DATA[i])) } else { None } }), 1 => CellStatus::Dead, _ => CellStatus::Unknown }
    } }
}
// HashSet / HashMap with the entry API
pub struct HashSet<T: Copy + PartialEq + Default> { a: [T; CAP + 1], n: usize }
impl<T: Copy + PartialEq + Default> HashSet<T> {
    pub fn new() -> Self { HashSet { a: [T::default(); CAP + 1], n: 0 } }
    pub fn insert(&mut self, t: T) -> bool { let mut i = 0; while i < self.n { if self.a[i] == t { return false; } i += 1; } assert!(self.n < CAP + 1, "MODEL-BOUND: HashSet capacity"); self.a[self.n] = t; self.n += 1; true }
}
pub struct HashMap<K: Copy + PartialEq + Default, V: Copy + Default> { k: [K; MAPCAP], v: [V; MAPCAP], n: usize }
pub enum Entry<'a, K: Copy + PartialEq + Default, V: Copy + Default> { Occupied(OccupiedEntry<'a, K, V>), Vacant(VacantEntry<'a, K, V>) }
pub struct OccupiedEntry<'a, K: Copy + PartialEq + Default, V: Copy + Default> { m: &'a mut HashMap<K, V>, i: usize }
pub struct VacantEntry<'a, K: Copy + PartialEq + Default, V: Copy + Default> { m: &'a mut HashMap<K, V>, key: K }
impl<'a, K: Copy + PartialEq + Default, V: Copy + Default> OccupiedEntry<'a, K, V> { pub fn get(&self) -> &V { &self.m.v[self.i] } }
impl<'a, K: Copy + PartialEq + Default, V: Copy + Default> VacantEntry<'a, K, V> { pub fn insert(self, v: V) { let m = self.m; assert!(m.n < MAPCAP, "MODEL-BOUND: HashMap capacity"); m.k[m.n] = self.key; m.v[m.n] = v; m.n += 1; } }
impl<K: Copy + PartialEq + Default, V: Copy + Default> HashMap<K, V> {
    pub fn new() -> Self { HashMap { k: [K::default(); MAPCAP], v: [V::default(); MAPCAP], n: 0 } }
    pub fn entry(&mut self, key: K) -> Entry<'_, K, V> { let mut i = 0; while i < self.n { if self.k[i] == key { return Entry::Occupied(OccupiedEntry { m: self, i }); } i += 1; } Entry::Vacant(VacantEntry { m: self, key }) }
}

include!("extracted.rs");

#[cfg(kani)]
mod harness {
    use super::*;
    fn any_op() -> OutPoint { let b: u8 = kani::any(); kani::assume((b as usize) < NID); OutPoint(b) }
    unsafe fn status(op: OutPoint, eager: bool) -> u8 { STATUS[op.0 as usize][eager as usize] }
    /// every legal combination: <= 2 inputs, <= 2 cell deps (code or dep group), the provider and the dep-group decoding arbitrary
    #[kani::proof] #[cfg_attr(rt_small, kani::unwind(7))] #[cfg_attr(not(rt_small), kani::unwind(10))]
    fn resolve() {
        unsafe {
            let mut i = 0; while i < NID { STATUS[i] = [kani::any(), kani::any()]; kani::assume(STATUS[i][0] < 3 && STATUS[i][1] < 3); DATA[i] = kani::any(); kani::assume((DATA[i] as usize) < NID);
                DECODE[i] = if kani::any() { let n: usize = kani::any(); kani::assume(n <= CAP); let mut v = OutPointVec::default(); v.n = n; v.a[0] = any_op(); v.a[1] = any_op(); Some(v) } else { None }; i += 1; }
            NCALLS = 0;
        }
        let ni: usize = kani::any(); let nd: usize = kani::any(); kani::assume(ni <= CAP && nd <= DEPS);
        let mut tx = TransactionView::default();
        tx.ins.n = ni; tx.ins.a[0] = any_op(); tx.ins.a[1] = any_op();
        tx.deps.n = nd; tx.deps.a[0] = CellDep { op: any_op(), group: kani::any() }; tx.deps.a[1] = CellDep { op: any_op(), group: kani::any() };
        let swc = StorageWithChainData;
        let r = resolve_tx(&swc, tx);
        unsafe {
            // ---- reference: the first failure in resolution order, else the resolved lists ----
            let mut want_err: Option<OutPointError> = None;
            let mut exp_in: SVec<CellMeta, RCAP> = SVec::default(); let mut exp_dep: SVec<CellMeta, RCAP> = SVec::default(); let mut exp_grp: SVec<CellMeta, RCAP> = SVec::default();
            let live = |op: OutPoint, eager: bool| CellMeta { id: op.0, eager, mem_cell_data: if eager { Some(Bytes(DATA[op.0 as usize])) } else { None } };
            let fail = |op: OutPoint, eager: bool| -> Option<OutPointError> { match status(op, eager) { 0 => None, 1 => Some(OutPointError::Dead(op)), _ => Some(OutPointError::Unknown(op)) } };
            let mut i = 0;
            while i < CAP { if i < ni && want_err.is_none() {
                let op = tx.ins.a[i];
                if i == 1 && tx.ins.a[0] == op { want_err = Some(OutPointError::Dead(op)); }      // the same out point spent twice
                else if let Some(e) = fail(op, false) { want_err = Some(e); } else { exp_in.push(live(op, false)); } } i += 1; }
            let mut d = 0;
            while d < CAP { if d < nd && want_err.is_none() {
                let dep = tx.deps.a[d];
                if !dep.group { if let Some(e) = fail(dep.op, false) { want_err = Some(e); } else { exp_dep.push(live(dep.op, false)); } }
                else if let Some(e) = fail(dep.op, true) { want_err = Some(e); }
                else {
                    let data = DATA[dep.op.0 as usize];
                    let dec = if data == 0 { None } else { DECODE[data as usize % NID] };
                    match dec { Some(v) if v.n > 0 => { let mut k = 0; while k < CAP { if k < v.n && want_err.is_none() { if let Some(e) = fail(v.a[k], false) { want_err = Some(e); } else { exp_dep.push(live(v.a[k], false)); } } k += 1; }
                                                     if want_err.is_none() { exp_grp.push(live(dep.op, true)); } }
                                _ => { want_err = Some(OutPointError::InvalidDepGroup(dep.op)); } }
                } } d += 1; }
            match (&r, want_err) {
                (Ok(rt), None) => {
                    assert!(rt.resolved_inputs == exp_in, "SPEC resolve: resolved inputs are not the live cells of the inputs, in order");
                    assert!(rt.resolved_cell_deps == exp_dep, "SPEC resolve: resolved cell deps are not the live cells of the deps (dep groups expanded), in order");
                    assert!(rt.resolved_dep_groups == exp_grp, "SPEC resolve: resolved dep groups differ");
                    assert!(rt.transaction == tx, "SPEC resolve: another transaction was returned");
                }
                (Ok(_), Some(e)) => { assert!(false, "SPEC resolve: a transaction was resolved although an input is spent twice / a cell is dead or unknown / a dep group is invalid"); }
                (Err(e), Some(w)) => { assert!(*e == w, "SPEC resolve: wrong resolution error"); }
                (Err(_), None) => { assert!(false, "SPEC resolve: a transaction whose inputs and deps all resolve to live cells was rejected"); }
            }
            kani::cover!(r.is_ok() && ni == 2 && exp_dep.n >= 2 && exp_grp.n >= 1, "two inputs and an expanded dep group resolved");
            kani::cover!(matches!(r, Err(OutPointError::Dead(_))) && ni == 2 && tx.ins.a[0] == tx.ins.a[1] && status(tx.ins.a[0], false) == 0, "duplicated live input rejected");
            kani::cover!(matches!(r, Err(OutPointError::InvalidDepGroup(_))), "invalid dep group");
        }
    }
}
