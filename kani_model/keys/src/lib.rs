// K-model unit `keys`: real text of `Key`, `KeyPrefix`, `impl From<Key> for Vec<u8>`, `append_key`, `extract_raw_data`, `CellType`
// (storage.rs) over a byte-vector model of Vec<u8> and a small model of packed::Script (1-byte code hash, 1-byte hash type,
// 0..=2 bytes of args).  Decides that the key encoding is injective and ORDER-PRESERVING - the fact get_cells / get_transactions
// ordering, cursors and rollback's reverse scan rely on.
#![allow(unused, dead_code, unused_mut, static_mut_refs, non_snake_case)]
pub const CAP: usize = 24;
#[macro_use] #[path = "../../prelude/macros.rs"] mod pmacros;
include!("../../prelude/vec.rs");
pub type BlockNumber = u64;
#[derive(Clone, Copy, PartialEq, Eq, Default, Debug)] pub struct Byte32(pub u8);
impl Byte32 { pub fn as_slice(&self) -> &[u8] { std::slice::from_ref(&self.0) } }
#[derive(Clone, Copy, PartialEq, Eq, Default, Debug)] pub struct Script { pub code: u8, pub ht: u8, pub args: [u8; 2], pub alen: usize }
pub struct B1(pub [u8; 1]); impl B1 { pub fn as_slice(&self) -> &[u8] { &self.0[..] } }
pub struct Args { pub b: [u8; 2], pub n: usize }
pub struct ArgsRaw { pub b: [u8; 2], pub n: usize }
impl std::ops::Deref for ArgsRaw { type Target = [u8]; fn deref(&self) -> &[u8] { &self.b[..self.n] } }
impl Args { pub fn raw_data(&self) -> ArgsRaw { ArgsRaw { b: self.b, n: self.n } } }
impl Script { pub fn code_hash(&self) -> B1 { B1([self.code]) } pub fn hash_type(&self) -> B1 { B1([self.ht]) } pub fn args(&self) -> Args { Args { b: self.args, n: self.alen } } }
pub trait MConcat { fn mconcat(&self) -> Vec<u8>; }
impl<'a, const N: usize> MConcat for [&'a [u8]; N] { fn mconcat(&self) -> Vec<u8> { let mut v = Vec::new(); let mut i = 0; while i < N { v.extend_from_slice(self[i]); i += 1; } v } }

include!("extracted.rs");

#[cfg(kani)]
mod harness {
    use super::*;
    fn any_script() -> Script { let alen: usize = kani::any(); kani::assume(alen <= 2); Script { code: kani::any(), ht: kani::any(), args: [kani::any(), kani::any()], alen } }
    /// bytewise lexicographic comparison (what RocksDB's default comparator does)
    fn lt(a: &Vec<u8>, b: &Vec<u8>) -> bool { let mut i = 0; while i < CAP { if i >= a.len || i >= b.len { return a.len < b.len; } if a.buf[i] != b.buf[i] { return a.buf[i] < b.buf[i]; } i += 1; } false }
    fn cell_key(lock: bool, s: &Script, n: u64, t: u32, o: u32) -> Vec<u8> { if lock { Key::CellLockScript(s, n, t, o).into_vec() } else { Key::CellTypeScript(s, n, t, o).into_vec() } }
    fn tx_key(lock: bool, s: &Script, n: u64, t: u32, o: u32, out: bool) -> Vec<u8> { let c = if out { CellType::Output } else { CellType::Input }; if lock { Key::TxLockScript(s, n, t, o, c).into_vec() } else { Key::TxTypeScript(s, n, t, o, c).into_vec() } }

    #[kani::proof] #[kani::unwind(26)]
    fn order_preserving() {
        let s = any_script(); let lock: bool = kani::any();
        let (n1, t1, o1): (u64, u32, u32) = (kani::any(), kani::any(), kani::any());
        let (n2, t2, o2): (u64, u32, u32) = (kani::any(), kani::any(), kani::any());
        let tuple_lt = n1 < n2 || (n1 == n2 && (t1 < t2 || (t1 == t2 && o1 < o2)));
        let (k1, k2) = (cell_key(lock, &s, n1, t1, o1), cell_key(lock, &s, n2, t2, o2));
        assert!(k1.len == k2.len && k1.len == 1 + 2 + s.alen + 16, "SPEC keys: live-cell key length is not prefix + script raw data + 16");
        assert!(lt(&k1, &k2) == tuple_lt, "SPEC keys: byte order of the live-cell keys of one script differs from (block number, tx index, output index) order");
        // history keys: the io type is the last component
        let (x1, x2): (bool, bool) = (kani::any(), kani::any());
        let (h1, h2) = (tx_key(lock, &s, n1, t1, o1, x1), tx_key(lock, &s, n2, t2, o2, x2));
        let same = n1 == n2 && t1 == t2 && o1 == o2;
        assert!(lt(&h1, &h2) == (tuple_lt || (same && !x1 && x2)), "SPEC keys: byte order of the history keys differs from (block number, tx index, io index, io type) order");
        assert!(h1.buf[h1.len - 1] == x1 as u8, "SPEC keys: io type is not the last byte (rollback reads it positionally)");
        // the fields sit at fixed offsets after the script raw data (rollback_to_block parses them positionally)
        let p = 3 + s.alen;
        let mut be = [0u8; 8]; let mut i = 0; while i < 8 { be[i] = h1.buf[p + i]; i += 1; }
        assert!(u64::from_be_bytes(be) == n1, "SPEC keys: block number is not at offset prefix_len in big endian");
        kani::cover!(tuple_lt && n1 == n2 && t1 == t2, "ordered by the output index only");
    }

    #[kani::proof] #[kani::unwind(26)]
    fn injective() {
        let (s1, s2) = (any_script(), any_script());
        let (l1, l2): (bool, bool) = (kani::any(), kani::any());
        let (n1, t1, o1): (u64, u32, u32) = (kani::any(), kani::any(), kani::any());
        let (n2, t2, o2): (u64, u32, u32) = (kani::any(), kani::any(), kani::any());
        let (k1, k2) = (cell_key(l1, &s1, n1, t1, o1), cell_key(l2, &s2, n2, t2, o2));
        let same_script = s1.code == s2.code && s1.ht == s2.ht && s1.alen == s2.alen && (s1.alen < 1 || s1.args[0] == s2.args[0]) && (s1.alen < 2 || s1.args[1] == s2.args[1]);
        if k1 == k2 { assert!(k1.len == k2.len); }
        // scripts with raw data of the same length never collide, and a key determines its fields
        if s1.alen == s2.alen { assert!((k1 == k2) == (same_script && l1 == l2 && n1 == n2 && t1 == t2 && o1 == o2), "SPEC keys: two different (script, block, tx, output) tuples share a live-cell key, or equal tuples do not"); }
        kani::cover!(k1 == k2, "equal keys");
        // different key spaces never overlap: the first byte is the KeyPrefix
        let h = tx_key(l1, &s1, n1, t1, o1, kani::any());
        assert!(h.buf[0] != k1.buf[0] && (k1.buf[0] == KeyPrefix::CellLockScript as u8 || k1.buf[0] == KeyPrefix::CellTypeScript as u8), "SPEC keys: key-space prefixes overlap");
        let m = Key::Meta("X").into_vec(); let b = Key::BlockNumber(n1).into_vec(); let t = Key::TxHash(&Byte32(kani::any())).into_vec(); let c = Key::CheckPointIndex(t1).into_vec(); let bh = Key::BlockHash(&Byte32(kani::any())).into_vec();
        let firsts = [m.buf[0], b.buf[0], t.buf[0], c.buf[0], bh.buf[0], k1.buf[0], h.buf[0]];
        let mut i = 0; while i < 7 { let mut j = i + 1; while j < 7 { if !(i == 5 && false) { assert!(firsts[i] != firsts[j] || (i >= 5), "SPEC keys: two key spaces share a prefix byte"); } j += 1; } i += 1; }
    }
}
