// K-model unit `filterblock`: real text of Storage::filter_block (storage.rs) over a STRUCTURED key/value model: `Key::into_vec()` yields a
// structured key (namespace, script id, block number, tx index, cell index, io type) instead of bytes - justified by unit `keys`
// (the byte encoding is injective and order-preserving) - and the write batch is an operation list compared with an independently
// computed ground-truth index delta.
#![allow(unused, dead_code, unused_mut, static_mut_refs, non_snake_case)]
#[macro_use] #[path = "../../prelude/macros.rs"] mod pmacros;
pub type BlockNumber = u64; pub type TxIndex = u32; pub type OutputIndex = u32; pub type CellIndex = u32;
pub const CAP: usize = 2;   // txs per block, inputs/outputs per tx
#[cfg(not(fb_small))] pub const OPS: usize = 28;
#[cfg(fb_small)] pub const OPS: usize = 14;

pub trait Unpack<T> { fn unpack(&self) -> T; }
#[derive(Clone, Copy, PartialEq, Eq, Default, Debug)] pub struct Byte32(pub u8);
impl Byte32 { pub fn as_slice(&self) -> &[u8] { std::slice::from_ref(&self.0) } }
#[derive(Clone, Copy, PartialEq, Eq, Default, Debug)] pub struct Script(pub u8);
#[derive(Clone, Copy, Default)] pub struct ScriptOpt(pub Option<Script>);
impl ScriptOpt { pub fn to_opt(&self) -> Option<Script> { self.0 } }
#[derive(Clone, Copy, PartialEq, Eq, Debug)] pub enum ScriptType { Lock, Type }
#[derive(Clone, Copy)] pub enum CellType { Input, Output }
#[derive(Clone, Copy, Default)] pub struct CellOutput { pub lock: Script, pub type_: ScriptOpt }
impl CellOutput { pub fn lock(&self) -> Script { self.lock } pub fn type_(&self) -> ScriptOpt { self.type_ } }
#[derive(Clone, Copy, Default)] pub struct PU32(pub u32);
impl Unpack<usize> for PU32 { fn unpack(&self) -> usize { self.0 as usize } }
#[derive(Clone, Copy, Default)] pub struct PU64(pub u64);
impl Unpack<u64> for PU64 { fn unpack(&self) -> u64 { self.0 } }
#[derive(Clone, Copy, Default)] pub struct OutPoint { pub tx_hash: Byte32, pub index: u32 }
impl OutPoint { pub fn tx_hash(&self) -> Byte32 { self.tx_hash } pub fn index(&self) -> PU32 { PU32(self.index) } }
#[derive(Clone, Copy, Default)] pub struct CellInput { pub prev: OutPoint }
impl CellInput { pub fn previous_output(&self) -> OutPoint { self.prev } }
// small fixed vectors
#[derive(Clone, Copy, Default)] pub struct SVec<T: Copy + Default> { pub a: [T; CAP], pub n: usize }
impl<T: Copy + Default> SVec<T> { pub fn get(&self, i: usize) -> Option<T> { if i < self.n { Some(self.a[i]) } else { None } } }
pub struct SIter<T: Copy + Default> { v: SVec<T>, p: usize }
impl<T: Copy + Default> Iterator for SIter<T> { type Item = T; fn next(&mut self) -> Option<T> { if self.p < self.v.n { let r = self.v.a[self.p]; self.p += 1; Some(r) } else { None } } }
impl<T: Copy + Default> IntoIterator for SVec<T> { type Item = T; type IntoIter = SIter<T>; fn into_iter(self) -> SIter<T> { SIter { v: self, p: 0 } } }
#[derive(Clone, Copy, Default)] pub struct RawTransaction { pub inputs: SVec<CellInput>, pub outputs: SVec<CellOutput> }
impl RawTransaction { pub fn inputs(&self) -> SVec<CellInput> { self.inputs } pub fn outputs(&self) -> SVec<CellOutput> { self.outputs } }
#[derive(Clone, Copy, Default)] pub struct Transaction { pub hash: Byte32, pub raw: RawTransaction }
impl Transaction { pub fn raw(&self) -> RawTransaction { self.raw } pub fn calc_tx_hash(&self) -> Byte32 { self.hash } }
#[derive(Clone, Copy, Default)] pub struct RawHeader { pub number: u64 }
impl RawHeader { pub fn number(&self) -> PU64 { PU64(self.number) } }
#[derive(Clone, Copy, Default)] pub struct Header { pub raw: RawHeader, pub hash: Byte32 }
impl Header { pub fn raw(&self) -> RawHeader { self.raw } pub fn calc_header_hash(&self) -> Byte32 { self.hash } }
#[derive(Clone, Copy, Default)] pub struct Block { pub header: Header, pub hash: Byte32, pub txs: SVec<Transaction> }
impl Block { pub fn header(&self) -> Header { self.header } pub fn transactions(&self) -> SVec<Transaction> { self.txs } pub fn calc_header_hash(&self) -> Byte32 { self.hash } pub fn extension(&self) -> Option<u8> { None } }
pub struct HeaderWithExtension { pub header: Header, pub extension: Option<u8> }
impl HeaderWithExtension { fn to_vec(&self) -> MVal { MVal::Header(self.header.raw.number) } }

// structured keys/values
// (flat words instead of enums with payloads: equality is three integer comparisons, which keeps the op-list scans cheap for CBMC)
#[derive(Clone, Copy, PartialEq, Eq, Debug)] pub struct MKey { pub a: u64, pub n: u64, pub c: u64 }
#[allow(non_snake_case)]
impl MKey {
    pub const None: MKey = MKey { a: 0, n: 0, c: 0 };
    fn st(t: ScriptType) -> u64 { match t { ScriptType::Lock => 0, ScriptType::Type => 1 } }
    pub fn TxHash(h: u8) -> MKey { MKey { a: 1 | ((h as u64) << 8), n: 0, c: 0 } }
    pub fn Cell(t: ScriptType, s: u8, n: u64, ti: u32, o: u32) -> MKey { MKey { a: 2 | (Self::st(t) << 4) | ((s as u64) << 8), n, c: ((ti as u64) << 32) | o as u64 } }
    pub fn Tx(t: ScriptType, s: u8, n: u64, ti: u32, o: u32, out: bool) -> MKey { MKey { a: 3 | (Self::st(t) << 4) | ((out as u64) << 5) | ((s as u64) << 8), n, c: ((ti as u64) << 32) | o as u64 } }
    pub fn BlockHash(h: u8) -> MKey { MKey { a: 4 | ((h as u64) << 8), n: 0, c: 0 } }
    pub fn BlockNumber(n: u64) -> MKey { MKey { a: 5, n, c: 0 } }
    pub fn is_cell(&self) -> bool { self.a & 0xf == 2 }
    pub fn number(&self) -> u64 { self.n }
    pub fn tx_index(&self) -> u32 { (self.c >> 32) as u32 }
}
#[derive(Clone, Copy, PartialEq, Eq, Debug)] pub struct MVal { pub a: u64, pub b: u64 }
#[allow(non_snake_case)]
impl MVal {
    pub const None: MVal = MVal { a: 0, b: 0 };
    pub fn Hash(h: u8) -> MVal { MVal { a: 1 | ((h as u64) << 8), b: 0 } }
    pub fn Tx(n: u64, t: u32, h: u8) -> MVal { MVal { a: 2 | ((h as u64) << 8) | ((t as u64) << 16), b: n } }
    pub fn Header(n: u64) -> MVal { MVal { a: 3, b: n } }
}
pub enum Key<'a> { TxHash(&'a Byte32), CellLockScript(&'a Script, BlockNumber, TxIndex, OutputIndex), CellTypeScript(&'a Script, BlockNumber, TxIndex, OutputIndex), TxLockScript(&'a Script, BlockNumber, TxIndex, CellIndex, CellType), TxTypeScript(&'a Script, BlockNumber, TxIndex, CellIndex, CellType), BlockHash(&'a Byte32), BlockNumber(BlockNumber) }
impl<'a> Key<'a> { pub fn into_vec(self) -> MKey { match self {
    Key::TxHash(h) => MKey::TxHash(h.0),
    Key::CellLockScript(s, n, t, o) => MKey::Cell(ScriptType::Lock, s.0, n, t, o),
    Key::CellTypeScript(s, n, t, o) => MKey::Cell(ScriptType::Type, s.0, n, t, o),
    Key::TxLockScript(s, n, t, o, c) => MKey::Tx(ScriptType::Lock, s.0, n, t, o, matches!(c, CellType::Output)),
    Key::TxTypeScript(s, n, t, o, c) => MKey::Tx(ScriptType::Type, s.0, n, t, o, matches!(c, CellType::Output)),
    Key::BlockHash(h) => MKey::BlockHash(h.0), Key::BlockNumber(n) => MKey::BlockNumber(n) } } }
pub enum Value<'a> { Transaction(BlockNumber, TxIndex, &'a Transaction) }
pub trait IntoVal { fn into_val(self) -> MVal; }
impl<'a> IntoVal for Value<'a> { fn into_val(self) -> MVal { match self { Value::Transaction(n, t, tx) => MVal::Tx(n, t, tx.hash.0) } } }
impl<'a> IntoVal for &'a [u8] { fn into_val(self) -> MVal { MVal::Hash(self[0]) } }
impl IntoVal for MVal { fn into_val(self) -> MVal { self } }
#[derive(Clone, Copy)] pub struct Op { pub put: bool, pub k: MKey, pub v: MVal }
pub struct Batch { pub ops: [Op; OPS], pub n: usize }
pub static mut COMMITTED: Batch = Batch { ops: [Op { put: false, k: MKey::None, v: MVal::None }; OPS], n: 0 };
pub static mut COMMITS: usize = 0;
impl Batch {
    pub fn put<V: IntoVal>(&mut self, k: MKey, v: V) -> Result<(), ()> { assert!(self.n < OPS, "MODEL-BOUND: batch capacity"); self.ops[self.n] = Op { put: true, k, v: v.into_val() }; self.n += 1; Ok(()) }
    pub fn put_kv<V: IntoVal>(&mut self, k: MKey, v: V) -> Result<(), ()> { self.put(k, v) }
    pub fn delete(&mut self, k: MKey) -> Result<(), ()> { assert!(self.n < OPS, "MODEL-BOUND: batch capacity"); self.ops[self.n] = Op { put: false, k, v: MVal::None }; self.n += 1; Ok(()) }
    pub fn commit(self) -> Result<(), ()> { unsafe { COMMITTED.ops = self.ops; COMMITTED.n = self.n; COMMITS += 1; } Ok(()) }
}
// containers
pub struct HashSet<T: Copy + PartialEq> { a: [Option<T>; 4], n: usize }
impl<T: Copy + PartialEq> HashSet<T> { pub fn contains(&self, t: &T) -> bool { let mut i = 0; while i < self.n { if self.a[i] == Some(*t) { return true; } i += 1; } false } }
impl<T: Copy + PartialEq> FromIterator<T> for HashSet<T> { fn from_iter<I: IntoIterator<Item = T>>(it: I) -> Self { let mut s = HashSet { a: [None; 4], n: 0 }; for x in it { if !s.contains(&x) { assert!(s.n < 4); s.a[s.n] = Some(x); s.n += 1; } } s } }
pub struct HashMap<K: Copy + PartialEq, V: Copy> { a: [Option<(K, V)>; CAP], n: usize }
impl<K: Copy + PartialEq, V: Copy> HashMap<K, V> {
    pub fn new() -> Self { HashMap { a: [None; CAP], n: 0 } }
    pub fn get(&self, k: &K) -> Option<&V> { let mut i = 0; while i < self.n { if let Some((kk, v)) = &self.a[i] { if kk == k { return Some(v); } } i += 1; } None }
    pub fn insert(&mut self, k: K, v: V) { let mut i = 0; while i < self.n { if let Some((kk, _)) = &self.a[i] { if *kk == k { self.a[i] = Some((k, v)); return; } } i += 1; } assert!(self.n < CAP, "MODEL-BOUND: HashMap capacity"); self.a[self.n] = Some((k, v)); self.n += 1; }
}
#[derive(Clone, Copy)] pub struct ScriptStatus { pub script: Script, pub script_type: ScriptType, pub block_number: u64 }
pub struct Storage { pub scripts: [ScriptStatus; 2], pub stored: [(Byte32, u64, u32, Transaction); 1], pub hdr_stored: bool }
impl Storage {
    fn batch(&self) -> Batch { Batch { ops: [Op { put: false, k: MKey::None, v: MVal::None }; OPS], n: 0 } }
    pub fn get_filter_scripts(&self) -> [ScriptStatus; 2] { self.scripts }
    /// whether the header of the block at hand is already stored (fetched earlier, or indexed before a fork switch) is ARBITRARY
    pub fn get_header(&self, _h: &Byte32) -> Option<Header> { if self.hdr_stored { Some(Header::default()) } else { None } }
    fn get_transaction(&self, h: &Byte32) -> Option<(BlockNumber, TxIndex, Transaction)> { if self.stored[0].0 == *h { Some((self.stored[0].1, self.stored[0].2, self.stored[0].3)) } else { None } }
}

include!("extracted.rs");

#[cfg(kani)]
mod harness {
    use super::*;
    fn any_script() -> Script { let b: u8 = kani::any(); kani::assume(b < 3); Script(b) }
    fn any_out(with_type: bool) -> CellOutput { CellOutput { lock: any_script(), type_: ScriptOpt(if with_type && kani::any() { Some(any_script()) } else { None }) } }
    fn any_tx(hash: u8, nin: usize, with_type: bool) -> Transaction {
        let h: u8 = kani::any(); kani::assume(h == 10 || h == 20 || h == 21 || h == 99);
        let idx: u32 = kani::any(); kani::assume(idx < 3);
        let mut ins = SVec::default(); ins.n = nin; ins.a[0] = CellInput { prev: OutPoint { tx_hash: Byte32(h), index: idx } };
        let mut outs = SVec::default(); outs.n = 1; outs.a[0] = any_out(with_type); outs.a[1] = any_out(with_type);
        Transaction { hash: Byte32(hash), raw: RawTransaction { inputs: ins, outputs: outs } }
    }
    unsafe fn has(put: bool, k: MKey) -> bool { let mut i = 0; while i < COMMITTED.n { if COMMITTED.ops[i].put == put && COMMITTED.ops[i].k == k { return true; } i += 1; } false }
    unsafe fn has_val(k: MKey, v: MVal) -> bool { let mut i = 0; while i < COMMITTED.n { if COMMITTED.ops[i].put && COMMITTED.ops[i].k == k && COMMITTED.ops[i].v == v { return true; } i += 1; } false }
    unsafe fn count_cell_ops(put: bool) -> usize { let mut c = 0; let mut i = 0; while i < COMMITTED.n { if COMMITTED.ops[i].put == put && COMMITTED.ops[i].k.is_cell() { c += 1; } i += 1; } c }
    fn filter_block_step<const WITH_TYPE: bool, const NTX: usize>() {
        let bn: u64 = kani::any();
        let gen_bn: u64 = kani::any(); let gen_ti: u32 = kani::any();
        kani::assume(gen_bn < bn);
        let mut prev = any_tx(10, 0, WITH_TYPE);
        let st = Storage {
            scripts: [ScriptStatus { script: Script(1), script_type: ScriptType::Lock, block_number: 0 }, ScriptStatus { script: Script(2), script_type: ScriptType::Type, block_number: 0 }],
            stored: [(Byte32(10), gen_bn, gen_ti, prev)], hdr_stored: kani::any(),
        };
        let t0 = any_tx(20, 1, WITH_TYPE);
        let t1 = any_tx(21, 1, WITH_TYPE);
        let ntx: usize = NTX;
        let mut txs = SVec::default(); txs.n = ntx; txs.a[0] = t0; txs.a[1] = t1;
        let block = Block { header: Header { raw: RawHeader { number: bn }, hash: Byte32(7) }, hash: Byte32(7), txs };
        st.filter_block(block);
        unsafe {
            assert!(COMMITS == 1, "SPEC index: the block must be indexed by exactly one atomic batch");
            // ground truth, outputs
            let mut expect_puts = 0; let mut expect_dels = 0;
            let mut t = 0;
            while t < ntx {
                let tx = txs.a[t];
                let mut o = 0;
                while o < tx.raw.outputs.n {
                    let out = tx.raw.outputs.a[o];
                    if out.lock == Script(1) { expect_puts += 1; assert!(has(true, MKey::Cell(ScriptType::Lock, 1, bn, t as u32, o as u32)), "SPEC index: an output paying a registered lock script is not indexed as a live cell"); assert!(has(true, MKey::Tx(ScriptType::Lock, 1, bn, t as u32, o as u32, true)), "SPEC index: output history row missing"); assert!(has_val(MKey::TxHash(tx.hash.0), MVal::Tx(bn, t as u32, tx.hash.0)), "SPEC index: transaction row missing or with the wrong (block number, tx index)"); }
                    if out.type_.0 == Some(Script(2)) { expect_puts += 1; assert!(has(true, MKey::Cell(ScriptType::Type, 2, bn, t as u32, o as u32)), "SPEC index: an output carrying a registered type script is not indexed as a live cell"); assert!(has(true, MKey::Tx(ScriptType::Type, 2, bn, t as u32, o as u32, true)), "SPEC index: output history row missing (type)"); assert!(has_val(MKey::TxHash(tx.hash.0), MVal::Tx(bn, t as u32, tx.hash.0)), "SPEC index: transaction row missing or wrong (type)"); }
                    o += 1;
                }
                // the single input
                let inp = tx.raw.inputs.a[0].prev;
                let src: Option<(u64, u32, Transaction)> = if inp.tx_hash == Byte32(10) { Some((gen_bn, gen_ti, prev)) } else if t == 1 && inp.tx_hash == Byte32(20) { Some((bn, 0, t0)) } else { None };
                if let Some((sbn, sti, stx)) = src {
                    if (inp.index as usize) < stx.raw.outputs.n {
                        let po = stx.raw.outputs.a[inp.index as usize];
                        if po.lock == Script(1) { expect_dels += 1; assert!(has(false, MKey::Cell(ScriptType::Lock, 1, sbn, sti, inp.index)), "SPEC index: a spent cell of a registered lock script is not deleted (or the wrong cell is)"); assert!(has(true, MKey::Tx(ScriptType::Lock, 1, bn, t as u32, 0, false)), "SPEC index: input history row missing"); assert!(has_val(MKey::TxHash(tx.hash.0), MVal::Tx(bn, t as u32, tx.hash.0)), "SPEC index: spending transaction row missing or wrong"); }
                        if po.type_.0 == Some(Script(2)) { expect_dels += 1; assert!(has(false, MKey::Cell(ScriptType::Type, 2, sbn, sti, inp.index)), "SPEC index: a spent cell of a registered type script is not deleted (or the wrong cell is)"); assert!(has(true, MKey::Tx(ScriptType::Type, 2, bn, t as u32, 0, false)), "SPEC index: input history row missing (type)"); }
                    }
                }
                t += 1;
            }
            assert!(count_cell_ops(true) == expect_puts, "SPEC index: phantom live cells were written");
            assert!(count_cell_ops(false) == expect_dels, "SPEC index: live cells deleted that the block does not spend");
            assert!(has(true, MKey::BlockNumber(bn)) == (expect_puts + expect_dels > 0) && has(true, MKey::BlockHash(7)) == (expect_puts + expect_dels > 0), "SPEC index: header rows written iff the block touches a registered script");
            // the cell live-row value is the creating transaction hash
            let mut i = 0; while i < COMMITTED.n { if COMMITTED.ops[i].put && COMMITTED.ops[i].k.is_cell() { let (n, ti) = (COMMITTED.ops[i].k.number(), COMMITTED.ops[i].k.tx_index()); assert!(n == bn && (ti as usize) < ntx && COMMITTED.ops[i].v == MVal::Hash(txs.a[ti as usize].hash.0), "SPEC index: a live-cell row does not point at its creating transaction"); } i += 1; }
            if NTX == 2 { kani::cover!(expect_dels == 2 && expect_puts >= 1, "two spends and a new cell"); kani::cover!(expect_dels >= 1 && txs.a[1].raw.inputs.a[0].prev.tx_hash == Byte32(20), "a same-block spend"); } else { kani::cover!(expect_dels == 2 && expect_puts >= 1, "a spend of a lock+type cell and a new cell"); kani::cover!(expect_dels == 0 && expect_puts == 0, "untouched block"); }
        }
    }
    /// add_fetched_header / add_fetched_tx (fetch_header / fetch_transaction results): ONE atomic batch that ALWAYS (re)writes the header row and the
    /// number -> hash mapping of the proved block - get_transaction_with_header resolves the block BY NUMBER, so a mapping left over from an abandoned
    /// branch (or from a sibling fetched earlier) must be overwritten - plus, for a transaction, its row (number, u32::MAX, tx) - or (number, recorded index, tx) when filter_block indexed it in this very block
    #[cfg(fb_fetched)] #[kani::proof] #[kani::unwind(16)] fn fetched_rows() {
        let st = Storage {
            scripts: [ScriptStatus { script: Script(1), script_type: ScriptType::Lock, block_number: 0 }, ScriptStatus { script: Script(2), script_type: ScriptType::Type, block_number: 0 }],
            stored: [(Byte32(10), kani::any(), kani::any(), any_tx(10, 0, true))], hdr_stored: kani::any(),
        };
        let n: u64 = kani::any(); let h: u8 = kani::any();
        let hwe = HeaderWithExtension { header: Header { raw: RawHeader { number: n }, hash: Byte32(h) }, extension: None };
        unsafe { COMMITS = 0; COMMITTED.n = 0; }
        if kani::any() {
            st.add_fetched_header(&hwe);
            unsafe {
                assert!(COMMITS == 1 && COMMITTED.n == 2, "SPEC fetched header: not exactly one atomic batch of (header row, number -> hash mapping)");
                assert!(has_val(MKey::BlockHash(h), MVal::Header(n)) && has_val(MKey::BlockNumber(n), MVal::Hash(h)), "SPEC fetched header: header row / number -> hash mapping of the proved block not written");
            }
        } else {
            let th: u8 = kani::any();
            let tx = any_tx(th, 1, true);
            st.add_fetched_tx(&tx, &hwe);
            unsafe {
                assert!(COMMITS == 1 && COMMITTED.n == 3, "SPEC fetched transaction: not exactly one atomic batch of (header row, number -> hash mapping, transaction row)");
                assert!(has_val(MKey::BlockHash(h), MVal::Header(n)) && has_val(MKey::BlockNumber(n), MVal::Hash(h)), "SPEC fetched transaction: header row / number -> hash mapping of the proved block not (re)written: get_transaction would report another block for it");
                // a transaction that filter_block already indexed IN THIS BLOCK keeps its real index: filter_block deletes the live cell of a spent output by (number, tx_index) read
                // from this row, so a late fetch reply that rewrote it to u32::MAX left the spent cell live for ever (fixed: 3017341, native_replays/replay_c03_fetched_tx_index.diff)
                let indexed_here = st.stored[0].0 == Byte32(th) && st.stored[0].1 == n;
                let want = if indexed_here { st.stored[0].2 } else { u32::MAX };
                assert!(has_val(MKey::TxHash(th), MVal::Tx(n, want, th)), "SPEC fetched transaction: transaction row is not (block number, tx_index, tx) with the index filter_block recorded for it in this block, or u32::MAX when it is not indexed in this block");
                kani::cover!(indexed_here && want != u32::MAX, "the fetched transaction was already indexed in this block");
                kani::cover!(st.hdr_stored, "the header was stored before");
            }
        }
    }
    #[cfg(fb_small)] #[kani::proof] #[kani::unwind(16)] fn filter_block_one_tx() { filter_block_step::<true, 1>(); }
    #[cfg(not(fb_small))] #[kani::proof] #[kani::unwind(30)] fn filter_block_lock_only() { filter_block_step::<false, 2>(); }
    #[cfg(not(fb_small))] #[kani::proof] #[kani::unwind(30)] fn filter_block_lock_and_type() { filter_block_step::<true, 2>(); }
}
