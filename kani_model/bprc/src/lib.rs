// K-model unit `bprc`: real text of LightClientProtocol::build_prove_request_content and ..._from_genesis (light_client/mod.rs).
// sampling::sample_blocks is replaced by its contract (decided on its own text in unit `sampling`, C15 O15.1).
#![allow(unused, dead_code, unused_mut, static_mut_refs, non_snake_case)]
pub const CAP: usize = 3;
#[macro_use] #[path = "../../prelude/macros.rs"] mod pmacros;
include!("../../prelude/vec.rs");
include!("../../prelude/u256.rs");
include!("../../prelude/epoch.rs");
include!("../../prelude/lc_types.rs");
#[derive(Clone, Copy, Default)] pub struct ProveState { pub last: VerifiableHeader }
impl ProveState { pub fn get_last_header(&self) -> &VerifiableHeader { &self.last } }
#[derive(Clone, Copy, Default)] pub struct PeerState { pub ps: Option<ProveState> }
impl PeerState { pub fn get_prove_state(&self) -> Option<&ProveState> { self.ps.as_ref() } }
pub struct Storage { pub td: U256, pub tip: HeaderView, pub last_n: Vec<(u64, Byte32)>, pub genesis: HeaderView }
#[derive(Clone, Copy)] pub struct PBlock(pub HeaderView);
impl PBlock { pub fn calc_header_hash(&self) -> Byte32 { Byte32(self.0.id) } }
impl Storage {
    pub fn get_last_state(&self) -> (U256, PHeader) { (self.td, PHeader(self.tip)) }
    pub fn get_last_n_headers(&self) -> Vec<(u64, Byte32)> { self.last_n }
    pub fn get_genesis_block(&self) -> PBlock { PBlock(self.genesis) }
}
pub struct LightClientProtocol { pub storage: Storage, pub last_n: u64 }
impl LightClientProtocol { pub fn last_n_blocks(&self) -> u64 { self.last_n } }
pub mod sampling {
    use super::*;
    pub static mut CALLED: Option<(u64, u64, u64, u64, u64)> = None;
    pub static mut RET: (U256, Vec<U256>) = (U256(0), Vec { buf: [U256(0); CAP], len: 0 });
    /// contract of the real sample_blocks (C15 O15.1): boundary in (start, last]; difficulties strictly increasing inside [start, boundary)
    pub fn sample_blocks(start_number: u64, start_td: &U256, last_number: u64, last_td: &U256, last_n: u64) -> (U256, Vec<U256>) {
        unsafe { CALLED = Some((start_number, start_td.0, last_number, last_td.0, last_n)); RET }
    }
}
pub mod packed {
    use super::*;
    pub use super::Byte32;
    #[derive(Clone, Copy, Default)] pub struct PU256Vec(pub Vec<PU256>);
    #[derive(Clone, Copy, Default)]
    pub struct GetLastStateProof { pub last_hash: Byte32, pub start_hash: Byte32, pub start_number: u64, pub last_n_blocks: u64, pub boundary: U256, pub diffs: Vec<PU256>, pub set: u8 }
    impl GetLastStateProof { pub fn new_builder() -> GetLastStateProof { GetLastStateProof::default() } pub fn build(self) -> GetLastStateProof { self }
        pub fn last_hash(mut self, h: Byte32) -> Self { self.last_hash = h; self.set |= 1; self }
        pub fn start_hash(mut self, h: Byte32) -> Self { self.start_hash = h; self.set |= 2; self }
        pub fn start_number(mut self, n: PU64) -> Self { self.start_number = n.0; self.set |= 4; self }
        pub fn last_n_blocks(mut self, n: PU64) -> Self { self.last_n_blocks = n.0; self.set |= 8; self }
        pub fn difficulty_boundary(mut self, b: PU256) -> Self { self.boundary = b.0; self.set |= 16; self }
        pub fn difficulties(mut self, d: PU256Vec) -> Self { self.diffs = d.0; self.set |= 32; self }
    }
}
pub trait PackIter { fn pack(self) -> packed::PU256Vec; }
impl<I: Iterator<Item = PU256>> PackIter for I { fn pack(self) -> packed::PU256Vec { let mut v = Vec::new(); for x in self { v.push(x); } packed::PU256Vec(v) } }

include!("extracted.rs");

#[cfg(kani)]
mod harness {
    use super::*;
    fn vh(number: u64, id: u8, ptd: u64, diff: u64) -> VerifiableHeader { VerifiableHeader { header: HeaderView { id, number, diff, ..Default::default() }, uncles: 0, ext: None, root: HeaderDigest { td: U256(ptd), end_number: 0, id: 0 } } }
    #[kani::proof] #[kani::unwind(6)]
    fn request_content() {
        let last_n: u64 = kani::any(); kani::assume(last_n >= 1 && last_n <= 3);
        // stored state
        let nl: usize = kani::any(); kani::assume(nl <= 3);
        let mut stored = Vec::new(); let mut i = 0;
        while i < 3 { if i < nl { let n: u64 = kani::any(); kani::assume(n < (1u64 << 63)); /* number of a PROVEN header */ stored.push((n, Byte32(kani::any()))); } i += 1; }
        let tip = HeaderView { id: kani::any(), number: kani::any(), ..Default::default() };
        let proto = LightClientProtocol { storage: Storage { td: U256(kani::any()), tip, last_n: stored, genesis: HeaderView::default() }, last_n };
        // peer state: proven or not
        let proven: bool = kani::any();
        let pv = vh(kani::any(), kani::any(), kani::any(), kani::any());
        kani::assume(pv.root.td.0.checked_add(pv.header.diff).is_some());
        let ps = PeerState { ps: if proven { Some(ProveState { last: pv }) } else { None } };
        let last = vh(kani::any(), kani::any(), kani::any(), kani::any());
        kani::assume(last.root.td.0.checked_add(last.header.diff).is_some());    // passed check_verifiable_header (overflow guard)
        // sample_blocks answer satisfying its contract
        let (start_number, start_hash, start_td) = if proven { (pv.header.number, pv.header.id, pv.root.td.0 + pv.header.diff) } else { (tip.number, tip.id, proto.storage.td.0) };
        let last_td = last.root.td.0 + last.header.diff;
        unsafe {
            sampling::CALLED = None;
            let b: u64 = kani::any(); let nd: usize = kani::any(); kani::assume(nd <= 2);
            let mut ds = Vec::new(); let d0: u64 = kani::any(); let d1: u64 = kani::any();
            if nd >= 1 { ds.push(U256(d0)); } if nd >= 2 { ds.push(U256(d1)); kani::assume(d0 < d1); }
            sampling::RET = (U256(b), ds);
        }
        let from_genesis: bool = kani::any();
        let r = if from_genesis { proto.build_prove_request_content_from_genesis(&last) } else { proto.build_prove_request_content(&ps, &last) };
        let (s_num, s_hash, s_td) = if from_genesis { (0u64, 0u8, 0u64) } else { (start_number, start_hash, start_td) };
        match r {
            None => assert!(s_td > last_td || s_num >= last.header.number, "SPEC request: no request built although the last state is ahead of the start"),
            Some(c) => {
                assert!(s_num < last.header.number && s_td <= last_td, "SPEC request: a request was built whose start is not strictly below the last block / above it in difficulty");
                assert!(c.set & 0x1f == 0x1f && c.last_hash.0 == last.header.id && c.last_n_blocks == last_n, "SPEC request: last hash / last-N / start / boundary fields not all set");
                if last.header.number - s_num <= last_n {
                    // at most last-N blocks are missing: ask for all of them, no samples
                    assert!(c.diffs.len == 0 && unsafe { sampling::CALLED.is_none() }, "SPEC request: samples requested although at most last-N blocks are missing");
                    assert!(c.boundary.0 == s_td, "SPEC request: boundary must equal the start total difficulty when no samples are requested");
                    if c.start_number == s_num && c.start_hash.0 == s_hash { }
                    else {
                        assert!(!from_genesis, "SPEC request: a from-genesis request must start at genesis");
                        // re-based onto a remembered header: strictly below the start and within last-N of the requested tip; the first such in stored order
                        let mut found = false; let mut i = 0;
                        while i < 3 { if i < nl && !found { let (n, h) = stored.buf[i]; if n < s_num && last.header.number <= n.wrapping_add(last_n) { found = true;
                            assert!(c.start_number == n && c.start_hash == h, "SPEC request: re-based onto another header than the first remembered one that qualifies"); } } i += 1; }
                        assert!(found, "SPEC request: start re-based onto a header that is not a remembered last-N header strictly below the start and within last-N of the tip");
                    }
                    kani::cover!(c.start_number != s_num, "start re-based onto a remembered header");
                } else {
                    assert!(c.start_number == s_num && c.start_hash.0 == s_hash, "SPEC request: sampling request must start at the proven / stored start");
                    unsafe { assert!(sampling::CALLED == Some((s_num, s_td, last.header.number, last_td, last_n)), "SPEC request: sample_blocks called with other end points"); 
                        assert!(c.boundary == sampling::RET.0 && c.diffs.len == sampling::RET.1.len, "SPEC request: boundary / difficulties are not the sampled ones"); }
                    kani::cover!(c.diffs.len == 2, "two sampled difficulties");
                }
            }
        }
    }
}
