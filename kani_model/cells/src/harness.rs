// Harnesses of unit `cells` (C13).  Ground truth = the list of index rows, in key order, that match the search key and every
// filter, computed from the STRUCTURED fields of the rows (never from key bytes) by `matches` below.
use super::*;

#[derive(Clone, Copy)]
pub struct RowF { pub space: u8, pub script: Script, pub number: u64, pub ti: u32, pub oi: u32, pub tx: u8 }

fn any_script() -> Script {
    let alen: usize = kani::any(); kani::assume(alen <= 2);
    let a0: u8 = kani::any(); let a1: u8 = kani::any();
    Script { code: kani::any(), ht: kani::any(), args: [if alen >= 1 { a0 } else { 0 }, if alen >= 2 { a1 } else { 0 }], alen }
}
fn raw_len(s: &Script) -> usize { 2 + s.alen }
/// raw(s) starts with raw(p)   (raw = code hash ++ hash type ++ args)
fn script_has_prefix(s: &Script, p: &Script) -> bool {
    s.code == p.code && s.ht == p.ht && p.alen <= s.alen && (p.alen < 1 || s.args[0] == p.args[0]) && (p.alen < 2 || s.args[1] == p.args[1])
}
fn row_key(r: &RowF) -> Vec<u8> {
    let k = match r.space {
        0 => Key::CellLockScript(&r.script, r.number, r.ti, r.oi).into_vec(),
        1 => Key::CellTypeScript(&r.script, r.number, r.ti, r.oi).into_vec(),
        _ => Key::TxLockScript(&r.script, r.number, r.ti, r.oi, CellType::Input).into_vec(),
    };
    padded(&k)
}
fn any_tx() -> TxModel {
    let nout: usize = kani::any(); kani::assume(nout >= 1 && nout <= NOUT);
    let mut t = TxModel::default(); t.nout = nout;
    let mut i = 0;
    while i < NOUT {
        let has_type: bool = kani::any();
        let dl: usize = kani::any(); kani::assume(dl < (1usize << 40));
        t.outs[i] = CellOutputP { lock: any_script(), type_: ScriptOpt(if has_type { Some(any_script()) } else { None }), capacity: kani::any() };
        t.data[i] = PData { len: dl };
        i += 1;
    }
    t
}
pub struct Q { pub script: Script, pub lock: bool, pub fscript: Option<Script>, pub flen: Option<[u64; 2]>, pub fdata: Option<[u64; 2]>, pub fcap: Option<[u64; 2]>, pub fblock: Option<[u64; 2]>, pub with_data: Option<bool> }
fn any_range() -> Option<[u64; 2]> { let on: bool = kani::any(); if on { Some([kani::any(), kani::any()]) } else { None } }
fn any_query(filters: bool) -> Q {
    let fs: bool = kani::any();
    let wd: u8 = kani::any();
    let with_data = match wd % 3 { 0 => None, 1 => Some(true), _ => Some(false) };
    if !filters { return Q { script: any_script(), lock: kani::any(), fscript: None, flen: None, fdata: None, fcap: None, fblock: None, with_data }; }
    Q { script: any_script(), lock: kani::any(), fscript: if fs { Some(any_script()) } else { None }, flen: any_range(), fdata: any_range(), fcap: any_range(),
        fblock: any_range(), with_data }
}
fn search_key(q: &Q) -> SearchKey {
    let r = |o: Option<[u64; 2]>| o.map(|[a, b]| [Uint64(a), Uint64(b)]);
    let any_filter = q.fscript.is_some() || q.flen.is_some() || q.fdata.is_some() || q.fcap.is_some() || q.fblock.is_some();
    SearchKey { script: q.script, script_type: if q.lock { ScriptType::Lock } else { ScriptType::Type },
        filter: if any_filter { Some(SearchKeyFilter { script: q.fscript, script_len_range: r(q.flen), output_data_len_range: r(q.fdata), output_capacity_range: r(q.fcap), block_range: q.fblock }) } else { None },
        with_data: q.with_data, group_by_transaction: None }
}
/// the documented meaning of the search key and of every filter, on the structured row
fn matches(w: &World, r: &RowF, q: &Q) -> bool {
    if r.space != (if q.lock { 0 } else { 1 }) { return false; }
    if !script_has_prefix(&r.script, &q.script) { return false; }
    let out = w.txs[r.tx as usize].outs[r.oi as usize];
    let data = w.txs[r.tx as usize].data[r.oi as usize];
    // the script filter applies to the OTHER script of the cell
    let other: Option<Script> = if q.lock { out.type_.0 } else { Some(out.lock) };
    if let Some(fs) = q.fscript { match other { None => return false, Some(o) => if !script_has_prefix(&o, &fs) { return false; } } }
    if let Some([a, b]) = q.flen { let l = match other { None => 0, Some(o) => raw_len(&o) } as u64; if l < a || l > b { return false; } }
    if let Some([a, b]) = q.fdata { let l = data.len as u64; if l < a || l >= b { return false; } }
    if let Some([a, b]) = q.fcap { if out.capacity < a || out.capacity >= b { return false; } }
    if let Some([a, b]) = q.fblock { if r.number < a || r.number >= b { return false; } }
    true
}
fn cell_is_row(w: &World, c: &Cell, r: RowF, q: &Q) -> bool {
    let out = w.txs[r.tx as usize].outs[r.oi as usize];
    c.out_point.tx == r.tx && c.out_point.index == r.oi && c.block_number == r.number && c.tx_index.0 == r.ti && c.output.0 == out
        && c.output_data.is_some() == q.with_data.unwrap_or(true)
        && (c.output_data.is_none() || c.output_data.unwrap().len == w.txs[r.tx as usize].data[r.oi as usize].len)
}

/// arbitrary sorted snapshot of <= NROWS index rows (any key space / script / position) over NTX stored transactions
fn any_world(q: &Q) -> [RowF; NROWS] {
    let nrows: usize = kani::any(); kani::assume(nrows <= NROWS);
    let mut rf = [RowF { space: 0, script: Script::default(), number: 0, ti: 0, oi: 0, tx: 0 }; NROWS];
    let mut rows = [Row { key: Vec::new(), tx: 0 }; NROWS];
    let txs = [any_tx(), any_tx()];
    let mut i = 0;
    while i < NROWS {
        let space: u8 = kani::any(); kani::assume(space <= 2);
        let tx: u8 = kani::any(); kani::assume((tx as usize) < NTX);
        let oi: u32 = kani::any(); kani::assume((oi as usize) < txs[tx as usize].nout);      // store invariant: the row points at an existing output
        rf[i] = RowF { space, script: any_script(), number: kani::any(), ti: kani::any(), oi, tx };
        rows[i] = Row { key: row_key(&rf[i]), tx };
        i += 1;
    }
    // RocksDB keeps its keys sorted and distinct
    let mut i = 0; while i + 1 < NROWS { if i + 1 < nrows { kani::assume(key_lt(&rows[i].key, &rows[i + 1].key)); } i += 1; }
    unsafe { WORLD = Some(World { rows, nrows, txs, tx_number: [kani::any(), kani::any()], tx_index: [kani::any(), kani::any()], tip: Header { id: kani::any(), number: kani::any() }, live_tip: Header { id: kani::any(), number: kani::any() }, tip_stored: true }); }
    rf
}
fn world() -> &'static World { unsafe { WORLD.as_ref().unwrap() } }
/// key of row i, copied out BY VALUE through constant indices: a borrow of `world().rows[i].key` with a symbolic `i` made CBMC 6.11 evaluate
/// `==` against other bytes than a by-value copy of the same place (see DESIGN.md 11.3); harness code never borrows a place at a symbolic index
fn key_of(i: usize) -> Vec<u8> { let w = world(); let mut k = w.rows[0].key; let mut j = 1; while j < NROWS { if i == j { k = w.rows[j].key; } j += 1; } k }
/// indices of the matching rows in key order
fn expected(rf: &[RowF; NROWS], q: &Q) -> ([usize; NROWS], usize) {
    let w = world(); let mut m = [0usize; NROWS]; let mut n = 0; let mut i = 0;
    while i < NROWS { if i < w.nrows && matches(w, &rf[i], q) { m[n] = i; n += 1; } i += 1; }
    (m, n)
}
fn rpc() -> BlockFilterRpcImpl { BlockFilterRpcImpl { swc: Swc { st: Storage { db: Db } } } }

fn cells_full_g(filters: bool) {
    let q = any_query(filters); let rf = any_world(&q);
    let (m, n) = expected(&rf, &q);
    let asc: bool = kani::any();
    let limit: u32 = kani::any(); kani::assume(limit as usize >= NROWS);
    unsafe { FF_REQUESTED = None; }
    let r = rpc().get_cells(search_key(&q), if asc { Order::Asc } else { Order::Desc }, Uint32(limit), None);
    let w = world();
    match r {
        Err(_) => assert!(false, "SPEC query: a well-formed get_cells query is rejected"),
        Ok(p) => {
            // descending first page: the seek key must lie above EVERY key that continues the searched prefix, also for scripts whose args continue the searched args
            // with 0xff bytes up to the documented maximum args length (the model's own keys are too short to show a shorter fill)
            if !asc { unsafe { assert!(FF_REQUESTED.is_some() && FF_REQUESTED.unwrap() + q.script.alen >= MAX_PREFIX_SEARCH_SIZE, "SPEC query: the descending seek key does not reach above every key whose script args continue the searched args (up to the documented maximum prefix search size): descending order misses those entries"); } }
            assert!(p.objects.len == n, "SPEC query: get_cells does not return exactly the entries that match the search key and every filter");
            let mut j = 0;
            while j < NROWS { if j < n && j < p.objects.len {
                let want = if asc { m[j] } else { m[n - 1 - j] };
                assert!(cell_is_row(w, &p.objects.buf[j], rf[want], &q), "SPEC query: entries are not in key order (descending = reverse of ascending), or an entry carries the wrong out-point / output / data / block number / tx index");
            } j += 1; }
            if n > 0 { let last = if asc { m[n - 1] } else { m[0] }; let want = key_of(last); let got = padded(&p.last_cursor.0); assert!(got == want, "SPEC query: last_cursor is not the key of the last returned entry"); }
            kani::cover!(n + 1 == w.nrows && n >= 1, "all rows but one match");
            kani::cover!(n == NROWS && !asc, "every row matches, descending");
        }
    }
}

fn cells_pages_g(filters: bool) {
    let q = any_query(filters); let rf = any_world(&q);
    let (m, n) = expected(&rf, &q);
    let asc: bool = kani::any();
    let (l1, l2): (u32, u32) = (kani::any(), kani::any()); kani::assume(l1 >= 1 && l1 <= 2 && l2 >= 1);
    let order = || if asc { Order::Asc } else { Order::Desc };
    let at = |j: usize| if asc { m[j] } else { m[n - 1 - j] };
    let w = world();
    let p1 = match rpc().get_cells(search_key(&q), order(), Uint32(l1), None) { Ok(p) => p, Err(_) => { assert!(false, "SPEC query: a well-formed get_cells query is rejected"); return; } };
    let n1 = if (l1 as usize) < n { l1 as usize } else { n };
    assert!(p1.objects.len == n1, "SPEC pages: the first page does not hold min(limit, matches) entries");
    let mut j = 0; while j < 2 { if j < n1 && j < p1.objects.len { assert!(cell_is_row(w, &p1.objects.buf[j], rf[at(j)], &q), "SPEC pages: first page is not the first entries in key order"); } j += 1; }
    if n1 == 0 { return; }
    // follow the cursor
    let p2 = match rpc().get_cells(search_key(&q), order(), Uint32(l2), Some(p1.last_cursor)) { Ok(p) => p, Err(_) => { assert!(false, "SPEC query: a well-formed get_cells query is rejected"); return; } };
    let rest = n - n1; let n2 = if (l2 as usize) < rest { l2 as usize } else { rest };
    assert!(p2.objects.len == n2, "SPEC pages: following last_cursor skips or repeats an entry (second page has the wrong number of entries)");
    let mut j = 0; while j < 2 { if j < n2 && j < p2.objects.len { assert!(cell_is_row(w, &p2.objects.buf[j], rf[at(n1 + j)], &q), "SPEC pages: following last_cursor skips or repeats an entry"); } j += 1; }
    kani::cover!(n == NROWS && n1 == 1 && n2 == NROWS - 1, "page of one followed by the rest");
    kani::cover!(n == NROWS && !asc && n1 + n2 == NROWS, "descending pages");
}

fn capacity_sum_g(filters: bool) {
    let q = any_query(filters); let rf = any_world(&q);
    let (m, n) = expected(&rf, &q);
    let w = world();
    let mut sum: u64 = 0; let mut ok = true; let mut j = 0;
    while j < NROWS { if j < n { let r = rf[m[j]]; match sum.checked_add(w.txs[r.tx as usize].outs[r.oi as usize].capacity) { Some(s) => sum = s, None => ok = false } } j += 1; }
    kani::assume(ok);     // the capacity of all cells of one script fits in u64 (total issuance)
    match rpc().get_cells_capacity(search_key(&q)) {
        Err(_) => assert!(false, "SPEC capacity: a well-formed get_cells_capacity query is rejected"),
        Ok(c) => {
            assert!(c.capacity.0 == sum, "SPEC capacity: get_cells_capacity is not the capacity sum of exactly the cells get_cells returns for the same key");
            assert!(c.block_hash.0 == w.tip.id && c.block_number == w.tip.number, "SPEC capacity: the reported tip is not the tip of the SNAPSHOT the sum was read at");
            kani::cover!(n == 2 && sum > 0, "two cells summed");
        }
    }
}


// quick tier: the iteration mechanics (seek, order, prefix, cursor, limit) with every key byte symbolic but no filter; the filters with two rows
#[cfg(not(cells_small))] #[kani::proof] #[kani::unwind(26)] fn cells_order() { cells_full_g(false); }
#[cfg(not(cells_small))] #[kani::proof] #[kani::unwind(26)] fn cells_pages_order() { cells_pages_g(false); }
#[cfg(cells_small)] #[kani::proof] #[kani::unwind(26)] fn cells_filters_small() { cells_full_g(true); }
#[cfg(cells_small)] #[kani::proof] #[kani::unwind(26)] fn capacity_sum_small() { capacity_sum_g(true); }
#[cfg(cells_small)] #[kani::proof] #[kani::unwind(26)] fn cells_pages_small() { cells_pages_g(false); }
// thorough tier: everything symbolic at once
#[cfg(not(cells_small))] #[kani::proof] #[kani::unwind(26)] fn cells_full() { cells_full_g(true); }
#[cfg(not(cells_small))] #[kani::proof] #[kani::unwind(26)] fn cells_pages() { cells_pages_g(true); }
#[cfg(not(cells_small))] #[kani::proof] #[kani::unwind(26)] fn capacity_sum() { capacity_sum_g(true); }
