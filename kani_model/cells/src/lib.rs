// K-model unit `cells`: real text of BlockFilterRpcImpl::get_cells / get_cells_capacity, build_query_options,
// build_filter_options (service.rs) and of Key / KeyPrefix / Key::into_vec / append_key / extract_raw_data (storage.rs)
// over a READ-ONLY sorted snapshot model of the RocksDB index (ordered iteration from a seek key in both directions,
// point lookups) - RocksDB's documented contract.  Scripts are (1-byte code hash, 1-byte hash type, <= 2 bytes of args),
// transactions carry <= 2 outputs, hashes are 1-byte identifiers.
#![allow(unused, dead_code, unused_mut, static_mut_refs, non_snake_case, non_camel_case_types)]
pub const CAP: usize = 24;
#[macro_use] #[path = "../../prelude/macros.rs"] mod pmacros;
include!("../../prelude/vec.rs");
impl<'a> From<&'a [u8]> for Vec<u8> { fn from(s: &'a [u8]) -> Self { let mut v = Vec::new(); v.extend_from_slice(s); v } }
impl Vec<u8> { pub fn as_slice(&self) -> &[u8] { &self.buf[..self.len] } }
impl AsRef<[u8]> for Vec<u8> { fn as_ref(&self) -> &[u8] { &self.buf[..self.len] } }
pub trait MConcat { fn mconcat(&self) -> Vec<u8>; }
impl<'a, const N: usize> MConcat for [&'a [u8]; N] { fn mconcat(&self) -> Vec<u8> { let mut v = Vec::new(); let mut i = 0; while i < N { v.extend_from_slice(self[i]); i += 1; } v } }
impl<const N: usize> MConcat for [Vec<u8>; N] { fn mconcat(&self) -> Vec<u8> { let mut v = Vec::new(); let mut i = 0; while i < N { v.extend_from_slice(&self[i]); i += 1; } v } }
/// `vec![0xff; n]` of the descending start key (n = 65535 - args_len in the real code): the model keeps min(n, FF_MODEL) bytes.
/// Every index key of the model continues its search prefix by at most 2 + 17 = 19 bytes, so FF_MODEL = 19 bytes of 0xff compare
/// against every model key exactly as 65533+ bytes do; a SMALLER n is kept as it is.
pub const FF_MODEL: usize = 19;
/// ghost: the fill length the real text asked for (the model truncates it; the harness states the bound on the REQUESTED length)
pub static mut FF_REQUESTED: Option<usize> = None;
pub fn ff_fill(n: usize) -> Vec<u8> { unsafe { FF_REQUESTED = Some(n); } let mut v = Vec::new(); let m = if n < FF_MODEL { n } else { FF_MODEL }; let mut i = 0; while i < m { v.push(0xff); i += 1; } v }

#[derive(Clone, Copy, Debug, Default, PartialEq, Eq)] pub struct String;
pub struct Error;
impl Error { pub fn invalid_params<M>(_m: M) -> Error { Error } }
pub type Result<T> = std::result::Result<T, Error>;

pub type BlockNumber = u64;      // ckb_jsonrpc_types::BlockNumber / core::BlockNumber: plain u64 in the model
pub type TxIndex = u32; pub type CpIndex = u32; pub type OutputIndex = u32; pub type CellIndex = u32;
#[derive(Clone, Copy, PartialEq, Eq, Default, Debug)] pub struct Byte32(pub u8);
impl Byte32 {
    pub fn as_slice(&self) -> &[u8] { std::slice::from_ref(&self.0) }
    pub fn from_slice(s: &[u8]) -> std::result::Result<Byte32, ()> { if s.len() == 1 { Ok(Byte32(s[0])) } else { Err(()) } }
    pub fn unpack(&self) -> H256 { H256(self.0) }
}
#[derive(Clone, Copy, PartialEq, Eq, Default, Debug)] pub struct H256(pub u8);
/// packed::Script: 1-byte code hash, 1-byte hash type, 0..=2 bytes of args
#[derive(Clone, Copy, PartialEq, Eq, Default, Debug)] pub struct Script { pub code: u8, pub ht: u8, pub args: [u8; 2], pub alen: usize }
pub struct B1(pub [u8; 1]); impl B1 { pub fn as_slice(&self) -> &[u8] { &self.0[..] } }
pub struct Args { pub b: [u8; 2], pub n: usize }
pub struct ArgsRaw { pub b: [u8; 2], pub n: usize }
impl std::ops::Deref for ArgsRaw { type Target = [u8]; fn deref(&self) -> &[u8] { &self.b[..self.n] } }
impl Args { pub fn raw_data(&self) -> ArgsRaw { ArgsRaw { b: self.b, n: self.n } } pub fn len(&self) -> usize { self.n } }
impl Script { pub fn code_hash(&self) -> B1 { B1([self.code]) } pub fn hash_type(&self) -> B1 { B1([self.ht]) } pub fn args(&self) -> Args { Args { b: self.args, n: self.alen } } }
// (ckb_jsonrpc_types::Script and packed::Script are the same model type: `.into()` is the identity)
#[derive(Clone, Copy, PartialEq, Eq, Default, Debug)] pub struct ScriptOpt(pub Option<Script>);
impl ScriptOpt { pub fn is_none(&self) -> bool { self.0.is_none() } pub fn to_opt(&self) -> Option<Script> { self.0 } }
#[derive(Clone, Copy, PartialEq, Eq, PartialOrd, Ord, Default, Debug)] pub struct Capacity(pub u64);
impl Capacity { pub fn shannons(v: u64) -> Capacity { Capacity(v) } pub fn as_u64(&self) -> u64 { self.0 } }
#[derive(Clone, Copy, PartialEq, Eq, Default, Debug)] pub struct PCapacity(pub u64);
pub trait Unpack<T> { fn unpack(&self) -> T; }
impl Unpack<Capacity> for PCapacity { fn unpack(&self) -> Capacity { Capacity(self.0) } }
#[derive(Clone, Copy, PartialEq, Eq, Default, Debug)] pub struct PU64(pub u64);
impl Unpack<u64> for PU64 { fn unpack(&self) -> u64 { self.0 } }
pub mod core { pub use super::Capacity; pub type BlockNumber = u64; }
/// ckb_jsonrpc_types integers
#[derive(Clone, Copy, PartialEq, Eq, Default, Debug)] pub struct Uint64(pub u64);
impl From<Uint64> for u64 { fn from(x: Uint64) -> u64 { x.0 } }
impl From<u64> for Uint64 { fn from(x: u64) -> Uint64 { Uint64(x) } }
impl Uint64 { pub fn value(&self) -> u64 { self.0 } }
#[derive(Clone, Copy, PartialEq, Eq, Default, Debug)] pub struct Uint32(pub u32);
impl From<u32> for Uint32 { fn from(x: u32) -> Uint32 { Uint32(x) } }
impl Uint32 { pub fn value(&self) -> u32 { self.0 } }
#[derive(Clone, Copy, PartialEq, Eq, Default, Debug)] pub struct JsonBytes(pub Vec<u8>);
impl std::fmt::Debug for Vec<u8> { fn fmt(&self, _f: &mut std::fmt::Formatter) -> std::fmt::Result { Ok(()) } }
impl Eq for Vec<u8> {}
impl JsonBytes { pub fn as_bytes(&self) -> &[u8] { &self.0.buf[..self.0.len] } pub fn from_vec(v: Vec<u8>) -> JsonBytes { JsonBytes(v) } }
/// output data: only its length is modelled
#[derive(Clone, Copy, PartialEq, Eq, Default, Debug)] pub struct PData { pub len: usize }
impl PData { pub fn len(&self) -> usize { self.len } }
#[derive(Clone, Copy, PartialEq, Eq, Default, Debug)] pub struct JData { pub len: usize }
impl From<PData> for JData { fn from(d: PData) -> JData { JData { len: d.len } } }
#[derive(Clone, Copy, PartialEq, Eq, Default, Debug)] pub struct CellOutputP { pub lock: Script, pub type_: ScriptOpt, pub capacity: u64 }
impl CellOutputP { pub fn lock(&self) -> Script { self.lock } pub fn type_(&self) -> ScriptOpt { self.type_ } pub fn capacity(&self) -> PCapacity { PCapacity(self.capacity) } }
#[derive(Clone, Copy, PartialEq, Eq, Default, Debug)] pub struct CellOutput(pub CellOutputP);
impl From<CellOutputP> for CellOutput { fn from(o: CellOutputP) -> CellOutput { CellOutput(o) } }
#[derive(Clone, Copy, PartialEq, Eq, Default, Debug)] pub struct OutPointP { pub tx: u8, pub index: u32 }
#[derive(Clone, Copy, PartialEq, Eq, Default, Debug)] pub struct OutPoint { pub tx: u8, pub index: u32 }
impl From<OutPointP> for OutPoint { fn from(o: OutPointP) -> OutPoint { OutPoint { tx: o.tx, index: o.index } } }
// request types of service.rs (plain data declarations; serde derives dropped)
pub struct SearchKey { pub(crate) script: Script, pub(crate) script_type: ScriptType, pub(crate) filter: Option<SearchKeyFilter>, pub(crate) with_data: Option<bool>, pub(crate) group_by_transaction: Option<bool> }
#[derive(Default, Clone, Copy)]
pub struct SearchKeyFilter { pub(crate) script: Option<Script>, pub(crate) script_len_range: Option<[Uint64; 2]>, pub(crate) output_data_len_range: Option<[Uint64; 2]>, pub(crate) output_capacity_range: Option<[Uint64; 2]>, pub(crate) block_range: Option<[BlockNumber; 2]> }
#[derive(Clone, Copy, PartialEq, Eq)] pub enum ScriptType { Lock, Type }
#[derive(Clone, Copy, PartialEq, Eq)] pub enum Order { Desc, Asc }
/// what get_cells returns (service.rs `Cell` / `Pagination` / `CellsCapacity` with the JSON types replaced by the model's)
#[derive(Clone, Copy, PartialEq, Eq, Default, Debug)]
pub struct Cell { output: CellOutput, pub(crate) output_data: Option<JData>, pub(crate) out_point: OutPoint, block_number: BlockNumber, tx_index: Uint32 }
pub struct Pagination<T: Copy + Default> { pub(crate) objects: Vec<T>, pub(crate) last_cursor: JsonBytes }
pub struct CellsCapacity { pub capacity: Uint64, pub block_hash: H256, pub block_number: BlockNumber }

// ---- transactions of the model world ---------------------------------------------------------------
pub const NTX: usize = 2; pub const NOUT: usize = 2;
#[derive(Clone, Copy, Default)] pub struct TxModel { pub outs: [CellOutputP; NOUT], pub data: [PData; NOUT], pub nout: usize }
#[derive(Clone, Copy, Default)] pub struct Transaction(pub TxModel);
pub struct OutVec(pub TxModel); pub struct DataVec(pub TxModel);
impl OutVec { pub fn get(&self, i: usize) -> Option<CellOutputP> { if i < self.0.nout { Some(self.0.outs[i]) } else { None } } }
impl DataVec { pub fn get(&self, i: usize) -> Option<PData> { if i < self.0.nout { Some(self.0.data[i]) } else { None } } }
impl Transaction { pub fn raw(&self) -> Transaction { *self } pub fn outputs(&self) -> OutVec { OutVec(self.0) } pub fn outputs_data(&self) -> DataVec { DataVec(self.0) } }
#[derive(Clone, Copy, Default)] pub struct Header { pub id: u8, pub number: u64 }
impl Header { pub fn to_entity(&self) -> Header { *self } pub fn calc_header_hash(&self) -> Byte32 { Byte32(self.id) } pub fn raw(&self) -> Header { *self } pub fn number(&self) -> PU64 { PU64(self.number) } }
pub mod packed {
    pub use super::{Byte32, Script, Transaction};
    pub struct OutPoint;
    impl OutPoint { pub fn new(tx: super::Byte32, index: u32) -> super::OutPointP { super::OutPointP { tx: tx.0, index } } }
    pub struct HeaderReader;
    impl HeaderReader {
        /// stored header = 1-byte identifier ++ 8 bytes block number (big endian) in the model
        pub fn from_slice_should_be_ok(s: &[u8]) -> super::Header { assert!(s.len() == 9, "REAL-PANIC: stored header does not decode"); let mut b = [0u8; 8]; b.copy_from_slice(&s[1..9]); super::Header { id: s[0], number: u64::from_be_bytes(b) } }
    }
}
impl Transaction {
    /// stored transaction = 1-byte identifier in the model; decoding an unknown identifier is the real `expect` failing
    pub fn from_slice(s: &[u8]) -> std::result::Result<Transaction, ()> { unsafe { if s.len() == 1 && (s[0] as usize) < NTX { Ok(Transaction(WORLD.as_ref().unwrap().txs[s[0] as usize])) } else { Err(()) } } }
}

// ---- the snapshot: sorted rows + point lookups -----------------------------------------------------
#[cfg(not(cells_small))] pub const NROWS: usize = 3;
#[cfg(cells_small)] pub const NROWS: usize = 2;
pub const VCAP: usize = 41;
#[derive(Clone, Copy)] pub struct ValB { pub b: [u8; VCAP], pub len: usize }
impl std::ops::Deref for ValB { type Target = [u8]; fn deref(&self) -> &[u8] { &self.b[..self.len] } }
impl ValB { pub fn of(s: &[u8]) -> ValB { let mut b = [0u8; VCAP]; b[..s.len()].copy_from_slice(s); ValB { b, len: s.len() } } }
#[derive(Clone, Copy)] pub struct Row { pub key: Vec<u8>, pub tx: u8 }
pub struct World { pub rows: [Row; NROWS], pub nrows: usize, pub txs: [TxModel; NTX], pub tx_number: [u64; NTX], pub tx_index: [u32; NTX], pub tip: Header, pub tip_stored: bool, pub live_tip: Header }
pub static mut WORLD: Option<World> = None;
fn words(v: &Vec<u8>) -> (u128, u64) { let mut a = [0u8; 16]; a.copy_from_slice(&v.buf[0..16]); let mut b = [0u8; 8]; b.copy_from_slice(&v.buf[16..24]); (u128::from_be_bytes(a), u64::from_be_bytes(b)) }
/// bytewise lexicographic order (RocksDB's default comparator); buffers are zero-padded, so padded words + length decide
pub fn key_lt(a: &Vec<u8>, b: &Vec<u8>) -> bool { let (a0, a1) = words(a); let (b0, b1) = words(b); a0 < b0 || (a0 == b0 && (a1 < b1 || (a1 == b1 && a.len < b.len))) }
pub fn padded(v: &Vec<u8>) -> Vec<u8> { let mut o = Vec::new(); let mut i = 0; while i < CAP { o.buf[i] = if i < v.len { v.buf[i] } else { 0 }; i += 1; } o.len = v.len; o }
pub enum Direction { Forward, Reverse }
pub enum IteratorMode<'a> { From(&'a [u8], Direction) }
// ---- iteration: a LOOP-FREE pipeline ----------------------------------------------------------------------------------------
// std's lazy adaptors (skip / take_while / filter / filter_map / take) pull through nested `find` loops whose trip counts CBMC cannot
// bound syntactically.  The model adaptors below have the same lazy, one-row-at-a-time semantics, but every stage handles AT MOST ONE
// source row per `pull_one` call (no loops); only the final consumer (collect / sum) loops, NROWS + 1 times.
pub enum Step<T> { Item(T), Skipped, End }
pub trait Pipe: Sized {
    type Item;
    fn pull_one(&mut self) -> Step<Self::Item>;
    fn skip(self, n: usize) -> SkipP<Self> { SkipP { inner: self, n } }
    fn take_while<P: FnMut(&Self::Item) -> bool>(self, p: P) -> TakeWhileP<Self, P> { TakeWhileP { inner: self, p, stopped: false } }
    fn filter<P: FnMut(&Self::Item) -> bool>(self, p: P) -> FilterP<Self, P> { FilterP { inner: self, p } }
    fn filter_map<B, F: FnMut(Self::Item) -> Option<B>>(self, f: F) -> FilterMapP<Self, F> { FilterMapP { inner: self, f } }
    fn take(self, n: usize) -> TakeP<Self> { TakeP { inner: self, n } }
    fn collect<C: FromPipe<Self::Item>>(mut self) -> C { let mut c = C::empty(); let mut k = 0; while k < NROWS + 1 { match self.pull_one() { Step::Item(x) => c.add(x), Step::Skipped => {}, Step::End => break } k += 1; } c }
    fn sum(mut self) -> u64 where Self::Item: Into<u64> { let mut s: u64 = 0; let mut k = 0; while k < NROWS + 1 { match self.pull_one() { Step::Item(x) => { s = match s.checked_add(x.into()) { Some(v) => v, None => panic!("attempt to add with overflow") }; } Step::Skipped => {}, Step::End => break } k += 1; } s }
}
pub trait FromPipe<T> { fn empty() -> Self; fn add(&mut self, t: T); }
impl<T: Copy + Default> FromPipe<T> for Vec<T> { fn empty() -> Self { Vec::new() } fn add(&mut self, t: T) { self.push(t) } }
pub struct SkipP<I> { inner: I, n: usize }
impl<I: Pipe> Pipe for SkipP<I> { type Item = I::Item; fn pull_one(&mut self) -> Step<I::Item> { match self.inner.pull_one() { Step::Item(x) => if self.n > 0 { self.n -= 1; Step::Skipped } else { Step::Item(x) }, o => o } } }
pub struct TakeWhileP<I, P> { inner: I, p: P, stopped: bool }
impl<I: Pipe, P: FnMut(&I::Item) -> bool> Pipe for TakeWhileP<I, P> { type Item = I::Item; fn pull_one(&mut self) -> Step<I::Item> { if self.stopped { return Step::End; } match self.inner.pull_one() { Step::Item(x) => if (self.p)(&x) { Step::Item(x) } else { self.stopped = true; Step::End }, o => o } } }
pub struct FilterP<I, P> { inner: I, p: P }
impl<I: Pipe, P: FnMut(&I::Item) -> bool> Pipe for FilterP<I, P> { type Item = I::Item; fn pull_one(&mut self) -> Step<I::Item> { match self.inner.pull_one() { Step::Item(x) => if (self.p)(&x) { Step::Item(x) } else { Step::Skipped }, o => o } } }
pub struct FilterMapP<I, F> { inner: I, f: F }
impl<B, I: Pipe, F: FnMut(I::Item) -> Option<B>> Pipe for FilterMapP<I, F> { type Item = B; fn pull_one(&mut self) -> Step<B> { match self.inner.pull_one() { Step::Item(x) => match (self.f)(x) { Some(y) => Step::Item(y), None => Step::Skipped }, Step::Skipped => Step::Skipped, Step::End => Step::End } } }
pub struct TakeP<I> { inner: I, n: usize }
impl<I: Pipe> Pipe for TakeP<I> { type Item = I::Item; fn pull_one(&mut self) -> Step<I::Item> { if self.n == 0 { return Step::End; } match self.inner.pull_one() { Step::Item(x) => { self.n -= 1; Step::Item(x) } o => o } } }
/// the source: rows from the seek position on, ascending or descending (RocksDB: Seek / SeekForPrev)
pub struct SnapIter { pos: usize, rev: bool }
impl Pipe for SnapIter {
    type Item = (Vec<u8>, ValB);
    fn pull_one(&mut self) -> Step<Self::Item> {
        unsafe {
            let w = WORLD.as_ref().unwrap();
            if !self.rev { if self.pos < w.nrows && self.pos < NROWS { let r = w.rows[self.pos]; self.pos += 1; Step::Item((r.key, ValB::of(&[r.tx]))) } else { Step::End } }
            else { if self.pos > 0 && self.pos <= NROWS { self.pos -= 1; let r = w.rows[self.pos]; Step::Item((r.key, ValB::of(&[r.tx]))) } else { Step::End } }
        }
    }
}
pub struct Snapshot;
impl Snapshot {
    pub fn iterator(&self, mode: IteratorMode) -> SnapIter {
        let IteratorMode::From(from, d) = mode; let from = padded(&Vec::from(from)); let rev = matches!(d, Direction::Reverse);
        unsafe {
            let w = WORLD.as_ref().unwrap();
            // rows are sorted: forward starts at the first row >= from (= number of rows < from); reverse starts below the last row <= from
            let mut lt = 0; let mut le = 0; let mut i = 0;
            while i < NROWS { if i < w.nrows { if key_lt(&w.rows[i].key, &from) { lt += 1; } if !key_lt(&from, &w.rows[i].key) { le += 1; } } i += 1; }
            SnapIter { pos: if rev { le } else { lt }, rev }
        }
    }
    /// point lookups: TxHash(id) -> number ++ tx index ++ transaction; Meta(LAST_STATE) -> 32 bytes total difficulty ++ header
    pub fn get(&self, k: Vec<u8>) -> std::result::Result<Option<ValB>, ()> {
        unsafe {
            let w = WORLD.as_ref().unwrap();
            if k.len == 2 && k.buf[0] == KeyPrefix::TxHash as u8 {
                let id = k.buf[1] as usize;
                if id < NTX { let mut b = [0u8; 13]; b[0..8].copy_from_slice(&w.tx_number[id].to_be_bytes()); b[8..12].copy_from_slice(&w.tx_index[id].to_be_bytes()); b[12] = id as u8; return Ok(Some(ValB::of(&b))); }
                return Ok(None);
            }
            if k.len >= 1 && k.buf[0] == KeyPrefix::Meta as u8 {
                let lk = Key::Meta(LAST_STATE_KEY).into_vec();
                if padded(&k) == padded(&lk) && w.tip_stored { let mut b = [0u8; 41]; b[32] = w.tip.id; b[33..41].copy_from_slice(&w.tip.number.to_be_bytes()); return Ok(Some(ValB::of(&b))); }
                return Ok(None);
            }
            Ok(None)
        }
    }
}
pub struct Db; impl Db { pub fn snapshot(&self) -> Snapshot { Snapshot } }
pub struct Storage { pub db: Db }
/// the LIVE store (not the snapshot the query iterates): another thread may have moved the tip since the snapshot was taken, so what it returns is ARBITRARY
impl Storage { pub fn get_tip_header(&self) -> Header { unsafe { WORLD.as_ref().unwrap().live_tip } } pub fn get_last_state(&self) -> (U256Dummy, Header) { (U256Dummy, self.get_tip_header()) } }
pub struct U256Dummy;
pub struct Swc { pub st: Storage } impl Swc { pub fn storage(&self) -> &Storage { &self.st } }
pub struct BlockFilterRpcImpl { pub(crate) swc: Swc }

include!("extracted.rs");

#[cfg(kani)]
mod harness;
