// K-model unit `fetch`: real text of FetchInfo and of the fetch bookkeeping methods of Peers (peers.rs), of BlocksProofRequest /
// TransactionsProofRequest, and of the status decision of ChainRpcImpl::fetch_header / TransactionRpcImpl::fetch_transaction
// (service.rs), over DashMap / storage models.
#![allow(unused, dead_code, unused_mut, static_mut_refs, non_snake_case)]
use std::{fmt, mem};
pub const CAP: usize = 2;
pub const MAP_CAP: usize = 4;
pub const DM_CAP: usize = 2;
#[macro_use] #[path = "../../prelude/macros.rs"] mod pmacros;
include!("../../prelude/vec.rs");
include!("../../prelude/hashmap.rs");
include!("../../prelude/dashmap.rs");
include!("../../prelude/u256.rs");
include!("../../prelude/epoch.rs");
include!("../../prelude/lc_types.rs");
include!("../../prelude/status.rs");
pub static mut NOW: u64 = 0;
pub fn unix_time_as_millis() -> u64 { unsafe { NOW } }
impl<'a> Default for &'a Byte32 { fn default() -> Self { &Byte32(0) } }
pub mod packed {
    use super::*;
    pub use super::Byte32;
    #[derive(Clone, Copy, Default)] pub struct Byte32Vec(pub Vec<Byte32>);
    impl Byte32Vec { pub fn len(&self) -> usize { self.0.len } pub fn into_iter(self) -> VecIntoIter<Byte32> { self.0.into_iter() } }
    #[derive(Clone, Copy, Default)] pub struct GetBlocksProof { pub hashes: Vec<Byte32>, pub last: Byte32 }
    impl GetBlocksProof { pub fn block_hashes(&self) -> Byte32Vec { Byte32Vec(self.hashes) } pub fn last_hash(&self) -> Byte32 { self.last } }
    #[derive(Clone, Copy, Default)] pub struct GetTransactionsProof { pub hashes: Vec<Byte32>, pub last: Byte32 }
    impl GetTransactionsProof { pub fn tx_hashes(&self) -> Byte32Vec { Byte32Vec(self.hashes) } pub fn last_hash(&self) -> Byte32 { self.last } }
}
#[derive(Clone, Default)]
pub struct Peer { pub blocks_proof_request: Option<BlocksProofRequest>, pub txs_proof_request: Option<TransactionsProofRequest> }
impl Peer {
    pub(crate) fn get_blocks_proof_request(&self) -> Option<&BlocksProofRequest> { self.blocks_proof_request.as_ref() }
    pub(crate) fn get_txs_proof_request(&self) -> Option<&TransactionsProofRequest> { self.txs_proof_request.as_ref() }
}
pub struct Peers { pub inner: DashMap<PeerIndex, Peer>, pub fetching_headers: DashMap<Byte32, FetchInfo>, pub fetching_txs: DashMap<Byte32, FetchInfo> }

// ---- RPC side ------------------------------------------------------------------------------------------------
#[derive(Clone, Copy, Debug, PartialEq, Eq)] pub struct JUint64(pub u64);
impl From<u64> for JUint64 { fn from(x: u64) -> Self { JUint64(x) } }
#[derive(Clone, Copy, Debug, PartialEq, Eq)] pub struct JHeaderView(pub u8);
impl From<HeaderView> for JHeaderView { fn from(h: HeaderView) -> Self { JHeaderView(h.id) } }
#[derive(Clone, Copy, Debug, PartialEq, Eq)]
pub enum FetchStatus<T> { Added { timestamp: JUint64 }, Fetching { first_sent: JUint64 }, Fetched { data: T }, NotFound }
pub type Result<T> = std::result::Result<T, ()>;
pub struct Storage { pub stored_header: Option<HeaderView>, pub stored_tx: Option<(u8, HeaderView)> }
impl Storage { pub fn get_header(&self, h: &Byte32) -> Option<HeaderView> { match self.stored_header { Some(x) if x.id == h.0 => Some(x), _ => None } } }
pub struct Swc { pub storage: Storage, pub peers: Peers }
impl Swc {
    pub fn storage(&self) -> &Storage { &self.storage }
    pub(crate) fn get_header_fetch_info(&self, h: &H256) -> Option<(u64, u64, bool)> { self.peers.get_header_fetch_info(&h.pack()) }
    pub(crate) fn get_tx_fetch_info(&self, h: &H256) -> Option<(u64, u64, bool)> { self.peers.get_tx_fetch_info(&h.pack()) }
    pub(crate) fn add_fetch_header(&self, h: H256, ts: u64) { self.peers.add_fetch_header(h.pack(), ts); }
    pub(crate) fn add_fetch_tx(&self, h: H256, ts: u64) { self.peers.add_fetch_tx(h.pack(), ts); }
}
#[derive(Clone, Copy, Debug, PartialEq, Eq)] pub struct TransactionWithStatus { pub transaction: Option<u8>, pub block: Option<u8> }
pub struct ChainRpcImpl { pub swc: Swc }
pub struct TransactionRpcImpl { pub swc: Swc }
impl TransactionRpcImpl {
    /// get_transaction: committed (transaction, block hash) from the store, else unknown (the pending pool is the subject of C18)
    pub fn get_transaction(&self, h: H256) -> Result<TransactionWithStatus> { Ok(match self.swc.storage.stored_tx { Some((t, hdr)) if t == h.0 => TransactionWithStatus { transaction: Some(t), block: Some(hdr.id) }, _ => TransactionWithStatus { transaction: None, block: None } }) }
}

include!("extracted.rs");

#[cfg(kani)]
mod harness {
    use super::*;
    fn any_info() -> FetchInfo { FetchInfo { added_ts: kani::any(), first_sent: kani::any(), timeout: kani::any(), missing: kani::any() } }
    fn snap(m: &DashMap<Byte32, FetchInfo>, h: u8) -> Option<(u64, u64, bool, bool)> { m.get(&Byte32(h)).map(|i| (i.added_ts, i.first_sent, i.timeout, i.missing)) }
    fn to_fetch(m: &DashMap<Byte32, FetchInfo>, v: &Vec<Byte32>, h: u8) -> bool { let mut i = 0; let mut r = false; while i < CAP { if i < v.len && v.buf[i].0 == h { r = true; } i += 1; } r }
    fn any_peers() -> Peers {
        let p = Peers { inner: DashMap::new(), fetching_headers: DashMap::new(), fetching_txs: DashMap::new() };
        // two hashes (0, 1) may be in flight for headers and for transactions, in arbitrary states
        let mut h = 0u8; while h < 2 { if kani::any() { p.fetching_headers.insert(Byte32(h), any_info()); } if kani::any() { p.fetching_txs.insert(Byte32(h), any_info()); } h += 1; }
        // one connected peer with arbitrary outstanding proof requests over the hashes 0..2
        if kani::any() {
            let mut peer = Peer::default();
            if kani::any() { let mut v = Vec::new(); if kani::any() { v.push(Byte32(0)); } if kani::any() { v.push(Byte32(1)); } peer.blocks_proof_request = Some(BlocksProofRequest::new(packed::GetBlocksProof { hashes: v, last: Byte32(9) }, kani::any(), kani::any())); }
            if kani::any() { let mut v = Vec::new(); if kani::any() { v.push(Byte32(0)); } if kani::any() { v.push(Byte32(1)); } peer.txs_proof_request = Some(TransactionsProofRequest::new(packed::GetTransactionsProof { hashes: v, last: Byte32(9) }, kani::any())); }
            p.inner.insert(PeerIndex(0), peer);
        }
        p
    }
    fn requested(p: &Peers, headers: bool, h: u8) -> bool {
        match p.inner.get(&PeerIndex(0)) { None => false, Some(peer) => {
            let v = if headers { peer.blocks_proof_request.as_ref().map(|r| r.content.hashes) } else { peer.txs_proof_request.as_ref().map(|r| r.content.hashes) };
            match v { None => false, Some(v) => { let mut i = 0; let mut r = false; while i < CAP { if i < v.len && v.buf[i].0 == h { r = true; } i += 1; } r } } } }
    }

    /// One arbitrary bookkeeping operation from an arbitrary state (inductive step of the status machine)
    #[kani::proof] #[kani::unwind(6)]
    fn step() {
        let p = any_peers();
        let hdr: bool = kani::any();      // operate on headers or on transactions
        let m = if hdr { &p.fetching_headers } else { &p.fetching_txs };
        let before = [snap(m, 0), snap(m, 1)];
        let req = [requested(&p, hdr, 0), requested(&p, hdr, 1)];
        let other = if hdr { &p.fetching_txs } else { &p.fetching_headers };
        let other_before = [snap(other, 0), snap(other, 1)];
        let op: u8 = kani::any(); kani::assume(op < 6);
        let h: u8 = kani::any(); kani::assume(h < 2);
        let ts: u64 = kani::any();
        let mut removed = false;
        match op {
            0 => { if hdr { p.add_fetch_header(Byte32(h), ts) } else { p.add_fetch_tx(Byte32(h), ts) } }
            1 => { let hs = [Byte32(h)]; if hdr { p.fetching_idle_headers(&hs, ts) } else { p.fetching_idle_txs(&hs, ts) } }
            2 => { let hs = [Byte32(h)]; if hdr { p.mark_fetching_headers_missing(&hs) } else { p.mark_fetching_txs_missing(&hs) } }
            3 => { if hdr { p.mark_fetching_headers_timeout(PeerIndex(0)) } else { p.mark_fetching_txs_timeout(PeerIndex(0)) } }
            4 => { p.remove_peer(PeerIndex(0)); }
            _ => { removed = if hdr { p.remove_fetching_header(&Byte32(h)) } else { p.remove_fetching_transaction(&Byte32(h), &Byte32(1 - h)) }; }
        }
        let list = if hdr { p.get_headers_to_fetch() } else { p.get_txs_to_fetch() };
        let mut x = 0u8;
        while x < 2 {
            let b = before[x as usize]; let a = snap(m, x);
            // an entry disappears only through remove_fetching_*
            if b.is_some() && a.is_none() { assert!(op == 5 && x == h && removed, "SPEC fetch: a fetch request was lost without being delivered"); }
            if b.is_none() && a.is_some() { assert!(op == 0 && x == h, "SPEC fetch: a fetch request appeared without being added"); }
            if let Some(a) = a {
                match op {
                    0 if x == h => assert!(a == (ts, 0, false, false), "SPEC fetch: add must (re)start the request as `added`"),
                    1 if x == h => { let b = b.unwrap(); assert!(a == (b.0, if b.1 == 0 { ts } else { b.1 }, false, b.3), "SPEC fetch: sending must set first_sent once and clear the timeout flag"); }
                    2 if x == h => { let b = b.unwrap(); assert!(a == (b.0, b.1, b.2, true), "SPEC fetch: missing flag"); }
                    3 | 4 => { let b = b.unwrap(); assert!(a == (b.0, b.1, b.2 || req[x as usize], b.3), "SPEC fetch: a timed-out / disconnected peer must mark exactly its in-flight hashes as timeout");
                               if req[x as usize] { assert!(to_fetch(m, &list, x), "SPEC fetch: after a timeout / disconnect the hash must be eligible for another peer"); } }
                    _ => { if !(op == 5 && !hdr && x == 1 - h) { assert!(Some(a) == b, "SPEC fetch: an unrelated request changed"); } }
                }
                // eligibility: never sent, or timed out
                assert!(to_fetch(m, &list, x) == (a.1 == 0 || a.2), "SPEC fetch: get_*_to_fetch must list exactly the never-sent and the timed-out requests");
            } else { assert!(!to_fetch(m, &list, x), "SPEC fetch: a hash that is not requested is listed for fetching"); }
            // the other map is untouched, except that a delivered transaction also removes the header request of its block
            let oa = snap(other, x);
            if !(op == 5 && !hdr && removed && x == 1 - h) && !(op == 3 || op == 4) { assert!(oa == other_before[x as usize], "SPEC fetch: the other request table changed"); }
            x += 1;
        }
        if op == 4 { assert!(p.inner.get(&PeerIndex(0)).is_none(), "SPEC fetch: a disconnected peer left state behind"); }
        kani::cover!(op == 3 && req[0] && before[0].is_some(), "timeout of an in-flight hash");
        kani::cover!(op == 5 && removed, "a request delivered");
    }

    /// RPC status decision
    #[kani::proof] #[kani::unwind(6)]
    fn rpc_status() {
        let p = any_peers();
        unsafe { NOW = kani::any(); }
        let h: u8 = kani::any(); kani::assume(h < 2);
        let hdr: bool = kani::any();
        let stored: bool = kani::any();
        let sh = HeaderView { id: if hdr { h } else { 7 }, ..Default::default() };
        let storage = Storage { stored_header: if stored && hdr { Some(sh) } else { None }, stored_tx: if stored && !hdr { Some((h, sh)) } else { None } };
        let m0 = if hdr { snap(&p.fetching_headers, h) } else { snap(&p.fetching_txs, h) };
        let swc = Swc { storage, peers: p };
        let now = unsafe { NOW };
        if hdr {
            let rpc = ChainRpcImpl { swc };
            let r = rpc.fetch_header(H256(h)).unwrap();
            let m1 = snap(&rpc.swc.peers.fetching_headers, h);
            check(matches!(r, FetchStatus::Fetched { data } if data.id == h), matches!(r, FetchStatus::NotFound), match r { FetchStatus::Fetching { first_sent } => Some(first_sent.0), _ => None }, match r { FetchStatus::Added { timestamp } => Some(timestamp.0), _ => None }, stored, m0, m1, now);
        } else {
            let rpc = TransactionRpcImpl { swc };
            let r = rpc.fetch_transaction(H256(h)).unwrap();
            let m1 = snap(&rpc.swc.peers.fetching_txs, h);
            let fetched = match r { FetchStatus::Fetched { data } => { assert!(data.transaction == Some(h) && data.block == Some(7), "SPEC fetch: fetched transaction is not the stored (transaction, block)"); true } _ => false };
            check(fetched, matches!(r, FetchStatus::NotFound), match r { FetchStatus::Fetching { first_sent } => Some(first_sent.0), _ => None }, match r { FetchStatus::Added { timestamp } => Some(timestamp.0), _ => None }, stored, m0, m1, now);
        }
    }
    fn check(fetched: bool, not_found: bool, fetching: Option<u64>, added: Option<u64>, stored: bool, m0: Option<(u64, u64, bool, bool)>, m1: Option<(u64, u64, bool, bool)>, now: u64) {
        assert!(fetched == stored, "SPEC fetch: `fetched` must be reported iff the data is stored");
        if stored { assert!(m1 == m0, "SPEC fetch: a fetched item must not touch the request table"); return; }
        match m0 {
            None => { assert!(added == Some(now) && m1 == Some((now, 0, false, false)), "SPEC fetch: first call must add the request and report `added`"); }
            Some((a, f, t, miss)) => {
                assert!(not_found == miss, "SPEC fetch: not_found must be reported iff a peer reported the hash missing");
                if miss { assert!(m1 == Some((now, 0, false, false)), "SPEC fetch: a missing item must be re-requested on the next call"); }
                else { assert!(m1 == m0, "SPEC fetch: polling must not change a pending request");
                       if f > 0 { assert!(fetching == Some(f), "SPEC fetch: a sent request must report `fetching`"); } else { assert!(added == Some(a), "SPEC fetch: an unsent request must report `added`"); } }
            }
        }
        kani::cover!(not_found, "not_found reported");
        kani::cover!(fetching.is_some(), "fetching reported");
    }
}
