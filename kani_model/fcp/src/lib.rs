// K-model unit `fcp`: real text of LightClientProtocol::finalize_check_points (light_client/mod.rs),
// Peers::required_peers_count and CheckPoints::{add_check_points, ..} (peers.rs).
#![allow(unused, dead_code, unused_mut, static_mut_refs, non_snake_case)]
use std::{fmt, mem};
pub const CAP: usize = 4;
pub const MAP_CAP: usize = 4;
#[macro_use] #[path = "../../prelude/macros.rs"] mod pmacros;
include!("../../prelude/vec.rs");
include!("../../prelude/hashmap.rs");
include!("../../prelude/u256.rs");
include!("../../prelude/epoch.rs");
include!("../../prelude/lc_types.rs");
include!("../../prelude/status.rs");
pub mod packed { pub use super::Byte32; }
pub const BAD_MESSAGE_BAN_TIME: u64 = 300;
pub type CpIndex = u32;

pub struct Ghost { pub banned: [bool; CAP], pub removed_first_n: [usize; CAP], pub upd_start: u32, pub upd: [Byte32; CAP], pub upd_len: usize, pub upd_calls: usize, pub new_max: u32, pub max_calls: usize, pub max_before_upd: bool }
pub static mut G: Ghost = Ghost { banned: [false; CAP], removed_first_n: [0; CAP], upd_start: 0, upd: [Byte32(0); CAP], upd_len: 0, upd_calls: 0, new_max: 0, max_calls: 0, max_before_upd: false };
pub trait CKBProtocolContext { fn ban_peer(&self, p: PeerIndex, d: u64, reason: String); }
pub struct Nc;
impl CKBProtocolContext for Nc { fn ban_peer(&self, p: PeerIndex, _d: u64, _r: String) { unsafe { G.banned[p.0 as usize] = true; } } }

pub struct Peers { pub max_outbound_peers: u32, pub required_override: Option<usize>, pub data: HashMap<PeerIndex, (u32, Vec<Byte32>)> }
impl Peers {
    pub fn get_max_outbound_peers(&self) -> u32 { self.max_outbound_peers }
    pub fn get_all_proved_check_points(&self) -> HashMap<PeerIndex, (u32, Vec<Byte32>)> { self.data }
    pub fn remove_first_n_check_points(&self, p: PeerIndex, n: usize) { unsafe { G.removed_first_n[p.0 as usize] += n; } }
}
pub struct Storage { pub last_idx: u32, pub last_cp: Byte32 }
impl Storage {
    pub fn get_last_check_point(&self) -> (u32, Byte32) { (self.last_idx, self.last_cp) }
    pub fn update_check_points(&self, start: u32, cps: &[Byte32]) { unsafe { G.upd_calls += 1; G.upd_start = start; G.upd_len = cps.len(); let mut i = 0; while i < cps.len() && i < CAP { G.upd[i] = cps[i]; i += 1; } } }
    pub fn update_max_check_point_index(&self, idx: u32) { unsafe { if G.upd_calls == 0 { G.max_before_upd = true; } G.max_calls += 1; G.new_max = idx; } }
}
pub struct LightClientProtocol { pub storage: Storage, pub peers: Peers }
impl LightClientProtocol { pub fn peers(&self) -> &Peers { &self.peers } }

include!("extracted.rs");

#[cfg(kani)]
mod harness {
    use super::*;

    fn quorum<const NP: usize, const LEN: usize, const RQ: u32>() { quorum_v::<NP, LEN, RQ, 3>() }
    fn quorum_v<const NP: usize, const LEN: usize, const RQ: u32, const NV: u8>() {
        let npeers: usize = kani::any(); kani::assume(npeers <= NP);
        let max_out: u32 = kani::any(); kani::assume(max_out >= 1 && max_out <= RQ);   // required = ceil(max_out / 2)
        let required = ((max_out + 1) / 2) as usize;
        let last_idx: u32 = kani::any(); kani::assume(last_idx < 1000);
        let last_cp = Byte32(kani::any());
        let mut starts = [0u32; NP];
        let mut vecs = [Vec::<Byte32>::new(); NP];
        let mut i = 0;
        while i < NP {
            if i < npeers {
                let start: u32 = kani::any(); kani::assume(start < 1000);
                let len: usize = kani::any(); kani::assume(len >= 1 && len <= LEN);
                let mut v = Vec::new(); let mut j = 0;
                while j < LEN { if j < len { let b: u8 = kani::any(); kani::assume(b < NV); v.push(Byte32(b)); } j += 1; }
                starts[i] = start; vecs[i] = v;
            }
            i += 1;
        }
        // the real HashMap iterates in an unspecified order: insert in a symbolic rotation + optional swap
        let rot: usize = kani::any(); kani::assume(rot < NP);
        let swap: bool = kani::any();
        let mut data = HashMap::new();
        let mut k = 0;
        while k < NP {
            let mut i = (k + rot) % NP;
            if swap && NP >= 2 { if i == 0 { i = 1 } else if i == 1 { i = 0 } }
            if i < npeers { data.insert(PeerIndex(i as u8), (starts[i], vecs[i])); }
            k += 1;
        }
        let mut p = LightClientProtocol { storage: Storage { last_idx, last_cp }, peers: Peers { max_outbound_peers: max_out, required_override: None, data } };
        p.finalize_check_points(&Nc);
        unsafe {
            assert!(G.upd_calls <= 1 && G.max_calls == G.upd_calls, "SPEC check points: check points and the final index must be written together, at most once");
            assert!(!G.max_before_upd, "SPEC check points: final index advanced before the check points were written");
            // who is consistent with the already final value
            let mut consistent = [false; NP]; let mut q = 0;
            while q < NP {
                if q < npeers && starts[q] <= last_idx { let base = (last_idx - starts[q]) as usize; if base < vecs[q].len && vecs[q].buf[base] == last_cp { consistent[q] = true; }
                    else if base < vecs[q].len && npeers >= required { assert!(G.banned[q], "SPEC check points: a peer contradicting the final check point was not banned (on a tick with enough proven peers)"); } }
                if q < npeers && consistent[q] { assert!(!G.banned[q], "SPEC check points: a peer consistent with the final check point was banned"); }
                q += 1;
            }
            // completeness: FEWER deviating (silent, shorter, disagreeing, inconsistent) peers than the quorum cannot block a quorum that agrees on the NEXT check point
            let mut x = 0u8;
            while x < 3 {
                let mut cnt = 0; let mut q = 0;
                while q < NP { if q < npeers && consistent[q] { let pos = (last_idx - starts[q]) as usize + 1; if pos < vecs[q].len && vecs[q].buf[pos] == Byte32(x) { cnt += 1; } } q += 1; }
                if cnt >= required && npeers - cnt < required { assert!(G.upd_calls == 1, "SPEC check points: a quorum agrees on the next check point and fewer peers than the quorum deviate, but nothing was finalized (agreement blocked)"); kani::cover!(npeers > cnt, "a quorum finalizes although another peer is silent or deviates"); }
                x += 1;
            }
            if G.upd_calls == 1 {
                assert!(G.upd_start == last_idx + 1, "SPEC check points: written range does not start right after the final index (a final value would be rewritten or skipped)");
                assert!(G.upd_len >= 1 && G.new_max == last_idx + G.upd_len as u32, "SPEC check points: final index not strictly increased to the end of the written range");
                // ONE set of at least `required` peers agrees on the old final value and on EVERY newly final value
                let mut agree_all = 0; let mut q = 0;
                while q < NP {
                    if q < npeers && consistent[q] {
                        let mut all = true; let mut k = 0;
                        while k < CAP { if k < G.upd_len { let pos = (last_idx - starts[q]) as usize + 1 + k; if !(pos < vecs[q].len && vecs[q].buf[pos] == G.upd[k]) { all = false; } } k += 1; }
                        if all { agree_all += 1; }
                    }
                    q += 1;
                }
                assert!(agree_all >= required, "SPEC check points: finalized without a quorum agreeing on every check point since the previous final one");
                kani::cover!(G.upd_len == 2, "two check points finalized at once");
            } else {
                kani::cover!(npeers >= required, "enough peers but nothing finalized");
            }
            kani::cover!(npeers >= 1 && G.banned[0], "a peer banned");
        }
    }
    #[kani::proof] #[kani::unwind(7)] fn quorum_q() { quorum::<3, 3, 4>(); }
    #[kani::proof] #[kani::unwind(7)] fn quorum_q2() { quorum_v::<3, 3, 4, 2>(); }
    #[kani::proof] #[kani::unwind(8)] fn quorum_t() { quorum::<4, 4, 6>(); }

    #[kani::proof]
    fn required_count() {
        let m: u32 = kani::any(); kani::assume(m >= 1);
        let p = Peers { max_outbound_peers: m, required_override: None, data: HashMap::new() };
        let r = p.required_peers_count();
        assert!(r >= 1 && (r as u64) * 2 >= m as u64 && ((r as u64) - 1) * 2 < m as u64, "SPEC quorum: required peers is not ceil(max_outbound / 2)");
        kani::cover!(m == u32::MAX);
    }

    fn add_cps<const N: usize>() {
        let interval: u64 = 2000;
        let idx: u32 = kani::any();
        let first = Byte32(kani::any());
        let mut cps = CheckPoints::new(interval, idx, first);
        // arbitrary current content: 1..=2 entries
        if kani::any() { cps.inner.push(Byte32(kani::any())); }
        let before = cps.inner;
        let last_proved: u64 = kani::any();
        let start: u64 = kani::any();
        let n: usize = kani::any(); kani::assume(n <= N);
        let mut v = Vec::new(); let mut i = 0;
        while i < CAP { if i < n { v.push(Byte32(kani::any())); } i += 1; }
        let next = interval * idx as u64 + interval * (before.len as u64 - 1);
        let r = cps.add_check_points(last_proved, start, &v[..]);
        match r {
            Ok(more) => {
                assert!(n >= 2, "SPEC check point sync: fewer than two check points accepted");
                assert!(start % interval == 0 && start == next, "SPEC check point sync: start is not the next expected aligned number");
                assert!(v.buf[0] == before.buf[before.len - 1], "SPEC check point sync: first entry does not repeat the last known check point");
                let added = cps.inner.len - before.len;
                let mut i = 0; while i < CAP { if i < before.len { assert!(cps.inner.buf[i] == before.buf[i], "SPEC check point sync: an existing check point was rewritten"); } i += 1; }
                let mut i = 0; while i < CAP { if i < added { assert!(cps.inner.buf[before.len + i] == v.buf[1 + i], "SPEC check point sync: appended values are not the message's, in order"); } i += 1; }
                // never beyond the proven number: the last appended check point is at start + interval*added <= last_proved (+ tolerance of the code: strictly the `<=` test)
                if added > 0 { assert!(added == n - 1 || added == n - 2, "SPEC check point sync: unexpected number of appended check points"); }
                if added == n - 1 && added > 0 { assert!(start + interval * n as u64 <= last_proved, "SPEC check point sync: check points beyond the proven number were appended"); }
                kani::cover!(added == 2, "two check points appended");
                kani::cover!(more.is_some(), "more requested");
            }
            Err(_) => { assert!(cps.inner == before, "SPEC check point sync: rejected message changed the stored check points"); }
        }
    }
    #[kani::proof] #[kani::unwind(7)] fn add_cps_q() { add_cps::<3>(); }
}
