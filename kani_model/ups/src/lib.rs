// K-model unit `ups`: real text of Peers::update_prove_state over the REAL PeerState / ProveState text (peers.rs); the peer table is the model
// DashMap, the per-peer cache of latest block filter hashes is a counter with a `cleared` flag.
#![allow(unused, dead_code, unused_mut, static_mut_refs, non_snake_case)]
use std::{fmt, mem};
pub const CAP: usize = 2;
pub const DM_CAP: usize = 2;
#[macro_use] #[path = "../../prelude/macros.rs"] mod pmacros;
include!("../../prelude/vec.rs");
include!("../../prelude/u256.rs");
include!("../../prelude/epoch.rs");
include!("../../prelude/lc_types.rs");
include!("../../prelude/dashmap.rs");
#[derive(Default)] pub struct Lbfh { pub n: u8, pub cleared: bool }
impl Lbfh { pub fn clear(&mut self) { self.n = 0; self.cleared = true; } }
/// in-flight requests of a peer (blocks proof / blocks / transactions proof): only the send time matters here
#[derive(Clone, Copy, Default)] pub struct Req { pub when_sent: u64 }
#[derive(Default)] pub struct Peer { pub state: PeerState, pub latest_block_filter_hashes: Lbfh, pub blocks_proof_request: Option<Req>, pub blocks_request: Option<Req>, pub txs_proof_request: Option<Req> }
impl Peer {
    pub fn get_blocks_proof_request(&self) -> Option<&Req> { self.blocks_proof_request.as_ref() }
    pub fn get_blocks_request(&self) -> Option<&Req> { self.blocks_request.as_ref() }
    pub fn get_txs_proof_request(&self) -> Option<&Req> { self.txs_proof_request.as_ref() }
}
pub struct Peers { pub inner: DashMap<PeerIndex, Peer> }
pub mod packed {
    pub use super::Byte32;
    #[derive(Clone, Copy, Default, PartialEq, Eq, Debug)] pub struct GetLastStateProof(pub u8);
}
pub static mut NOW: u64 = 0;
pub fn unix_time_as_millis() -> u64 { unsafe { NOW } }
pub trait HeaderUtils { fn is_parent_of(&self, child: &Self) -> bool; }
impl HeaderUtils for HeaderView {
    // the real implementation is the subject of unit `slsp` (O1.2); here only linkage matters
    fn is_parent_of(&self, child: &Self) -> bool { self.number.wrapping_add(1) == child.number && self.id == child.parent }
}

include!("extracted.rs");
include!("../../prelude/status.rs");
impl fmt::Display for PeerState { fn fmt(&self, f: &mut fmt::Formatter) -> fmt::Result { Ok(()) } }
impl fmt::Display for LastState { fn fmt(&self, f: &mut fmt::Formatter) -> fmt::Result { Ok(()) } }
impl fmt::Display for ProveRequest { fn fmt(&self, f: &mut fmt::Formatter) -> fmt::Result { Ok(()) } }
impl fmt::Display for ProveState { fn fmt(&self, f: &mut fmt::Formatter) -> fmt::Result { Ok(()) } }

#[cfg(kani)]
mod harness {
    use super::*;
    fn any_vh() -> VerifiableHeader {
        let id: u8 = kani::any(); kani::assume(id < 4);
        let td: u64 = kani::any();
        VerifiableHeader { header: HeaderView { id, number: kani::any(), parent: kani::any(), diff: 0, ..Default::default() },
            uncles: 0, ext: None, root: HeaderDigest { td: U256(td), end_number: 0, id: 0 } }
    }
    fn any_ls() -> LastState { unsafe { NOW = kani::any(); } LastState::new(any_vh()) }
    fn any_req() -> ProveRequest { ProveRequest::new(any_ls(), packed::GetLastStateProof(kani::any())) }
    /// a prove state the peer already holds may itself sit on an earlier fork switch (children inherit the reorg headers)
    fn any_ps() -> ProveState { let mut re = Vec::new(); if kani::any() { re.push(HeaderView { id: kani::any(), number: kani::any(), ..Default::default() }); } ProveState::new_from_request(any_req(), re, Vec::new()) }
    fn any_state() -> PeerState {
        let t: u8 = kani::any(); kani::assume(t >= 1 && t <= 7);
        match t {
            1 => PeerState::Initialized,
            2 => PeerState::RequestFirstLastState { when_sent: kani::any() },
            3 => PeerState::OnlyHasLastState { last_state: any_ls() },
            4 => PeerState::RequestFirstLastStateProof { last_state: any_ls(), request: any_req(), when_sent: kani::any() },
            5 => PeerState::Ready { last_state: any_ls(), prove_state: any_ps() },
            6 => PeerState::RequestNewLastState { last_state: any_ls(), prove_state: any_ps(), when_sent: kani::any() },
            _ => PeerState::RequestNewLastStateProof { last_state: any_ls(), prove_state: any_ps(), request: any_req(), when_sent: kani::any() },
        }
    }
    /// installing a prove state that carries reorg headers (a fork switch, or a descendant of one) drops the peer's cached filter hashes of
    /// the abandoned branch; without reorg headers the cache is untouched; other peers are untouched
    /// O11.3: a peer is reported as timed out iff a request to it is unanswered for longer than MESSAGE_TIMEOUT (state-machine request, blocks proof, blocks,
    /// transactions proof) or its last state was not refreshed within MESSAGE_TIMEOUT; every such peer exactly once
    #[cfg(ups_timeout)] #[kani::proof] #[kani::unwind(4)]
    fn timeouts() {
        let peers = Peers { inner: DashMap::new() };
        let clock = |t: u64| { kani::assume(t < (1u64 << 62)); t };   // local clock readings (milliseconds): below 2^62
        let any_req_opt = || -> Option<Req> { if kani::any() { let t: u64 = kani::any(); kani::assume(t < (1u64 << 62)); Some(Req { when_sent: t }) } else { None } };
        let mut k = 0u8;
        while k < 2 {
            let st = any_state();
            if let Some(w) = st.when_sent_request() { clock(w); }
            if let Some(ls) = st.get_last_state() { clock(ls.update_ts); }
            peers.inner.insert(PeerIndex(k), Peer { state: st, latest_block_filter_hashes: Lbfh::default(), blocks_proof_request: any_req_opt(), blocks_request: any_req_opt(), txs_proof_request: any_req_opt() });
            k += 1;
        }
        let now: u64 = kani::any();
        let out = peers.get_peers_which_have_timeout(now);
        let late = |t: u64| now > t + MESSAGE_TIMEOUT;
        let mut k = 0u8;
        while k < 2 {
            let p = peers.inner.get(&PeerIndex(k)).unwrap();
            let want = p.state.when_sent_request().map(|w| late(w)).unwrap_or(false)
                || p.state.get_last_state().map(|ls| late(ls.update_ts)).unwrap_or(false)
                || p.blocks_proof_request.map(|r| late(r.when_sent)).unwrap_or(false)
                || p.blocks_request.map(|r| late(r.when_sent)).unwrap_or(false)
                || p.txs_proof_request.map(|r| late(r.when_sent)).unwrap_or(false);
            let mut c = 0; let mut i = 0; while i < 2 { if i < out.len && out.buf[i] == PeerIndex(k) { c += 1; } i += 1; }
            if want { assert!(c == 1, "SPEC timeout: a peer with an unanswered request / an unchanged last state older than the message timeout is not reported (it would never be disconnected)"); }
            else { assert!(c == 0, "SPEC timeout: a peer is reported as timed out although nothing is overdue"); }
            kani::cover!(want && p.state.when_sent_request().is_none() && p.txs_proof_request.is_some(), "overdue transactions proof request of a peer whose state machine is idle");
            k += 1;
        }
        assert!(out.len <= 2, "SPEC timeout: more reports than peers");
    }
    #[cfg(not(ups_timeout))] #[kani::proof] #[kani::unwind(80)]
    fn update_prove_state_clears_cache() {
        let peers = Peers { inner: DashMap::new() };
        let n0: u8 = kani::any(); let n1: u8 = kani::any();
        peers.inner.insert(PeerIndex(0), Peer { state: any_state(), latest_block_filter_hashes: Lbfh { n: n0, cleared: false }, ..Default::default() });
        peers.inner.insert(PeerIndex(1), Peer { state: any_state(), latest_block_filter_hashes: Lbfh { n: n1, cleared: false }, ..Default::default() });
        let nre: usize = kani::any(); kani::assume(nre <= 2);
        let mut reorg = Vec::new(); let mut i = 0; while i < 2 { if i < nre { reorg.push(HeaderView { id: kani::any(), number: kani::any(), ..Default::default() }); } i += 1; }
        let ps = ProveState::new_from_request(any_req(), reorg, Vec::new());
        let prev_on_fork = peers.inner.get(&PeerIndex(0)).unwrap().state.get_prove_state().map(|p| !p.get_reorg_last_headers().is_empty()).unwrap_or(false);
        let r = peers.update_prove_state(PeerIndex(0), ps);
        let p0 = peers.inner.get(&PeerIndex(0)).unwrap();
        if r.is_ok() {
            if nre > 0 { assert!(p0.latest_block_filter_hashes.cleared && p0.latest_block_filter_hashes.n == 0, "SPEC fork switch: a prove state with reorg headers was installed but the cached latest block filter hashes of the abandoned branch were kept"); }
            else { assert!(!p0.latest_block_filter_hashes.cleared && p0.latest_block_filter_hashes.n == n0, "SPEC fork switch: the cached latest block filter hashes were dropped although the new prove state carries no reorg"); }
            assert!(p0.state.get_prove_state().is_some(), "SPEC: after a successful update the peer holds a prove state");
        }
        let p1 = peers.inner.get(&PeerIndex(1)).unwrap();
        assert!(!p1.latest_block_filter_hashes.cleared && p1.latest_block_filter_hashes.n == n1, "SPEC frame: another peer's cache was touched");
        kani::cover!(r.is_ok() && nre > 0 && p0.state.get_prove_state().is_some(), "reorg state installed");
        kani::cover!(r.is_err(), "rejected");
        kani::cover!(r.is_ok() && nre > 0 && prev_on_fork, "second fork switch of a peer whose previous state already carried reorg headers");
    }
}
