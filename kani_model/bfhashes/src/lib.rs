// K-model unit `bfhashes`: real text of BlockFilterHashesProcess::execute (filter/components/block_filter_hashes_process.rs) over
// models of Storage / Peers / FilterProtocol.  Ground truth: an arbitrary array FH of "true" filter hashes for blocks 0..16 from which
// the finalized check points are cut (model check-point interval 4 instead of 2000).
#![allow(unused, dead_code, unused_mut, static_mut_refs, non_snake_case)]
use std::ops::Deref;
pub const CAP: usize = 6;
pub const MAP_CAP: usize = 2;
pub const INTERVAL: u64 = 4;
pub const WIN: usize = 16;
#[macro_use] #[path = "../../prelude/macros.rs"] mod pmacros;
include!("../../prelude/vec.rs");
include!("../../prelude/hashmap.rs");
include!("../../prelude/u256.rs");
include!("../../prelude/epoch.rs");
include!("../../prelude/lc_types.rs");
include!("../../prelude/status.rs");
#[cfg(kani)] fn any_usize() -> usize { kani::any() }
#[cfg(not(kani))] fn any_usize() -> usize { 0 }
impl<T: Copy + Default> Vec<T> { pub fn choose<R>(&self, _r: &mut R) -> Option<&T> { if self.len == 0 { None } else { let i: usize = any_usize(); if i < self.len { Some(&self.buf[i]) } else { Some(&self.buf[0]) } } } }
pub mod rand { pub struct Rng; pub fn thread_rng() -> Rng { Rng } }
pub mod packed {
    use super::*;
    pub use super::Byte32;
    #[derive(Clone, Copy)] pub struct B32R(pub Byte32);
    impl B32R { pub fn to_entity(&self) -> Byte32 { self.0 } }
    pub struct B32VecR<'a> { pub v: &'a [B32R] }
    impl<'a> B32VecR<'a> { pub fn iter(&self) -> std::slice::Iter<'a, B32R> { self.v.iter() } }
    pub struct BlockFilterHashesReader<'a> { pub start: u64, pub parent: Byte32, pub hashes: &'a [B32R] }
    impl<'a> BlockFilterHashesReader<'a> {
        pub fn start_number(&self) -> PU64 { PU64(self.start) }
        pub fn parent_block_filter_hash(&self) -> B32R { B32R(self.parent) }
        pub fn block_filter_hashes(&self) -> B32VecR<'a> { B32VecR { v: self.hashes } }
    }
}
#[derive(Clone, Copy, Default)] pub struct ProveState { pub last: VerifiableHeader }
impl ProveState { pub fn get_last_header(&self) -> &VerifiableHeader { &self.last } }
#[derive(Clone, Copy, Default)] pub struct PeerState { pub ps: Option<ProveState> }
impl PeerState { pub fn get_prove_state(&self) -> Option<&ProveState> { self.ps.as_ref() } }
impl std::fmt::Display for PeerState { fn fmt(&self, _f: &mut std::fmt::Formatter) -> std::fmt::Result { Ok(()) } }

pub struct Ghost { pub cached_upd: Option<Vec<Byte32>>, pub latest_called: bool, pub asked_hashes: Option<u64>, pub asked_filters: bool }
pub static mut G: Ghost = Ghost { cached_upd: None, latest_called: false, asked_hashes: None, asked_filters: false };
pub struct Storage { pub fin_idx: u32, pub fh: [Byte32; WIN] }
impl Storage {
    pub fn get_last_check_point(&self) -> (u32, Byte32) { (self.fin_idx, self.fh[(self.fin_idx as u64 * INTERVAL) as usize]) }
    /// finalized check points idx, idx+1, ... (at most `limit`), as stored
    pub fn get_check_points(&self, idx: u32, limit: usize) -> Vec<Byte32> { let mut v = Vec::new(); let mut i = idx; while (i <= self.fin_idx) && v.len() < limit { v.push(self.fh[(i as u64 * INTERVAL) as usize]); i += 1; } v }
}
pub struct Peers { pub state: Option<PeerState>, pub cached_idx: u32, pub cached: Vec<Byte32>, pub other_peer_cp: Option<u32>, pub latest_answer: u8 }
impl Peers {
    pub fn get_state(&self, _p: &PeerIndex) -> Option<PeerState> { self.state }
    pub fn calc_check_point_number(&self, idx: u32) -> u64 { INTERVAL * idx as u64 }
    pub fn get_cached_block_filter_hashes(&self) -> (u32, Vec<Byte32>) { (self.cached_idx, self.cached) }
    pub fn update_cached_block_filter_hashes(&self, v: Vec<Byte32>) { unsafe { G.cached_upd = Some(v); } }
    pub fn get_all_proved_check_points(&self) -> HashMap<PeerIndex, (u32, Vec<Byte32>)> { let mut m = HashMap::new(); m.insert(PeerIndex(0), (0, Vec::new())); if let Some(c) = self.other_peer_cp { m.insert(PeerIndex(1), (c, Vec::new())); } m }
    /// the real text of this function is decided in unit `lbfh` (C06 O6.2): here only that it is the one reached for starts above the finalized check point
    pub fn update_latest_block_filter_hashes(&self, _p: PeerIndex, _pn: u64, _fi: u32, _fcp: &Byte32, _s: u64, _par: &Byte32, _h: &[Byte32]) -> Result<Option<u64>, Status> {
        unsafe { G.latest_called = true; }
        match self.latest_answer { 0 => Err(Status::from(StatusCode::Ignore)), 1 => Ok(None), _ => Ok(Some(1)) }
    }
}
pub struct Arc<T: 'static>(pub &'static T);
impl<T> Arc<T> { pub fn clone(a: &Arc<T>) -> Arc<T> { Arc(a.0) } pub fn as_ref(&self) -> &T { self.0 } }
impl<T> Deref for Arc<T> { type Target = T; fn deref(&self) -> &T { self.0 } }
pub struct Nc;
pub struct FilterProtocol { pub storage: Storage, pub peers: Peers }
impl FilterProtocol {
    pub fn send_get_block_filter_hashes(&self, _nc: Arc<Nc>, _p: PeerIndex, n: u64) { unsafe { G.asked_hashes = Some(n); } }
    pub fn try_send_get_block_filters(&self, _nc: Arc<Nc>, _im: bool) { unsafe { G.asked_filters = true; } }
}
pub struct BlockFilterHashesProcess<'a> { pub message: packed::BlockFilterHashesReader<'a>, pub protocol: &'a FilterProtocol, pub nc: Arc<Nc>, pub peer_index: PeerIndex }

include!("extracted.rs");

#[cfg(kani)]
mod harness {
    use super::*;
    static NC: Nc = Nc;
    fn hashes_step<const NH: usize>() {
        let fh: [u8; WIN] = kani::any(); let fhb: [Byte32; WIN] = unsafe { std::mem::transmute(fh) };
        let fin_idx: u32 = kani::any(); kani::assume(fin_idx <= 2);
        let cached_idx: u32 = kani::any(); kani::assume(cached_idx <= 2);
        // representation invariant of the cache: <= INTERVAL hashes, and what is cached so far was accepted earlier (arbitrary values: a single
        // peer supplied them; only a COMPLETE interval is bound to the next finalized check point)
        let cached_len: usize = kani::any(); kani::assume(cached_len <= INTERVAL as usize);
        let mut cached = Vec::new(); let mut i = 0; while i < INTERVAL as usize { if i < cached_len { cached.push(Byte32(kani::any())); } i += 1; }
        if cached_len == INTERVAL as usize && cached_idx < fin_idx { kani::assume(cached.buf[cached_len - 1] == fhb[((cached_idx as u64 + 1) * INTERVAL) as usize]); }
        let proved: bool = kani::any();
        let mut ps = ProveState::default(); ps.last.header.number = kani::any();
        let fp = FilterProtocol { storage: Storage { fin_idx, fh: fhb }, peers: Peers { state: if kani::any() { Some(PeerState { ps: if proved { Some(ps) } else { None } }) } else { None }, cached_idx, cached, other_peer_cp: if kani::any() { Some(kani::any()) } else { None }, latest_answer: kani::any() } };
        let connected = fp.peers.state.is_some();
        let nh: usize = kani::any(); kani::assume(nh <= NH);
        let hb: [u8; NH] = kani::any(); let mut hs = [packed::B32R(Byte32(0)); NH]; let mut i = 0; while i < NH { hs[i] = packed::B32R(Byte32(hb[i])); i += 1; }
        let start: u64 = kani::any(); let parent = Byte32(kani::any());
        let p = BlockFilterHashesProcess { message: packed::BlockFilterHashesReader { start, parent, hashes: &hs[..nh] }, protocol: &fp, nc: Arc(&NC), peer_index: PeerIndex(0) };
        let st = p.execute();
        unsafe {
            let cp_no = cached_idx as u64 * INTERVAL; let next_no = cp_no + INTERVAL; let fin_no = fin_idx as u64 * INTERVAL;
            if let Some(new) = G.cached_upd {
                assert!(connected && proved, "SPEC filter hashes: cache updated for an unproven / unknown peer");
                assert!(start <= fin_no && cp_no < start && start <= next_no, "SPEC filter hashes: cache updated by a batch outside the cached check-point interval");
                assert!(start <= cp_no + cached_len as u64 + 1, "SPEC filter hashes: cache updated by a batch that neither overlaps nor continues it");
                // linked to what is already known
                if start == cp_no + 1 { assert!(parent == fhb[cp_no as usize], "SPEC filter hashes: first batch of an interval is not chained from the finalized check point"); }
                else { assert!(parent == cached.buf[(start - cp_no - 2) as usize], "SPEC filter hashes: batch is not chained from the cached hash of the previous block"); }
                // old entries kept, overlap agrees, the tail appended, never beyond the next check point
                assert!(new.len >= cached_len && new.len as u64 <= INTERVAL, "SPEC filter hashes: cache shrank or grew beyond one interval");
                let mut i = 0;
                while i < INTERVAL as usize {
                    if i < new.len {
                        let n = cp_no + 1 + i as u64;
                        if i < cached_len { assert!(new.buf[i] == cached.buf[i], "SPEC filter hashes: a cached hash was rewritten");
                            if n >= start && ((n - start) as usize) < nh { assert!(Byte32(hb[(n - start) as usize]) == cached.buf[i], "SPEC filter hashes: accepted although an overlapping position disagrees"); } }
                        else { assert!(n >= start && ((n - start) as usize) < nh && new.buf[i] == Byte32(hb[(n - start) as usize]), "SPEC filter hashes: appended hash is not the message's hash of that block"); }
                    }
                    i += 1;
                }
                // THE binding to the quorum: a complete interval must end with the finalized next check point
                if new.len as u64 == INTERVAL { assert!(new.buf[new.len - 1] == fhb[next_no as usize], "SPEC filter hashes: a completed interval of cached filter hashes does not end with the finalized next check point (a single peer's hash chain is accepted unpinned)"); }
                kani::cover!(new.len as u64 == INTERVAL && cached_len < INTERVAL as usize, "an interval completed");
                kani::cover!(new.len == cached_len + 2, "two hashes appended");
            }
            if G.latest_called { assert!(connected && proved && start > fin_no, "SPEC filter hashes: latest hashes updated for an unproven peer or a start at / below the finalized check point"); assert!(G.cached_upd.is_none(), "SPEC filter hashes: both tables updated"); }
            if !(connected && proved) { assert!(G.asked_hashes.is_none() && !G.asked_filters, "SPEC filter hashes: requests sent on behalf of an unproven / unknown peer"); }
        }
    }
    #[kani::proof] #[kani::unwind(8)] fn hashes_q() { hashes_step::<4>(); }
    #[kani::proof] #[kani::unwind(9)] fn hashes_t() { hashes_step::<5>(); }
}
