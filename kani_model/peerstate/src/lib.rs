// K-model unit `peerstate`: the real PeerState / LastState / ProveRequest / ProveState code of
// src/protocols/light_client/peers.rs (extracted.rs, regenerated every run) over the model prelude.
#![allow(unused, dead_code, unused_mut, static_mut_refs, non_snake_case)]
use std::{fmt, mem};
pub const CAP: usize = 2;
#[macro_use] #[path = "../../prelude/macros.rs"] mod pmacros;
include!("../../prelude/vec.rs");
include!("../../prelude/u256.rs");
include!("../../prelude/epoch.rs");
include!("../../prelude/lc_types.rs");
pub mod packed {
    pub use super::Byte32;
    #[derive(Clone, Copy, Default, PartialEq, Eq, Debug)] pub struct GetLastStateProof(pub u8);
}
pub static mut NOW: u64 = 0;
pub fn unix_time_as_millis() -> u64 { unsafe { NOW } }
pub trait HeaderUtils { fn is_parent_of(&self, child: &Self) -> bool; }
impl HeaderUtils for HeaderView {
    // the real implementation is the subject of unit `slsp` (O1.2); here only linkage matters
    fn is_parent_of(&self, child: &Self) -> bool { self.number.wrapping_add(1) == child.number && self.id == child.parent }
}

include!("extracted.rs");
include!("../../prelude/status.rs");
impl fmt::Display for PeerState { fn fmt(&self, f: &mut fmt::Formatter) -> fmt::Result { Ok(()) } }
impl fmt::Display for LastState { fn fmt(&self, f: &mut fmt::Formatter) -> fmt::Result { Ok(()) } }
impl fmt::Display for ProveRequest { fn fmt(&self, f: &mut fmt::Formatter) -> fmt::Result { Ok(()) } }
impl fmt::Display for ProveState { fn fmt(&self, f: &mut fmt::Formatter) -> fmt::Result { Ok(()) } }

#[cfg(kani)]
mod harness {
    use super::*;
    fn any_vh() -> VerifiableHeader {
        let id: u8 = kani::any(); kani::assume(id < 4);
        let td: u64 = kani::any();
        VerifiableHeader { header: HeaderView { id, number: kani::any(), parent: kani::any(), diff: 0, ..Default::default() },
            uncles: 0, ext: None, root: HeaderDigest { td: U256(td), end_number: 0, id: 0 } }
    }
    fn any_ls() -> LastState { unsafe { NOW = kani::any(); } LastState::new(any_vh()) }
    fn any_req() -> ProveRequest { ProveRequest::new(any_ls(), packed::GetLastStateProof(kani::any())) }
    fn any_ps() -> ProveState { ProveState::new_from_request(any_req(), Vec::new(), Vec::new()) }
    fn any_state() -> PeerState {
        let t: u8 = kani::any(); kani::assume(t >= 1 && t <= 7);
        match t {
            1 => PeerState::Initialized,
            2 => PeerState::RequestFirstLastState { when_sent: kani::any() },
            3 => PeerState::OnlyHasLastState { last_state: any_ls() },
            4 => PeerState::RequestFirstLastStateProof { last_state: any_ls(), request: any_req(), when_sent: kani::any() },
            5 => PeerState::Ready { last_state: any_ls(), prove_state: any_ps() },
            6 => PeerState::RequestNewLastState { last_state: any_ls(), prove_state: any_ps(), when_sent: kani::any() },
            _ => PeerState::RequestNewLastStateProof { last_state: any_ls(), prove_state: any_ps(), request: any_req(), when_sent: kani::any() },
        }
    }
    fn tag(s: &PeerState) -> u8 { match s { PeerState::Initialized => 1, PeerState::RequestFirstLastState { .. } => 2, PeerState::OnlyHasLastState { .. } => 3, PeerState::RequestFirstLastStateProof { .. } => 4, PeerState::Ready { .. } => 5, PeerState::RequestNewLastState { .. } => 6, PeerState::RequestNewLastStateProof { .. } => 7 } }
    // identity of the components, read through the real accessors
    fn proved(s: &PeerState) -> Option<(u8, u64, u64)> { s.get_prove_state().map(|p| { let h = p.get_last_header(); (h.header.id, h.header.number, h.root.td.0) }) }
    fn last(s: &PeerState) -> Option<(u8, u64, u64, u64)> { s.get_last_state().map(|l| { let h = l.as_ref(); (h.header.id, h.header.number, h.root.td.0, l.update_ts()) }) }
    fn request(s: &PeerState) -> Option<(u8, u8)> { s.get_prove_request().map(|r| (r.get_last_header().header.id, r.get_content().0)) }

    /// documented transition table (plantuml diagram in peers.rs + the in-place updates)
    fn table(before: u8, ev: u8) -> Option<u8> {
        match (before, ev) {
            (1, 0) => Some(2), (3, 0) => Some(3), (5, 0) => Some(6),
            (2, 1) => Some(3), (6, 1) => Some(5), (3, 1) => Some(3), (4, 1) => Some(4), (5, 1) => Some(5), (7, 1) => Some(7),
            (3, 2) => Some(4), (5, 2) => Some(7), (4, 2) => Some(4), (7, 2) => Some(7),
            (3, 3) | (4, 3) | (5, 3) | (7, 3) => Some(5),
            _ => None,
        }
    }

    fn step(st: &PeerState) -> Option<PeerState> {
        let ev: u8 = kani::any(); kani::assume(ev < 4);
        let before = tag(st); let p0 = proved(st); let l0 = last(st); let q0 = request(st);
        let ls = any_ls(); let rq = any_req(); let ps = any_ps(); let ws: u64 = kani::any();
        let r = match ev {
            0 => st.clone().request_last_state(ws),
            1 => st.clone().receive_last_state(ls.clone()),
            2 => st.clone().request_last_state_proof(rq.clone(), ws),
            _ => st.clone().receive_last_state_proof(ps.clone()),
        };
        match r {
            Ok(n) => {
                let after = tag(&n);
                assert!(table(before, ev) == Some(after), "transition outside the documented table");
                // the proved state changes only when a proof is received, and then to exactly that proof
                if ev != 3 { assert!(proved(&n) == p0, "prove state changed without a proof"); }
                else { assert!(proved(&n) == proved(&PeerState::Ready { last_state: ls.clone(), prove_state: ps.clone() }), "prove state is not the received one"); }
                // a last-state update never discards an existing proof (covered above) and sets exactly the new last state
                if ev == 1 { assert!(last(&n) == last(&PeerState::OnlyHasLastState { last_state: ls.clone() }), "last state is not the received one"); }
                else { assert!(last(&n) == l0, "last state changed by a non-last-state event"); }
                // outstanding request: set by request_last_state_proof, cleared by the proof, otherwise unchanged
                if ev == 2 { assert!(request(&n) == Some((rq.get_last_header().header.id, rq.get_content().0)), "request not recorded"); }
                if ev == 3 { assert!(request(&n).is_none(), "request still outstanding after the proof"); }
                if ev == 0 || ev == 1 { assert!(request(&n) == q0 || (ev == 0 && q0.is_none()), "request changed"); }
                // a request sets its timestamp
                if ev == 0 && after != 3 { assert!(n.when_sent_request() == Some(ws), "when_sent not recorded"); }
                if ev == 2 { assert!(n.when_sent_request() == Some(ws), "when_sent not recorded"); }
                Some(n)
            }
            Err(s) => {
                assert!(table(before, ev).is_none(), "documented transition rejected");
                assert!(s.code == StatusCode::IncorrectLastState, "unexpected error code");
                None
            }
        }
    }

    /// Inductive step: ONE arbitrary event from an ARBITRARY state (any variant, any contents).  Because the start
    /// state is unconstrained, this covers event sequences of every length.
    #[kani::proof] #[kani::unwind(4)]
    fn step_any() {
        let st = any_state();
        let t0 = tag(&st);
        let n = step(&st);
        kani::cover!(t0 == 5 && n.is_some() && tag(n.as_ref().unwrap()) == 7, "Ready -> RequestNewLastStateProof");
        kani::cover!(t0 == 7 && n.is_some() && tag(n.as_ref().unwrap()) == 5, "RequestNewLastStateProof -> Ready");
        kani::cover!(n.is_none(), "an event rejected");
    }
    /// Reachability of the whole diagram from `Initialized` (the state add_peer creates).
    fn walk<const K: usize>() {
        let mut st = PeerState::default();
        let mut i = 0;
        while i < K {
            if let Some(n) = step(&st) { st = n; }
            i += 1;
        }
        kani::cover!(tag(&st) == 7, "Initialized ... RequestNewLastStateProof reached");
        kani::cover!(tag(&st) == 5, "Initialized ... Ready reached");
    }
    #[kani::proof] #[kani::unwind(6)] fn walk4() { walk::<4>(); }
    #[kani::proof] #[kani::unwind(8)] fn walk6() { walk::<6>(); }

    /// predicates used by the refresh timer
    #[kani::proof] #[kani::unwind(4)]
    fn predicates() {
        let st = any_state();
        let t = tag(&st);
        let before: u64 = kani::any();
        let need_state = st.require_new_last_state(before);
        match t { 1 => assert!(need_state), 3 | 5 => assert!(need_state == (st.get_last_state().unwrap().update_ts() < before)), _ => assert!(!need_state) }
        let need_proof = st.require_new_last_state_proof();
        match t { 3 => assert!(need_proof), 5 => { kani::cover!(need_proof); kani::cover!(!need_proof); } _ => assert!(!need_proof) }
        assert!(st.when_sent_request().is_some() == (t == 2 || t == 4 || t == 6 || t == 7));
        assert!(st.get_prove_request().is_some() == (t == 4 || t == 7));
        assert!(st.get_prove_state().is_some() == (t == 5 || t == 6 || t == 7));
        assert!(st.get_last_state().is_some() == (t >= 3));
    }
}
