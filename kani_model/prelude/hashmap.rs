// Model prelude: array-backed HashMap / HashSet (dense, insertion order; the includer defines MAP_CAP).
// The real maps iterate in an unspecified order: harnesses insert their symbolic entries in a symbolic
// permutation so that every order is covered (DESIGN.md 3.2).
#[derive(Clone, Copy)]
pub struct HashMap<K: Copy + Default + Eq, V: Copy + Default> { pub keys: [K; MAP_CAP], pub vals: [V; MAP_CAP], pub len: usize }
impl<K: Copy + Default + Eq, V: Copy + Default> Default for HashMap<K, V> { fn default() -> Self { Self::new() } }
pub struct Entry<'a, V> { slot: &'a mut V }
impl<'a, V: Default> Entry<'a, V> { pub fn or_default(self) -> &'a mut V { self.slot } }
impl<K: Copy + Default + Eq, V: Copy + Default> HashMap<K, V> {
    pub fn new() -> Self { HashMap { keys: [K::default(); MAP_CAP], vals: [V::default(); MAP_CAP], len: 0 } }
    pub fn with_capacity(_n: usize) -> Self { Self::new() }
    pub fn len(&self) -> usize { self.len }
    pub fn is_empty(&self) -> bool { self.len == 0 }
    pub fn clear(&mut self) { self.len = 0; }
    fn pos<Q: ?Sized + Eq>(&self, k: &Q) -> Option<usize> where K: std::borrow::Borrow<Q> { let mut i = 0; while i < self.len { if self.keys[i].borrow() == k { return Some(i); } i += 1; } None }
    pub fn insert(&mut self, k: K, v: V) -> Option<V> {
        if let Some(i) = self.pos(&k) { let o = self.vals[i]; self.vals[i] = v; return Some(o); }
        assert!(self.len < MAP_CAP, "model HashMap capacity (MODEL-BOUND)"); self.keys[self.len] = k; self.vals[self.len] = v; self.len += 1; None
    }
    pub fn get<Q: ?Sized + Eq>(&self, k: &Q) -> Option<&V> where K: std::borrow::Borrow<Q> { match self.pos(k) { Some(i) => Some(&self.vals[i]), None => None } }
    pub fn get_mut<Q: ?Sized + Eq>(&mut self, k: &Q) -> Option<&mut V> where K: std::borrow::Borrow<Q> { match self.pos(k) { Some(i) => Some(&mut self.vals[i]), None => None } }
    pub fn contains_key<Q: ?Sized + Eq>(&self, k: &Q) -> bool where K: std::borrow::Borrow<Q> { self.pos(k).is_some() }
    pub fn entry(&mut self, k: K) -> Entry<'_, V> {
        let found = match self.pos(&k) { Some(i) => i, None => { assert!(self.len < MAP_CAP, "model HashMap capacity (MODEL-BOUND)"); let i = self.len; self.keys[i] = k; self.vals[i] = V::default(); self.len += 1; i } };
        Entry { slot: &mut self.vals[found] }
    }
    pub fn remove<Q: ?Sized + Eq>(&mut self, k: &Q) -> Option<V> where K: std::borrow::Borrow<Q> {
        match self.pos(k) { None => None, Some(i) => { let r = self.vals[i]; let mut j = i; while j + 1 < self.len { self.keys[j] = self.keys[j + 1]; self.vals[j] = self.vals[j + 1]; j += 1; } self.len -= 1; Some(r) } }
    }
    pub fn retain<F: FnMut(&K, &mut V) -> bool>(&mut self, mut f: F) {
        let mut w = 0; let mut r = 0;
        while r < self.len { let keep = f(&self.keys[r], &mut self.vals[r]); if keep { self.keys[w] = self.keys[r]; self.vals[w] = self.vals[r]; w += 1; } r += 1; }
        self.len = w;
    }
    pub fn iter(&self) -> std::iter::Zip<std::slice::Iter<'_, K>, std::slice::Iter<'_, V>> { self.keys[..self.len].iter().zip(self.vals[..self.len].iter()) }
    pub fn iter_mut(&mut self) -> std::iter::Zip<std::slice::Iter<'_, K>, std::slice::IterMut<'_, V>> { let n = self.len; self.keys[..n].iter().zip(self.vals[..n].iter_mut()) }
    pub fn keys(&self) -> std::slice::Iter<'_, K> { self.keys[..self.len].iter() }
    pub fn values(&self) -> std::slice::Iter<'_, V> { self.vals[..self.len].iter() }
    pub fn values_mut(&mut self) -> std::slice::IterMut<'_, V> { let n = self.len; self.vals[..n].iter_mut() }
    pub fn into_values(self) -> MapIntoValues<K, V> { MapIntoValues { m: self, pos: 0 } }
}
pub struct MapIntoValues<K: Copy + Default + Eq, V: Copy + Default> { m: HashMap<K, V>, pos: usize }
impl<K: Copy + Default + Eq, V: Copy + Default> Iterator for MapIntoValues<K, V> { type Item = V; fn next(&mut self) -> Option<V> { if self.pos < self.m.len { let r = self.m.vals[self.pos]; self.pos += 1; Some(r) } else { None } } }
pub struct MapIntoIter<K: Copy + Default + Eq, V: Copy + Default> { m: HashMap<K, V>, pos: usize }
impl<K: Copy + Default + Eq, V: Copy + Default> Iterator for MapIntoIter<K, V> { type Item = (K, V); fn next(&mut self) -> Option<(K, V)> { if self.pos < self.m.len { let r = (self.m.keys[self.pos], self.m.vals[self.pos]); self.pos += 1; Some(r) } else { None } } }
impl<K: Copy + Default + Eq, V: Copy + Default> IntoIterator for HashMap<K, V> { type Item = (K, V); type IntoIter = MapIntoIter<K, V>; fn into_iter(self) -> Self::IntoIter { MapIntoIter { m: self, pos: 0 } } }
impl<'a, K: Copy + Default + Eq, V: Copy + Default> IntoIterator for &'a HashMap<K, V> { type Item = (&'a K, &'a V); type IntoIter = std::iter::Zip<std::slice::Iter<'a, K>, std::slice::Iter<'a, V>>; fn into_iter(self) -> Self::IntoIter { self.iter() } }
impl<K: Copy + Default + Eq, V: Copy + Default> FromIterator<(K, V)> for HashMap<K, V> { fn from_iter<I: IntoIterator<Item = (K, V)>>(it: I) -> Self { let mut m = HashMap::new(); for (k, v) in it { m.insert(k, v); } m } }

#[derive(Clone, Copy)]
pub struct HashSet<K: Copy + Default + Eq> { pub m: HashMap<K, ()> }
impl<K: Copy + Default + Eq> Default for HashSet<K> { fn default() -> Self { Self::new() } }
impl<K: Copy + Default + Eq> HashSet<K> {
    pub fn new() -> Self { HashSet { m: HashMap::new() } }
    pub fn insert(&mut self, k: K) -> bool { self.m.insert(k, ()).is_none() }
    pub fn contains<Q: ?Sized + Eq>(&self, k: &Q) -> bool where K: std::borrow::Borrow<Q> { self.m.contains_key(k) }
    pub fn remove<Q: ?Sized + Eq>(&mut self, k: &Q) -> bool where K: std::borrow::Borrow<Q> { self.m.remove(k).is_some() }
    pub fn len(&self) -> usize { self.m.len }
    pub fn is_empty(&self) -> bool { self.m.len == 0 }
    pub fn iter(&self) -> std::slice::Iter<'_, K> { self.m.keys() }
    pub fn clear(&mut self) { self.m.clear(); }
}
impl<K: Copy + Default + Eq> FromIterator<K> for HashSet<K> { fn from_iter<I: IntoIterator<Item = K>>(it: I) -> Self { let mut s = HashSet::new(); for k in it { s.insert(k); } s } }
impl<K: Copy + Default + Eq> IntoIterator for HashSet<K> { type Item = K; type IntoIter = SetIntoIter<K>; fn into_iter(self) -> SetIntoIter<K> { SetIntoIter { s: self, pos: 0 } } }
pub struct SetIntoIter<K: Copy + Default + Eq> { s: HashSet<K>, pos: usize }
impl<K: Copy + Default + Eq> Iterator for SetIntoIter<K> { type Item = K; fn next(&mut self) -> Option<K> { if self.pos < self.s.m.len { let r = self.s.m.keys[self.pos]; self.pos += 1; Some(r) } else { None } } }
