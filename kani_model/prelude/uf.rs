// Model prelude: uninterpreted functions (hashes, PoW, proof verification).  `apply` returns an arbitrary value,
// memoised per distinct argument, so the result is a FUNCTION of the argument and nothing more is assumed.
pub const UF_CAP: usize = 6;
#[derive(Clone, Copy)]
pub struct Uf { pub keys: [u64; UF_CAP], pub vals: [u8; UF_CAP], pub n: usize }
impl Uf {
    pub const fn new() -> Self { Uf { keys: [0; UF_CAP], vals: [0; UF_CAP], n: 0 } }
    pub fn apply(&mut self, key: u64) -> u8 {
        let mut i = 0;
        while i < self.n { if self.keys[i] == key { return self.vals[i]; } i += 1; }
        assert!(self.n < UF_CAP, "MODEL-BOUND: uninterpreted-function table capacity");
        #[cfg(kani)] let v: u8 = kani::any();
        #[cfg(not(kani))] let v: u8 = (key.wrapping_mul(0x9E37_79B9_7F4A_7C15) >> 56) as u8;
        self.keys[self.n] = key; self.vals[self.n] = v; self.n += 1;
        v
    }
}
