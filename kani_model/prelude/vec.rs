// Model prelude: fixed-capacity, array-backed Vec (DESIGN.md 3.2, probe P8).  The includer defines `CAP`.
// Exceeding the capacity is an assertion failure ("model Vec capacity"): a too-small bound is reported,
// never silently truncated.  Panics that stand for real panics carry the real message text.
#[derive(Clone, Copy)]
pub struct Vec<T: Copy + Default> { pub buf: [T; CAP], pub len: usize }
impl<T: Copy + Default> Default for Vec<T> { fn default() -> Self { Vec { buf: [T::default(); CAP], len: 0 } } }
impl<T: Copy + Default> Vec<T> {
    pub fn new() -> Self { Self::default() }
    pub fn with_capacity(_n: usize) -> Self { Self::default() }
    pub fn push(&mut self, t: T) { assert!(self.len < CAP, "model Vec capacity"); self.buf[self.len] = t; self.len += 1; }
    pub fn pop(&mut self) -> Option<T> { if self.len == 0 { None } else { self.len -= 1; Some(self.buf[self.len]) } }
    pub fn clear(&mut self) { self.len = 0; }
    pub fn remove(&mut self, idx: usize) -> T {
        assert!(idx < self.len, "removal index should be < len");
        let r = self.buf[idx];
        let mut i = idx;
        while i + 1 < self.len { self.buf[i] = self.buf[i + 1]; i += 1; }
        self.len -= 1;
        r
    }
    pub fn extend_from_slice(&mut self, s: &[T]) { let mut i = 0; while i < s.len() { self.push(s[i]); i += 1; } }
    pub fn extend<I: IntoIterator<Item = T>>(&mut self, it: I) { for x in it { self.push(x); } }
    pub fn to_vec(&self) -> Self { *self }
    pub fn to_owned(&self) -> Self { *self }
    /// `drain(..n)` / `drain(..=n)` used as a statement: removes the range.
    pub fn drain<R: VecDrainRange>(&mut self, r: R) {
        let n = r.end_exclusive();
        assert!(n <= self.len, "range end index out of range for slice");
        let mut i = 0;
        while i + n < self.len { self.buf[i] = self.buf[i + n]; i += 1; }
        self.len -= n;
    }
    pub fn split_off(&mut self, at: usize) -> Self {
        assert!(at <= self.len, "`at` split index should be <= len");
        let mut o = Self::default();
        let mut i = at;
        while i < self.len { o.push(self.buf[i]); i += 1; }
        self.len = at;
        o
    }
    pub fn retain<F: FnMut(&T) -> bool>(&mut self, mut f: F) {
        let mut w = 0; let mut i = 0;
        while i < self.len { if f(&self.buf[i]) { self.buf[w] = self.buf[i]; w += 1; } i += 1; }
        self.len = w;
    }
    /// std: removes CONSECUTIVE repeated elements (only)
    pub fn dedup(&mut self) where T: PartialEq {
        if self.len == 0 { return; }
        let mut w = 1; let mut i = 1;
        while i < self.len { if self.buf[i] != self.buf[w - 1] { self.buf[w] = self.buf[i]; w += 1; } i += 1; }
        self.len = w;
    }
    pub fn truncate(&mut self, n: usize) { if n < self.len { self.len = n; } }
    pub fn insert(&mut self, idx: usize, t: T) {
        assert!(idx <= self.len, "insertion index should be <= len");
        assert!(self.len < CAP, "model Vec capacity");
        let mut i = self.len; while i > idx { self.buf[i] = self.buf[i - 1]; i -= 1; }
        self.buf[idx] = t; self.len += 1;
    }
    pub fn into_boxed_slice(self) -> Self { self }
    /// insertion sort (std's slice sort is a recursive driftsort that CBMC cannot unwind)
    pub fn sort(&mut self) where T: Ord {
        let mut i = 1;
        while i < self.len { let mut j = i; while j > 0 && self.buf[j - 1] > self.buf[j] { let t = self.buf[j]; self.buf[j] = self.buf[j - 1]; self.buf[j - 1] = t; j -= 1; } i += 1; }
    }
    pub fn sort_by_key<K: Ord, F: FnMut(&T) -> K>(&mut self, mut f: F) {
        let mut i = 1;
        while i < self.len { let mut j = i; while j > 0 && f(&self.buf[j - 1]) > f(&self.buf[j]) { let t = self.buf[j]; self.buf[j] = self.buf[j - 1]; self.buf[j - 1] = t; j -= 1; } i += 1; }
    }
}
pub trait VecDrainRange { fn end_exclusive(&self) -> usize; }
impl VecDrainRange for std::ops::RangeTo<usize> { fn end_exclusive(&self) -> usize { self.end } }
impl VecDrainRange for std::ops::RangeToInclusive<usize> { fn end_exclusive(&self) -> usize { self.end + 1 } }
impl<T: Copy + Default> std::ops::Deref for Vec<T> { type Target = [T]; fn deref(&self) -> &[T] { &self.buf[..self.len] } }
impl<T: Copy + Default> std::ops::DerefMut for Vec<T> { fn deref_mut(&mut self) -> &mut [T] { let n = self.len; &mut self.buf[..n] } }
impl<T: Copy + Default> FromIterator<T> for Vec<T> {
    fn from_iter<I: IntoIterator<Item = T>>(it: I) -> Self { let mut v = Vec::new(); for x in it { v.push(x); } v }
}
pub struct VecIntoIter<T: Copy + Default> { v: Vec<T>, pos: usize }
impl<T: Copy + Default> Iterator for VecIntoIter<T> {
    type Item = T;
    fn next(&mut self) -> Option<T> { if self.pos < self.v.len { let r = self.v.buf[self.pos]; self.pos += 1; Some(r) } else { None } }
}
impl<T: Copy + Default> IntoIterator for Vec<T> { type Item = T; type IntoIter = VecIntoIter<T>; fn into_iter(self) -> VecIntoIter<T> { VecIntoIter { v: self, pos: 0 } } }
impl<'a, T: Copy + Default> IntoIterator for &'a Vec<T> { type Item = &'a T; type IntoIter = std::slice::Iter<'a, T>; fn into_iter(self) -> Self::IntoIter { self.buf[..self.len].iter() } }
impl<'a, T: Copy + Default> IntoIterator for &'a mut Vec<T> { type Item = &'a mut T; type IntoIter = std::slice::IterMut<'a, T>; fn into_iter(self) -> Self::IntoIter { let n = self.len; self.buf[..n].iter_mut() } }
impl<T: Copy + Default + PartialEq> PartialEq for Vec<T> {
    fn eq(&self, o: &Self) -> bool { if self.len != o.len { return false; } let mut i = 0; while i < self.len { if self.buf[i] != o.buf[i] { return false; } i += 1; } true }
}
