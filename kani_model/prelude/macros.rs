// Model prelude: logging and formatting are cut (DESIGN.md 3.2). The arguments are still type-checked.
#[allow(unused_macros)]
macro_rules! trace { ($($t:tt)*) => {{ if false { let _ = format_args!($($t)*); } }} }
#[allow(unused_macros)]
macro_rules! debug { ($($t:tt)*) => {{ if false { let _ = format_args!($($t)*); } }} }
#[allow(unused_macros)]
macro_rules! info { ($($t:tt)*) => {{ if false { let _ = format_args!($($t)*); } }} }
#[allow(unused_macros)]
macro_rules! warn { ($($t:tt)*) => {{ if false { let _ = format_args!($($t)*); } }} }
#[allow(unused_macros)]
macro_rules! error { ($($t:tt)*) => {{ if false { let _ = format_args!($($t)*); } }} }
#[allow(unused_macros)]
macro_rules! log_enabled { ($($t:tt)*) => { false } }
#[allow(unused_macros)]
macro_rules! format { ($($t:tt)*) => {{ if false { let _ = format_args!($($t)*); } String }} }
#[allow(unused_macros)]
macro_rules! vec {
    () => { Vec::new() };
    ($e:expr; $n:expr) => {{ let mut v = Vec::new(); let mut i = 0; let n: usize = $n; while i < n { v.push($e); i += 1; } v }};
    ($($e:expr),+ $(,)?) => {{ let mut v = Vec::new(); $( v.push($e); )+ v }};
}
