// Model prelude: the Meta key space of storage.rs as a DECODED store (quick flavour of kvstore.rs).  The code under test still
// builds and parses BYTE keys ([tag] ++ payload); put / delete / get decode the key by its shape into typed slots and iteration
// re-encodes the entries in byte order (tag order, then payload order), so for the key shapes that can occur it behaves exactly like
// the sorted byte-level store - without symbolic-position array shifting.  A key of an unknown shape is a MODEL-BOUND failure.
//   [0xE1, id, 7, ty]        FILTER_SCRIPTS ++ script(2 bytes: id, 7) ++ type   -> value u64 BE   (id in 1..=NS)
//   [0xE5, start: 8 bytes BE] MATCHED_BLOCKS ++ start                           -> value bytes    (<= MREC records, kept sorted)
//   [0xE7]                    MIN_FILTERED_NUMBER                                -> value u64 LE
// The includer defines NS (script identities), MREC (matched-block records), VCAP, BCAP.
pub const KCAP: usize = 16;
#[derive(Clone, Copy)]
pub struct ByteVec { pub buf: [u8; KCAP], pub len: usize }
impl ByteVec {
    pub const fn new() -> Self { ByteVec { buf: [0; KCAP], len: 0 } }
    pub fn push(&mut self, b: u8) { assert!(self.len < KCAP, "MODEL-BOUND: ByteVec capacity"); self.buf[self.len] = b; self.len += 1; }
    pub fn extend_from_slice(&mut self, s: &[u8]) { let n = s.len(); assert!(self.len + n <= KCAP, "MODEL-BOUND: ByteVec capacity"); let mut i = 0; while i < n { self.buf[self.len + i] = s[i]; i += 1; } self.len += n; }
    pub fn extend<I: IntoIterator<Item = u8>>(&mut self, it: I) { for b in it { self.push(b); } }
    pub fn from_slice(s: &[u8]) -> Self { let mut v = Self::new(); v.extend_from_slice(s); v }
    pub fn to_vec(&self) -> ByteVec { *self }
    pub fn clone(&self) -> ByteVec { *self }
}
impl std::ops::Deref for ByteVec { type Target = [u8]; fn deref(&self) -> &[u8] { &self.buf[..self.len] } }
impl AsRef<[u8]> for ByteVec { fn as_ref(&self) -> &[u8] { &self.buf[..self.len] } }
pub trait MConcat { fn mconcat(&self) -> ByteVec; }
impl<'a, const N: usize> MConcat for [&'a [u8]; N] { fn mconcat(&self) -> ByteVec { let mut v = ByteVec::new(); let mut i = 0; while i < N { v.extend_from_slice(self[i]); i += 1; } v } }

#[derive(Clone, Copy, PartialEq, Eq, Debug)]
pub enum Slot { Script(usize), Matched(u64), Min }
pub fn decode(k: &[u8]) -> Slot {
    if k.len() == 4 && k[0] == 0xE1 && k[1] >= 1 && (k[1] as usize) <= NS && k[2] == 7 && k[3] <= 1 { return Slot::Script((k[1] as usize - 1) * 2 + k[3] as usize); }
    if k.len() == 9 && k[0] == 0xE5 { let a: [u8; 8] = [k[1], k[2], k[3], k[4], k[5], k[6], k[7], k[8]]; return Slot::Matched(u64::from_be_bytes(a)); }
    if k.len() == 1 && k[0] == 0xE7 { return Slot::Min; }
    panic!("MODEL-BOUND: key shape outside the decoded Meta store")
}
#[derive(Clone, Copy)] pub struct MVal { pub v: [u8; VCAP], pub len: usize }
impl AsRef<[u8]> for MVal { fn as_ref(&self) -> &[u8] { &self.v[..self.len] } }
impl std::ops::Deref for MVal { type Target = [u8]; fn deref(&self) -> &[u8] { &self.v[..self.len] } }
fn mval(v: &[u8]) -> MVal {
    assert!(v.len() <= VCAP, "MODEL-BOUND: value capacity");
    if v.len() == 8 && VCAP == 8 { let mut a = [0u8; VCAP]; a[0] = v[0]; a[1] = v[1]; a[2] = v[2]; a[3] = v[3]; a[4] = v[4]; a[5] = v[5]; a[6] = v[6]; a[7] = v[7]; return MVal { v: a, len: 8 }; }
    let mut a = [0u8; VCAP]; let mut i = 0; while i < v.len() { a[i] = v[i]; i += 1; } MVal { v: a, len: v.len() }
}
pub struct Db { pub scripts: [Option<MVal>; NS * 2], pub matched: [(u64, MVal); MREC], pub nmatched: usize, pub min: Option<MVal>, pub writes: usize, pub crash_after: usize }
const MV0: MVal = MVal { v: [0; VCAP], len: 0 };
pub static mut DB: Db = Db { scripts: [None; NS * 2], matched: [(0, MV0); MREC], nmatched: 0, min: None, writes: 0, crash_after: usize::MAX };
impl Db {
    pub fn reset(&mut self) { self.scripts = [None; NS * 2]; self.nmatched = 0; self.min = None; self.writes = 0; self.crash_after = usize::MAX; }
    pub fn put_raw(&mut self, k: &[u8], v: &[u8]) {
        match decode(k) {
            Slot::Script(i) => self.scripts[i] = Some(mval(v)),
            Slot::Min => self.min = Some(mval(v)),
            Slot::Matched(s) => {
                let mut i = 0; while i < self.nmatched { if self.matched[i].0 == s { self.matched[i].1 = mval(v); return; } i += 1; }
                assert!(self.nmatched < MREC, "MODEL-BOUND: matched-block record capacity");
                let mut pos = 0; while pos < self.nmatched && self.matched[pos].0 < s { pos += 1; }
                let mut j = self.nmatched; while j > pos { self.matched[j] = self.matched[j - 1]; j -= 1; }
                self.matched[pos] = (s, mval(v)); self.nmatched += 1;
            }
        }
    }
    pub fn del_raw(&mut self, k: &[u8]) {
        match decode(k) {
            Slot::Script(i) => self.scripts[i] = None,
            Slot::Min => self.min = None,
            Slot::Matched(s) => { let mut i = 0; while i < self.nmatched { if self.matched[i].0 == s { let mut j = i; while j + 1 < self.nmatched { self.matched[j] = self.matched[j + 1]; j += 1; } self.nmatched -= 1; return; } i += 1; } }
        }
    }
    pub fn get_raw(&self, k: &[u8]) -> Option<MVal> {
        match decode(k) {
            Slot::Script(i) => self.scripts[i], Slot::Min => self.min,
            Slot::Matched(s) => { let mut i = 0; while i < self.nmatched { if self.matched[i].0 == s { return Some(self.matched[i].1); } i += 1; } None }
        }
    }
    pub fn admit(&mut self) -> bool { let ok = self.writes < self.crash_after; self.writes += 1; ok }
    /// entry number `idx` in BYTE ORDER of the keys: scripts (by id, then type), matched records (by start), min
    fn nth(&self, idx: usize) -> Option<(ByteVec, MVal)> {
        if idx < NS * 2 { return self.scripts[idx].map(|v| { let mut b = [0u8; KCAP]; b[0] = 0xE1; b[1] = (idx / 2) as u8 + 1; b[2] = 7; b[3] = (idx % 2) as u8; (ByteVec { buf: b, len: 4 }, v) }); }
        let j = idx - NS * 2;
        if j < MREC { if j < self.nmatched { let x = self.matched[j].0.to_be_bytes(); let mut b = [0u8; KCAP]; b[0] = 0xE5; b[1] = x[0]; b[2] = x[1]; b[3] = x[2]; b[4] = x[3]; b[5] = x[4]; b[6] = x[5]; b[7] = x[6]; b[8] = x[7]; return Some((ByteVec { buf: b, len: 9 }, self.matched[j].1)); } return None; }
        if j == MREC { return self.min.map(|v| { let mut b = [0u8; KCAP]; b[0] = 0xE7; (ByteVec { buf: b, len: 1 }, v) }); }
        None
    }
}
fn key_lt(a: &ByteVec, b: &ByteVec) -> bool { let (x, y) = (u128::from_be_bytes(a.buf), u128::from_be_bytes(b.buf)); x < y || (x == y && a.len < b.len) }   // buffers are zero padded
pub enum Direction { Forward, Reverse }
pub enum IteratorMode<'a> { From(&'a [u8], Direction) }
pub struct DbIter { pos: usize, from: ByteVec, rev: bool }
impl Iterator for DbIter {
    type Item = (ByteVec, MVal);
    fn next(&mut self) -> Option<Self::Item> {
        const TOTAL: usize = NS * 2 + MREC + 1;
        unsafe {
            if !self.rev {
                while self.pos < TOTAL { let i = self.pos; self.pos += 1; if let Some((k, v)) = DB.nth(i) { if !key_lt(&k, &self.from) { return Some((k, v)); } } }
                None
            } else {
                while self.pos < TOTAL { let i = TOTAL - 1 - self.pos; self.pos += 1; if let Some((k, v)) = DB.nth(i) { if !key_lt(&self.from, &k) { return Some((k, v)); } } }
                None
            }
        }
    }
}
pub struct DbHandle;
impl DbHandle {
    pub fn iterator(&self, mode: IteratorMode) -> DbIter { let IteratorMode::From(from, d) = mode; DbIter { pos: 0, from: ByteVec::from_slice(from), rev: matches!(d, Direction::Reverse) } }
    pub fn get_pinned<K: AsRef<[u8]>>(&self, k: K) -> Result<Option<MVal>, ()> { unsafe { Ok(DB.get_raw(k.as_ref())) } }
    pub fn get<K: AsRef<[u8]>>(&self, k: K) -> Result<Option<MVal>, ()> { self.get_pinned(k) }
    pub fn put<K: AsRef<[u8]>, V: AsRef<[u8]>>(&self, k: K, v: V) -> Result<(), ()> { unsafe { if DB.admit() { DB.put_raw(k.as_ref(), v.as_ref()); } } Ok(()) }
    pub fn delete<K: AsRef<[u8]>>(&self, k: K) -> Result<(), ()> { unsafe { if DB.admit() { DB.del_raw(k.as_ref()); } } Ok(()) }
}
#[derive(Clone, Copy)] pub struct Op { pub put: bool, pub k: ByteVec, pub v: MVal }
pub struct Batch { pub ops: [Op; BCAP], pub n: usize }
impl Batch {
    pub fn new() -> Batch { Batch { ops: [Op { put: false, k: ByteVec::new(), v: MV0 }; BCAP], n: 0 } }
    pub fn put<K: AsRef<[u8]>, V: AsRef<[u8]>>(&mut self, k: K, v: V) -> Result<(), ()> { assert!(self.n < BCAP, "MODEL-BOUND: batch capacity"); self.ops[self.n] = Op { put: true, k: ByteVec::from_slice(k.as_ref()), v: mval(v.as_ref()) }; self.n += 1; Ok(()) }
    pub fn delete<K: AsRef<[u8]>>(&mut self, k: K) -> Result<(), ()> { assert!(self.n < BCAP, "MODEL-BOUND: batch capacity"); self.ops[self.n] = Op { put: false, k: ByteVec::from_slice(k.as_ref()), v: MV0 }; self.n += 1; Ok(()) }
    /// atomic: all operations or none
    pub fn commit(self) -> Result<(), ()> { unsafe { if DB.admit() { let mut i = 0; while i < self.n { let o = self.ops[i]; if o.put { DB.put_raw(&o.k, &o.v); } else { DB.del_raw(&o.k); } i += 1; } } } Ok(()) }
}
pub fn u64_be(v: Option<MVal>) -> Option<u64> { v.map(|m| u64::from_be_bytes([m.v[0], m.v[1], m.v[2], m.v[3], m.v[4], m.v[5], m.v[6], m.v[7]])) }
pub fn u64_le(v: Option<MVal>) -> Option<u64> { v.map(|m| u64::from_le_bytes([m.v[0], m.v[1], m.v[2], m.v[3], m.v[4], m.v[5], m.v[6], m.v[7]])) }
