// Verbatim copy of ckb-types 0.113.0 `core::EpochNumberWithFraction` (src/core/extras.rs), minus Display, FromStr and
// `to_rational` (RationalU256).  A dependency, not code under test; `Default` is a model-only convenience.
pub type EpochNumber = u64;
#[derive(Debug, Clone, Copy, Eq, PartialEq, Hash, Default)]
pub struct EpochNumberWithFraction(pub u64);
impl std::fmt::Display for EpochNumberWithFraction { fn fmt(&self, _f: &mut std::fmt::Formatter<'_>) -> std::fmt::Result { Ok(()) } }
impl PartialOrd for EpochNumberWithFraction {
    fn partial_cmp(&self, other: &EpochNumberWithFraction) -> Option<std::cmp::Ordering> { Some(self.cmp(other)) }
}
impl Ord for EpochNumberWithFraction {
    fn cmp(&self, other: &EpochNumberWithFraction) -> std::cmp::Ordering {
        use std::cmp::Ordering;
        match self.number().cmp(&other.number()) {
            ord @ Ordering::Less | ord @ Ordering::Greater => ord,
            _ => {
                let a = self.index() * other.length();
                let b = other.index() * self.length();
                a.cmp(&b)
            }
        }
    }
}
impl EpochNumberWithFraction {
    pub const NUMBER_OFFSET: usize = 0;
    pub const NUMBER_BITS: usize = 24;
    pub const NUMBER_MAXIMUM_VALUE: u64 = (1u64 << Self::NUMBER_BITS);
    pub const NUMBER_MASK: u64 = (Self::NUMBER_MAXIMUM_VALUE - 1);
    pub const INDEX_OFFSET: usize = Self::NUMBER_BITS;
    pub const INDEX_BITS: usize = 16;
    pub const INDEX_MAXIMUM_VALUE: u64 = (1u64 << Self::INDEX_BITS);
    pub const INDEX_MASK: u64 = (Self::INDEX_MAXIMUM_VALUE - 1);
    pub const LENGTH_OFFSET: usize = Self::NUMBER_BITS + Self::INDEX_BITS;
    pub const LENGTH_BITS: usize = 16;
    pub const LENGTH_MAXIMUM_VALUE: u64 = (1u64 << Self::LENGTH_BITS);
    pub const LENGTH_MASK: u64 = (Self::LENGTH_MAXIMUM_VALUE - 1);
    pub fn new(number: u64, index: u64, length: u64) -> EpochNumberWithFraction {
        debug_assert!(number < Self::NUMBER_MAXIMUM_VALUE);
        debug_assert!(index < Self::INDEX_MAXIMUM_VALUE);
        debug_assert!(length < Self::LENGTH_MAXIMUM_VALUE);
        debug_assert!(length > 0);
        Self::new_unchecked(number, index, length)
    }
    pub const fn new_unchecked(number: u64, index: u64, length: u64) -> Self {
        EpochNumberWithFraction((length << Self::LENGTH_OFFSET) | (index << Self::INDEX_OFFSET) | (number << Self::NUMBER_OFFSET))
    }
    pub fn number(self) -> EpochNumber { (self.0 >> Self::NUMBER_OFFSET) & Self::NUMBER_MASK }
    pub fn index(self) -> u64 { (self.0 >> Self::INDEX_OFFSET) & Self::INDEX_MASK }
    pub fn length(self) -> u64 { (self.0 >> Self::LENGTH_OFFSET) & Self::LENGTH_MASK }
    pub const fn full_value(self) -> u64 { self.0 }
    pub fn is_genesis(&self) -> bool { self.number() == 0 && self.index() == 0 && self.length() == 0 }
    pub fn is_successor_of(self, predecessor: Self) -> bool {
        if predecessor.index() + 1 == predecessor.length() {
            self.number() == predecessor.number() + 1 && self.index() == 0
        } else {
            self.number() == predecessor.number()
                && self.index() == predecessor.index() + 1
                && self.length() == predecessor.length()
        }
    }
    pub fn is_well_formed(self) -> bool { self.length() > 0 && self.length() > self.index() }
}
