// Native stand-in for the `kani` API (only compiled when NOT running under Kani): lets a harness run natively on pseudo-random inputs.
// It decides nothing - it is a cheap smoke test of a new harness / model before the solver is asked, and the way a solver counterexample
// is re-executed by hand.  `kani::any()` draws from a small-value-biased xorshift stream; a failed `kani::assume` aborts the sample.
#[cfg(not(kani))]
pub mod kani {
    use std::cell::Cell;
    thread_local! { pub static RNG: Cell<u64> = Cell::new(0x9E3779B97F4A7C15); }
    pub fn next() -> u64 { RNG.with(|r| { let mut x = r.get(); x ^= x << 13; x ^= x >> 7; x ^= x << 17; r.set(x); x }) }
    pub trait Arb { fn arb() -> Self; }
    impl Arb for bool { fn arb() -> bool { next() & 1 == 1 } }
    impl Arb for u8 { fn arb() -> u8 { let x = next(); if x & 3 != 0 { ((x >> 8) % 3) as u8 } else { (x >> 8) as u8 } } }
    impl Arb for u32 { fn arb() -> u32 { let x = next(); if x & 7 != 0 { ((x >> 8) % 4) as u32 } else { (x >> 8) as u32 } } }
    impl Arb for u64 { fn arb() -> u64 { let x = next(); if x & 3 != 0 { (x >> 8) % 3 } else if x & 4 != 0 { ((x >> 8) % 3) << 56 } else if x & 8 != 0 { u64::MAX - (x >> 8) % 3 } else { x >> 3 } } }
    impl Arb for usize { fn arb() -> usize { let x = next(); if x & 31 != 0 { ((x >> 8) % 3) as usize } else { (x >> 8) as usize } } }
    impl<T: Arb + Copy + Default, const N: usize> Arb for [T; N] { fn arb() -> [T; N] { let mut a = [T::default(); N]; let mut i = 0; while i < N { a[i] = T::arb(); i += 1; } a } }
    pub fn any<T: Arb>() -> T { T::arb() }
    pub struct AssumeFail;
    pub fn assume(c: bool) { if !c { std::panic::panic_any(AssumeFail) } }
    macro_rules! cover { ($($t:tt)*) => {} }
    pub(crate) use cover;
    /// run `f` on `n` samples; returns (valid samples, messages of the first failing samples)
    pub fn fuzz(n: u64, f: fn()) -> (u64, std::vec::Vec<std::string::String>) {
        std::panic::set_hook(Box::new(|_| {}));
        let mut ok = 0; let mut bad = std::vec::Vec::new();
        for _ in 0..n {
            let seed = RNG.with(|r| r.get());
            match std::panic::catch_unwind(f) {
                Ok(()) => ok += 1,
                Err(e) => if e.downcast_ref::<AssumeFail>().is_none() {
                    let msg = e.downcast_ref::<std::string::String>().cloned().or(e.downcast_ref::<&str>().map(|s| s.to_string())).unwrap_or_default();
                    bad.push(std::format!("seed {:#x}: {}", seed, msg)); if bad.len() >= 4 { break; }
                }
            }
        }
        let _ = std::panic::take_hook();
        (ok, bad)
    }
}
