// Model prelude: byte-level key/value store (DESIGN.md 3.2).  Keys are the byte strings the code under test builds, held
// zero-padded in 16 bytes and compared as ONE u128 + length (no byte loops); the store is a SORTED array (RocksDB's
// ordered iteration: an unsorted shortcut produced a false alarm in probe P14b).  Atomic write batches, ordered
// iteration, point get/put/delete: RocksDB's documented contract.
// The includer defines DBCAP (entries), BCAP (ops per batch), VCAP (value bytes).
pub const KCAP: usize = 16;
#[derive(Clone, Copy)]
pub struct ByteVec { pub buf: [u8; KCAP], pub len: usize }
impl ByteVec {
    pub const fn new() -> Self { ByteVec { buf: [0; KCAP], len: 0 } }
    pub fn push(&mut self, b: u8) { assert!(self.len < KCAP, "MODEL-BOUND: ByteVec capacity"); self.buf[self.len] = b; self.len += 1; }
    pub fn extend_from_slice(&mut self, s: &[u8]) { let n = s.len(); assert!(self.len + n <= KCAP, "MODEL-BOUND: ByteVec capacity"); self.buf[self.len..self.len + n].copy_from_slice(s); self.len += n; }
    pub fn extend<I: IntoIterator<Item = u8>>(&mut self, it: I) { for b in it { self.push(b); } }
    pub fn from_slice(s: &[u8]) -> Self { let mut v = Self::new(); v.extend_from_slice(s); v }
    pub fn word(&self) -> u128 { u128::from_be_bytes(self.buf) }
    pub fn same(&self, o: &ByteVec) -> bool { self.len == o.len && self.word() == o.word() }
    pub fn lt(&self, o: &ByteVec) -> bool { let (a, b) = (self.word(), o.word()); a < b || (a == b && self.len < o.len) }
    pub fn to_vec(&self) -> ByteVec { *self }
    pub fn clone(&self) -> ByteVec { *self }
}
impl std::ops::Deref for ByteVec { type Target = [u8]; fn deref(&self) -> &[u8] { &self.buf[..self.len] } }
impl AsRef<[u8]> for ByteVec { fn as_ref(&self) -> &[u8] { &self.buf[..self.len] } }
/// `[a, b, c].concat()` of the real code (textually renamed to `.mconcat()` for the model: std's concat allocates)
pub trait MConcat { fn mconcat(&self) -> ByteVec; }
impl<'a, const N: usize> MConcat for [&'a [u8]; N] { fn mconcat(&self) -> ByteVec { let mut v = ByteVec::new(); let mut i = 0; while i < N { v.extend_from_slice(self[i]); i += 1; } v } }

#[derive(Clone, Copy)]
pub struct Ent { pub k: ByteVec, pub v: [u8; VCAP], pub vlen: usize }
pub struct Db { pub e: [Ent; DBCAP], pub n: usize, pub writes: usize, pub crash_after: usize }
pub static mut DB: Db = Db { e: [Ent { k: ByteVec::new(), v: [0; VCAP], vlen: 0 }; DBCAP], n: 0, writes: 0, crash_after: usize::MAX };
impl Db {
    pub fn find(&self, k: &[u8]) -> Option<usize> { let kk = ByteVec::from_slice(k); let mut i = 0; while i < self.n { if self.e[i].k.same(&kk) { return Some(i); } i += 1; } None }
    pub fn put_raw(&mut self, k: &[u8], v: &[u8]) {
        assert!(v.len() <= VCAP, "MODEL-BOUND: value capacity");
        let mut val = [0u8; VCAP]; val[..v.len()].copy_from_slice(v);
        if let Some(i) = self.find(k) { self.e[i].v = val; self.e[i].vlen = v.len(); return; }
        assert!(self.n < DBCAP, "MODEL-BOUND: db capacity");
        let kk = ByteVec::from_slice(k);
        let mut pos = 0; while pos < self.n && self.e[pos].k.lt(&kk) { pos += 1; }
        let mut i = self.n; while i > pos { self.e[i] = self.e[i - 1]; i -= 1; }
        self.e[pos] = Ent { k: kk, v: val, vlen: v.len() }; self.n += 1;
    }
    pub fn del_raw(&mut self, k: &[u8]) { if let Some(i) = self.find(k) { let mut j = i; while j + 1 < self.n { self.e[j] = self.e[j + 1]; j += 1; } self.n -= 1; } }
    /// one write OPERATION (a point write or a whole batch) is about to take effect: the crash counter decides
    pub fn admit(&mut self) -> bool { let ok = self.writes < self.crash_after; self.writes += 1; ok }
    pub fn get_u64_be(&self, k: &[u8]) -> Option<u64> { self.find(k).map(|i| { let mut a = [0u8; 8]; a.copy_from_slice(&self.e[i].v[..8]); u64::from_be_bytes(a) }) }
    pub fn get_u64_le(&self, k: &[u8]) -> Option<u64> { self.find(k).map(|i| { let mut a = [0u8; 8]; a.copy_from_slice(&self.e[i].v[..8]); u64::from_le_bytes(a) }) }
}
#[derive(Clone, Copy)] pub struct MVal { pub v: [u8; VCAP], pub len: usize }
impl AsRef<[u8]> for MVal { fn as_ref(&self) -> &[u8] { &self.v[..self.len] } }
impl std::ops::Deref for MVal { type Target = [u8]; fn deref(&self) -> &[u8] { &self.v[..self.len] } }
pub enum Direction { Forward, Reverse }
pub enum IteratorMode<'a> { From(&'a [u8], Direction) }
pub struct DbIter { pos: usize, from: ByteVec, rev: bool, started: bool }
impl Iterator for DbIter {
    type Item = (ByteVec, MVal);
    fn next(&mut self) -> Option<Self::Item> {
        unsafe {
            if !self.rev {
                while self.pos < DB.n { let e = DB.e[self.pos]; self.pos += 1; if !e.k.lt(&self.from) { return Some((e.k, MVal { v: e.v, len: e.vlen })); } }
                None
            } else {
                // reverse from `from`: entries with key <= from, descending
                if !self.started { self.started = true; self.pos = DB.n; }
                while self.pos > 0 { self.pos -= 1; let e = DB.e[self.pos]; if !self.from.lt(&e.k) { return Some((e.k, MVal { v: e.v, len: e.vlen })); } }
                None
            }
        }
    }
}
pub struct DbHandle;
impl DbHandle {
    pub fn iterator(&self, mode: IteratorMode) -> DbIter { let IteratorMode::From(from, d) = mode; DbIter { pos: 0, from: ByteVec::from_slice(from), rev: matches!(d, Direction::Reverse), started: false } }
    pub fn get_pinned<K: AsRef<[u8]>>(&self, k: K) -> Result<Option<MVal>, ()> { unsafe { Ok(DB.find(k.as_ref()).map(|i| MVal { v: DB.e[i].v, len: DB.e[i].vlen })) } }
    pub fn get<K: AsRef<[u8]>>(&self, k: K) -> Result<Option<MVal>, ()> { self.get_pinned(k) }
    pub fn put<K: AsRef<[u8]>, V: AsRef<[u8]>>(&self, k: K, v: V) -> Result<(), ()> { unsafe { if DB.admit() { DB.put_raw(k.as_ref(), v.as_ref()); } } Ok(()) }
    pub fn delete<K: AsRef<[u8]>>(&self, k: K) -> Result<(), ()> { unsafe { if DB.admit() { DB.del_raw(k.as_ref()); } } Ok(()) }
}
#[derive(Clone, Copy)] pub struct Op { pub put: bool, pub k: ByteVec, pub v: [u8; VCAP], pub vlen: usize }
pub struct Batch { pub ops: [Op; BCAP], pub n: usize }
impl Batch {
    pub fn new() -> Batch { Batch { ops: [Op { put: false, k: ByteVec::new(), v: [0; VCAP], vlen: 0 }; BCAP], n: 0 } }
    pub fn put<K: AsRef<[u8]>, V: AsRef<[u8]>>(&mut self, k: K, v: V) -> Result<(), ()> { assert!(self.n < BCAP, "MODEL-BOUND: batch capacity"); let vs = v.as_ref(); assert!(vs.len() <= VCAP, "MODEL-BOUND: value capacity"); let mut val = [0u8; VCAP]; val[..vs.len()].copy_from_slice(vs); self.ops[self.n] = Op { put: true, k: ByteVec::from_slice(k.as_ref()), v: val, vlen: vs.len() }; self.n += 1; Ok(()) }
    pub fn delete<K: AsRef<[u8]>>(&mut self, k: K) -> Result<(), ()> { assert!(self.n < BCAP, "MODEL-BOUND: batch capacity"); self.ops[self.n] = Op { put: false, k: ByteVec::from_slice(k.as_ref()), v: [0; VCAP], vlen: 0 }; self.n += 1; Ok(()) }
    /// atomic: all operations or none
    pub fn commit(self) -> Result<(), ()> { unsafe { if DB.admit() { let mut i = 0; while i < self.n { let o = self.ops[i]; if o.put { DB.put_raw(&o.k, &o.v[..o.vlen]); } else { DB.del_raw(&o.k); } i += 1; } } } Ok(()) }
}
