// Model prelude: molecule entities of the light-client protocol as plain Copy structs with the accessor names
// the real code uses (DESIGN.md 3.2).  Hashes are 1-byte identifiers; the harness keeps "equal id => equal
// contents" where a specification depends on it.
pub type BlockNumber = u64;
#[derive(Clone, Copy, PartialEq, Eq, Default, Debug, Hash, PartialOrd, Ord)] pub struct Byte32(pub u8);
impl Byte32 {
    pub fn zero() -> Self { Byte32(0) }
    pub fn as_slice(&self) -> &[u8] { std::slice::from_ref(&self.0) }
    pub fn unpack(&self) -> H256 { H256(self.0) }
    pub fn pack(&self) -> Byte32 { *self }
}
impl std::fmt::LowerHex for Byte32 { fn fmt(&self, _f: &mut std::fmt::Formatter) -> std::fmt::Result { Ok(()) } }
impl std::fmt::Display for Byte32 { fn fmt(&self, _f: &mut std::fmt::Formatter) -> std::fmt::Result { Ok(()) } }
#[derive(Clone, Copy, PartialEq, Eq, Default, Debug, Hash, PartialOrd, Ord)] pub struct H256(pub u8);
impl H256 { pub fn pack(&self) -> Byte32 { Byte32(self.0) } }
impl std::fmt::LowerHex for H256 { fn fmt(&self, _f: &mut std::fmt::Formatter) -> std::fmt::Result { Ok(()) } }

/// packed::Bytes (block extension): 1-byte identifier of the content plus a flag "begins with chain-root hash x".
#[derive(Clone, Copy, PartialEq, Eq, Default, Debug)] pub struct PBytes { pub len: u8, pub b: [u8; 2] }
impl PBytes {
    /// content of 0, 1 or 2 bytes (a hash is ONE byte in the model, so "hash ++ more" is 2 bytes)
    pub fn of(len: u8, b0: u8, b1: u8) -> Self { let l = if len > 2 { 2 } else { len }; PBytes { len: l, b: [if l >= 1 { b0 } else { 0 }, if l >= 2 { b1 } else { 0 }] } }
    pub fn as_slice(&self) -> &[u8] { &self.b[..self.len as usize] }
    pub fn key(&self) -> u64 { ((self.len as u64) << 16) | ((self.b[0] as u64) << 8) | self.b[1] as u64 }
}

/// packed::Header / packed::RawHeader stand-in: same fields as the view.
#[derive(Clone, Copy, PartialEq, Eq, Default, Debug)]
pub struct HeaderView {
    pub id: u8, pub number: u64, pub parent: u8, pub epoch: EpochNumberWithFraction, pub timestamp: u64,
    pub compact_target: u32, pub diff: u64, pub extra_hash: u8, pub tx_root: u8, pub pow_ok: bool,
}
impl HeaderView {
    pub fn number(&self) -> u64 { self.number }
    pub fn hash(&self) -> Byte32 { Byte32(self.id) }
    pub fn parent_hash(&self) -> Byte32 { Byte32(self.parent) }
    pub fn epoch(&self) -> EpochNumberWithFraction { self.epoch }
    pub fn is_genesis(&self) -> bool { self.number == 0 }
    pub fn timestamp(&self) -> u64 { self.timestamp }
    pub fn compact_target(&self) -> u32 { self.compact_target }
    pub fn extra_hash(&self) -> Byte32 { Byte32(self.extra_hash) }
    pub fn transactions_root(&self) -> Byte32 { Byte32(self.tx_root) }
    pub fn difficulty(&self) -> U256 { U256(self.diff) }
    pub fn data(&self) -> PHeader { PHeader(*self) }
    pub fn to_owned(&self) -> HeaderView { *self }
}
#[derive(Clone, Copy, PartialEq, Eq, Default, Debug)] pub struct PHeader(pub HeaderView);
impl PHeader {
    pub fn raw(&self) -> PRawHeader { PRawHeader(self.0) }
    pub fn calc_header_hash(&self) -> Byte32 { Byte32(self.0.id) }
    pub fn into_view(self) -> HeaderView { self.0 }
}
#[derive(Clone, Copy, PartialEq, Eq, Default, Debug)] pub struct PRawHeader(pub HeaderView);
impl PRawHeader {
    pub fn number(&self) -> PU64 { PU64(self.0.number) }
    pub fn transactions_root(&self) -> Byte32 { Byte32(self.0.tx_root) }
    pub fn timestamp(&self) -> PU64 { PU64(self.0.timestamp) }
    pub fn parent_hash(&self) -> Byte32 { Byte32(self.0.parent) }
    pub fn extra_hash(&self) -> Byte32 { Byte32(self.0.extra_hash) }
    pub fn compact_target(&self) -> PU32 { PU32(self.0.compact_target) }
}
#[derive(Clone, Copy, PartialEq, Eq, Default, Debug)]
pub struct HeaderDigest { pub td: U256, pub end_number: u64, pub id: u8 }
impl HeaderDigest {
    pub fn total_difficulty(&self) -> PU256 { PU256(self.td) }
    pub fn end_number(&self) -> PU64 { PU64(self.end_number) }
    pub fn is_default(&self) -> bool { self.td.0 == 0 && self.end_number == 0 && self.id == 0 }
}
#[derive(Clone, Copy, Default, Debug, PartialEq, Eq)]
pub struct VerifiableHeader { pub header: HeaderView, pub uncles: u8, pub ext: Option<PBytes>, pub root: HeaderDigest }
impl VerifiableHeader {
    pub fn header(&self) -> &HeaderView { &self.header }
    pub fn uncles_hash(&self) -> Byte32 { Byte32(self.uncles) }
    pub fn extension(&self) -> Option<PBytes> { self.ext }
    pub fn parent_chain_root(&self) -> HeaderDigest { self.root }
    /// ckb-types: `parent_total_difficulty + compact_to_difficulty(compact_target)` with numext's panicking `+`.
    pub fn total_difficulty(&self) -> U256 { self.root.td + U256(self.header.diff) }
    pub fn to_owned(&self) -> VerifiableHeader { *self }
}
#[derive(Clone, Copy, PartialEq, Eq, Default, Debug, Hash, PartialOrd, Ord)] pub struct PeerIndex(pub u8);
impl std::fmt::Display for PeerIndex { fn fmt(&self, _f: &mut std::fmt::Formatter) -> std::fmt::Result { Ok(()) } }
#[allow(dead_code)]
pub enum Level { Trace, Debug }
/// Zero-sized stand-in for `std::string::String` (error messages are cut, DESIGN.md 3.2): nothing is allocated, so no
/// allocator checks enter the encoding.
#[derive(Clone, Copy, Debug, Default, PartialEq, Eq, Hash)] pub struct String;
impl String { pub fn new() -> Self { String } pub fn from<T>(_t: T) -> Self { String } }
impl std::fmt::Display for String { fn fmt(&self, _f: &mut std::fmt::Formatter) -> std::fmt::Result { Ok(()) } }
