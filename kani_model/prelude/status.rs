// Model prelude: `Status` without its String context.  `StatusCode` itself is extracted from the real
// src/protocols/status.rs on every run.
#[derive(Clone, Copy, Debug, PartialEq, Eq)]
pub struct Status { pub code: StatusCode }
impl From<StatusCode> for Status { fn from(code: StatusCode) -> Self { Status { code } } }
impl StatusCode { pub fn with_context<S>(self, _context: S) -> Status { Status { code: self } } }
impl Status {
    pub fn ok() -> Self { Status { code: StatusCode::OK } }
    pub fn is_ok(&self) -> bool { self.code == StatusCode::OK || self.code == StatusCode::RequireRecheck }
    pub fn code(&self) -> StatusCode { self.code }
}
impl std::fmt::Display for Status { fn fmt(&self, _f: &mut std::fmt::Formatter) -> std::fmt::Result { Ok(()) } }
