// Model prelude: DashMap as a fixed-capacity array of slots behind an UnsafeCell (interior mutability through &self, like the
// real sharded map; no concurrency is modelled).  The includer defines DM_CAP.  Iteration order = slot order; harnesses place
// their symbolic entries in symbolic slots.
pub struct DashMap<K: Copy + Eq, V> { pub cell: std::cell::UnsafeCell<[Option<(K, V)>; DM_CAP]> }
impl<K: Copy + Eq, V> Default for DashMap<K, V> { fn default() -> Self { Self::new() } }
pub struct DmRef<'a, K: Copy + Eq, V> { pub kv: &'a (K, V) }
impl<'a, K: Copy + Eq, V> DmRef<'a, K, V> { pub fn key(&self) -> &K { &self.kv.0 } pub fn value(&self) -> &V { &self.kv.1 } pub fn pair(&self) -> (&K, &V) { (&self.kv.0, &self.kv.1) } }
impl<'a, K: Copy + Eq, V> std::ops::Deref for DmRef<'a, K, V> { type Target = V; fn deref(&self) -> &V { &self.kv.1 } }
pub struct DmRefMut<'a, K: Copy + Eq, V> { pub kv: &'a mut (K, V) }
impl<'a, K: Copy + Eq, V> DmRefMut<'a, K, V> { pub fn key(&self) -> &K { &self.kv.0 } pub fn value(&self) -> &V { &self.kv.1 } pub fn value_mut(&mut self) -> &mut V { &mut self.kv.1 } }
impl<'a, K: Copy + Eq, V> std::ops::Deref for DmRefMut<'a, K, V> { type Target = V; fn deref(&self) -> &V { &self.kv.1 } }
impl<'a, K: Copy + Eq, V> std::ops::DerefMut for DmRefMut<'a, K, V> { fn deref_mut(&mut self) -> &mut V { &mut self.kv.1 } }
impl<K: Copy + Eq, V> DashMap<K, V> {
    pub fn new() -> Self { DashMap { cell: std::cell::UnsafeCell::new([(); DM_CAP].map(|_| None)) } }
    fn slots(&self) -> &mut [Option<(K, V)>; DM_CAP] { unsafe { &mut *self.cell.get() } }
    pub fn insert(&self, k: K, v: V) -> Option<V> {
        let s = self.slots();
        let mut i = 0; while i < DM_CAP { if let Some((kk, _)) = &s[i] { if *kk == k { let old = s[i].take(); s[i] = Some((k, v)); return old.map(|x| x.1); } } i += 1; }
        let mut i = 0; while i < DM_CAP { if s[i].is_none() { s[i] = Some((k, v)); return None; } i += 1; }
        panic!("MODEL-BOUND: DashMap capacity");
    }
    pub fn get(&self, k: &K) -> Option<DmRef<'_, K, V>> { let s = self.slots(); let mut i = 0; while i < DM_CAP { if let Some(kv) = &s[i] { if kv.0 == *k { return Some(DmRef { kv }); } } i += 1; } None }
    pub fn get_mut(&self, k: &K) -> Option<DmRefMut<'_, K, V>> { let s = self.slots(); let mut i = 0; while i < DM_CAP { if let Some(kv) = &mut s[i] { if kv.0 == *k { return Some(DmRefMut { kv }); } } i += 1; } None }
    pub fn remove(&self, k: &K) -> Option<(K, V)> { let s = self.slots(); let mut i = 0; while i < DM_CAP { let hit = match &s[i] { Some(kv) => kv.0 == *k, None => false }; if hit { return s[i].take(); } i += 1; } None }
    pub fn contains_key(&self, k: &K) -> bool { self.get(k).is_some() }
    pub fn is_empty(&self) -> bool { let s = self.slots(); let mut i = 0; while i < DM_CAP { if s[i].is_some() { return false; } i += 1; } true }
    pub fn len(&self) -> usize { let s = self.slots(); let mut c = 0; let mut i = 0; while i < DM_CAP { if s[i].is_some() { c += 1; } i += 1; } c }
    pub fn iter(&self) -> impl Iterator<Item = DmRef<'_, K, V>> { self.slots().iter().filter_map(|o| o.as_ref().map(|kv| DmRef { kv })) }
    pub fn iter_mut(&self) -> impl Iterator<Item = DmRefMut<'_, K, V>> { self.slots().iter_mut().filter_map(|o| o.as_mut().map(|kv| DmRefMut { kv })) }
}
