// Model prelude: numext U256 narrowed to 64 bits (DESIGN.md 3.2).  The observable numext semantics are
// kept: `+ - *` PANIC on overflow (message text as in numext), saturating_mul, checked_add, `/= u64`.
#[derive(Clone, Copy, PartialEq, Eq, PartialOrd, Ord, Debug, Default, Hash)]
pub struct U256(pub u64);
impl U256 {
    pub fn zero() -> Self { U256(0) }
    pub fn one() -> Self { U256(1) }
    pub fn is_zero(&self) -> bool { self.0 == 0 }
    pub fn saturating_mul(&self, o: &U256) -> U256 { U256(self.0.saturating_mul(o.0)) }
    pub fn checked_add(&self, o: &U256) -> Option<U256> { self.0.checked_add(o.0).map(U256) }
    pub fn checked_sub(&self, o: &U256) -> Option<U256> { self.0.checked_sub(o.0).map(U256) }
    pub fn pack(&self) -> PU256 { PU256(*self) }
    pub fn to_le_bytes(&self) -> [u8; 8] { self.0.to_le_bytes() }
    pub fn from_le_bytes(b: &[u8; 8]) -> Self { U256(u64::from_le_bytes(*b)) }
}
impl From<u64> for U256 { fn from(x: u64) -> Self { U256(x) } }
impl From<u32> for U256 { fn from(x: u32) -> Self { U256(x as u64) } }
fn u256_add(a: u64, b: u64) -> U256 { match a.checked_add(b) { Some(x) => U256(x), None => panic!("U256: attempt to add with overflow") } }
fn u256_sub(a: u64, b: u64) -> U256 { match a.checked_sub(b) { Some(x) => U256(x), None => panic!("U256: attempt to subtract with overflow") } }
fn u256_mul(a: u64, b: u64) -> U256 { match a.checked_mul(b) { Some(x) => U256(x), None => panic!("U256: attempt to multiply with overflow") } }
impl std::ops::Add for U256 { type Output = U256; fn add(self, o: U256) -> U256 { u256_add(self.0, o.0) } }
impl<'a> std::ops::Add<&'a U256> for U256 { type Output = U256; fn add(self, o: &U256) -> U256 { u256_add(self.0, o.0) } }
impl<'a> std::ops::Add<U256> for &'a U256 { type Output = U256; fn add(self, o: U256) -> U256 { u256_add(self.0, o.0) } }
impl<'a, 'b> std::ops::Add<&'b U256> for &'a U256 { type Output = U256; fn add(self, o: &U256) -> U256 { u256_add(self.0, o.0) } }
impl std::ops::Sub for U256 { type Output = U256; fn sub(self, o: U256) -> U256 { u256_sub(self.0, o.0) } }
impl<'a, 'b> std::ops::Sub<&'b U256> for &'a U256 { type Output = U256; fn sub(self, o: &U256) -> U256 { u256_sub(self.0, o.0) } }
impl<'a> std::ops::Sub<u32> for &'a U256 { type Output = U256; fn sub(self, o: u32) -> U256 { u256_sub(self.0, o as u64) } }
impl std::ops::Mul<u64> for U256 { type Output = U256; fn mul(self, o: u64) -> U256 { u256_mul(self.0, o) } }
impl<'a> std::ops::Mul<u64> for &'a U256 { type Output = U256; fn mul(self, o: u64) -> U256 { u256_mul(self.0, o) } }
impl std::ops::DivAssign<u64> for U256 { fn div_assign(&mut self, o: u64) { if o == 0 { panic!("U256: attempt to divide by zero") } self.0 /= o; } }
impl std::fmt::LowerHex for U256 { fn fmt(&self, _f: &mut std::fmt::Formatter) -> std::fmt::Result { Ok(()) } }
impl std::fmt::Display for U256 { fn fmt(&self, _f: &mut std::fmt::Formatter) -> std::fmt::Result { Ok(()) } }
#[derive(Clone, Copy, Default, Debug, PartialEq, Eq)] pub struct PU256(pub U256);
pub trait Unpack<T> { fn unpack(&self) -> T; }
impl Unpack<U256> for PU256 { fn unpack(&self) -> U256 { self.0 } }
#[derive(Clone, Copy, Default, Debug, PartialEq, Eq)] pub struct PU64(pub u64);
impl Unpack<u64> for PU64 { fn unpack(&self) -> u64 { self.0 } }
#[derive(Clone, Copy, Default, Debug, PartialEq, Eq)] pub struct PU32(pub u32);
impl Unpack<u32> for PU32 { fn unpack(&self) -> u32 { self.0 } }
pub trait PackU64 { fn pack(&self) -> PU64; }
impl PackU64 for u64 { fn pack(&self) -> PU64 { PU64(*self) } }
