// K-model unit `slsp`: real text of check_if_response_is_matched, check_continuous_headers, verify_mmr_proof
// (send_last_state_proof.rs), HeaderUtils::is_parent_of and VerifiableHeaderPatch::patched_is_valid (prelude.rs).
#![allow(unused, dead_code, unused_mut, static_mut_refs, non_snake_case)]
use std::{cmp::Ordering, fmt};
pub const CAP: usize = 5;
#[macro_use] #[path = "../../prelude/macros.rs"] mod pmacros;
include!("../../prelude/vec.rs");
include!("../../prelude/u256.rs");
include!("../../prelude/epoch.rs");
include!("../../prelude/lc_types.rs");
include!("../../prelude/uf.rs");
include!("../../prelude/status.rs");

// ---- uninterpreted hash functions ---------------------------------------------------------------
pub static mut H_EXT: Uf = Uf::new();     // calc_raw_data_hash(extension)
pub static mut H_EXTRA: Uf = Uf::new();   // ExtraHashView(uncles_hash, Option<extension hash>).extra_hash()
pub static mut H_ROOT: Uf = Uf::new();    // HeaderDigest::calc_mmr_hash
pub static mut DIGEST_OK: Uf = Uf::new(); // HeaderDigest::verify() of a header's own digest
/// `packed::Bytes::raw_data()` -> `bytes::Bytes`: derefs to the content bytes
pub struct RawData { pub b: [u8; 2], pub len: usize }
impl std::ops::Deref for RawData { type Target = [u8]; fn deref(&self) -> &[u8] { &self.b[..self.len] } }
impl AsRef<[u8]> for RawData { fn as_ref(&self) -> &[u8] { &self.b[..self.len] } }
impl PBytes {
    pub fn raw_data(&self) -> RawData { RawData { b: self.b, len: self.len as usize } }
    pub fn calc_raw_data_hash(&self) -> Byte32 { unsafe { Byte32(H_EXT.apply(self.key())) } }
}
impl HeaderDigest { pub fn calc_mmr_hash(&self) -> Byte32 { unsafe { Byte32(H_ROOT.apply(((self.td.0 & 0xffff) << 24) ^ ((self.end_number & 0xffff) << 8) ^ self.id as u64)) } } }
pub struct ExtraHashView { u: Byte32, e: Option<Byte32> }
impl ExtraHashView {
    pub fn new(u: Byte32, e: Option<Byte32>) -> Self { ExtraHashView { u, e } }
    pub fn extra_hash(&self) -> Byte32 { unsafe { Byte32(H_EXTRA.apply(((self.u.0 as u64) << 16) | match self.e { None => 0, Some(b) => 0x100 | b.0 as u64 })) } }
}

// ---- MMR proof model: records what it was asked to verify --------------------------------------------
// injective stand-ins; ckb-merkle-mountain-range computes `2 * (index + 1) - ..` (helper.rs): with overflow checks (dev and this repo's release profile) an index >= 2^63 - 1 aborts
pub fn leaf_index_to_mmr_size(i: u64) -> u64 { assert!(i <= u64::MAX / 2 - 1, "REAL-PANIC: ckb-merkle-mountain-range leaf_index_to_mmr_size: attempt to multiply with overflow (leaf index >= 2^63 - 1)"); i ^ 0x5555 }
pub fn leaf_index_to_pos(i: u64) -> u64 { assert!(i <= u64::MAX / 2 - 1, "REAL-PANIC: ckb-merkle-mountain-range leaf_index_to_pos: attempt to multiply with overflow (leaf index >= 2^63 - 1)"); i ^ 0xAAAA }
#[derive(Clone, Copy, Default, Debug, PartialEq, Eq)] pub struct Digest { pub of_header: u8, pub number: u64 }
impl Digest { pub fn verify(&self) -> Result<(), String> { unsafe { if DIGEST_OK.apply(self.of_header as u64) & 1 == 1 { Ok(()) } else { Err(String) } } } }
impl HeaderView { pub fn digest(&self) -> Digest { Digest { of_header: self.id, number: self.number } } }
#[derive(Clone, Copy, Default)] pub struct PHeaderDigest(pub u8);
impl PHeaderDigest { pub fn to_entity(&self) -> PHeaderDigest { *self } }
pub struct MMRProof { pub mmr_size: u64, pub items: Vec<PHeaderDigest> }
pub struct MmrGhost { pub called: bool, pub mmr_size: u64, pub root: HeaderDigest, pub leaves: Vec<(u64, Digest)>, pub proof_items: Vec<PHeaderDigest>, pub answer: u8 }
pub static mut MMR: Option<MmrGhost> = None;
pub static mut MMR_ANSWER: u8 = 0; // 0 => Err, 1 => Ok(false), 2 => Ok(true)
impl MMRProof {
    pub fn new(mmr_size: u64, items: Vec<PHeaderDigest>) -> Self { MMRProof { mmr_size, items } }
    pub fn verify(&self, root: HeaderDigest, leaves: Vec<(u64, Digest)>) -> Result<bool, String> {
        unsafe {
            MMR = Some(MmrGhost { called: true, mmr_size: self.mmr_size, root, leaves, proof_items: self.items, answer: MMR_ANSWER });
            match MMR_ANSWER { 0 => Err(String), 1 => Ok(false), _ => Ok(true) }
        }
    }
}
pub mod packed {
    use super::*;
    pub use super::Byte32;
    #[derive(Clone, Copy, Default)]
    pub struct GetLastStateProof { pub start_number: u64, pub boundary: U256, pub diffs: [U256; 4], pub nd: usize }
    impl GetLastStateProof {
        pub fn start_number(&self) -> PU64 { PU64(self.start_number) }
        pub fn difficulty_boundary(&self) -> PU256 { PU256(self.boundary) }
        pub fn difficulties(&self) -> Vec<PU256> { let mut v = Vec::new(); let mut i = 0; while i < self.nd { v.push(PU256(self.diffs[i])); i += 1; } v }
    }
    #[derive(Clone, Copy)]
    pub struct HeaderDigestVecReader<'a> { pub items: &'a [PHeaderDigest] }
    impl<'a> HeaderDigestVecReader<'a> { pub fn iter(&self) -> std::slice::Iter<'a, PHeaderDigest> { self.items.iter() } }
}
fn print_difficulties_distribution(_a: &packed::GetLastStateProof, _b: &[VerifiableHeader], _c: &U256) {}
pub trait HeaderUtils { fn is_parent_of(&self, child: &Self) -> bool; fn is_child_of(&self, parent: &Self) -> bool { parent.is_parent_of(self) } }
/// ckb-types `compact_to_difficulty`: in this unit a header's block difficulty IS its compact target (harnesses keep `diff == compact_target`)
pub fn compact_to_difficulty(c: u32) -> U256 { U256(c as u64) }

include!("extracted.rs");

#[cfg(kani)]
mod harness {
    use super::*;
    fn any_epoch() -> EpochNumberWithFraction { EpochNumberWithFraction(kani::any()) }
    fn any_hv() -> HeaderView {
        let c: u32 = kani::any();
        HeaderView { id: kani::any(), number: kani::any(), parent: kani::any(), epoch: any_epoch(), timestamp: 0, compact_target: c,
            diff: c as u64, extra_hash: kani::any(), tx_root: 0, pow_ok: true }
    }
    fn any_vh() -> VerifiableHeader {
        let ext: Option<u8> = kani::any();
        VerifiableHeader { header: any_hv(), uncles: kani::any(), ext: ext.map(|l| PBytes::of(l % 3, kani::any(), kani::any())),
            root: HeaderDigest { td: U256(kani::any()), end_number: kani::any(), id: kani::any() } }
    }
    fn td(h: &VerifiableHeader) -> u64 { h.root.td.0.wrapping_add(h.header.diff) }

    // ------------------------------------------------------------------------------------------------
    // O1.1 / C10: check_if_response_is_matched against an independent declarative shape specification
    // ------------------------------------------------------------------------------------------------
    fn shape<const N: usize, const ND: usize, const LASTN: usize, const NO_OVERFLOW: bool>() {
        let last_n: usize = kani::any();
        kani::assume(last_n >= 1 && last_n <= LASTN);
        let n: usize = kani::any();
        kani::assume(n <= N);
        let mut arr = [VerifiableHeader::default(); N];
        let mut i = 0;
        while i < N {
            arr[i].header.number = kani::any(); let c: u32 = kani::any(); arr[i].header.compact_target = c; arr[i].header.diff = c as u64; arr[i].root.td = U256(kani::any());
            if NO_OVERFLOW { kani::assume(arr[i].root.td.0.checked_add(arr[i].header.diff).is_some()); }
            i += 1;
        }
        let headers = &arr[..n];
        let mut last = VerifiableHeader::default();
        last.header.number = kani::any();
        let nd: usize = kani::any();
        kani::assume(nd <= ND);
        let mut req = packed::GetLastStateProof { start_number: kani::any(), boundary: U256(kani::any()), diffs: [U256(0); 4], nd };
        let mut j = 0;
        while j < ND { req.diffs[j] = U256(kani::any()); j += 1; }
        // the request is the client's own (C15 post-condition): sampled difficulties strictly increasing
        let mut j = 1;
        while j < ND { if j < nd { kani::assume(req.diffs[j - 1].0 < req.diffs[j].0); } j += 1; }
        let start = req.start_number; let boundary = req.boundary.0;

        let res = check_if_response_is_matched(last_n, &req, headers, &last);

        if let Ok((r, s, l)) = res {
            assert!(n > 0 && r + s + l == n, "SPEC shape: sections do not partition the headers");
            let mut i = 1;
            while i < N { if i < n { assert!(headers[i - 1].header.number < headers[i].header.number, "SPEC shape: numbers not strictly increasing"); } i += 1; }
            let mut i = 0;
            while i < N { if i < n { assert!((headers[i].header.number < start) == (i < r), "SPEC shape: reorg section is not exactly the headers below start"); } i += 1; }
            if r != 0 {
                assert!(r == last_n || headers[0].header.number == 1, "SPEC shape: reorg count is neither last-N nor starts at block 1");
                assert!(headers[r - 1].header.number == start - 1, "SPEC shape: reorg section does not end right before start");
            }
            assert!(l >= if last_n < n - r { last_n } else { n - r }, "SPEC shape: last-N section shorter than min(last_n, available)");
            // the last-N section is the run of blocks right before the requested last header - with or without samples
            assert!(headers[n - 1].header.number.checked_add(1) == Some(last.header.number), "SPEC shape: the last-N section does not end right before the last header");
            if s == 0 && l > 0 {
                assert!(headers[r].header.number == start, "SPEC shape: without samples the last-N section must begin at start");
                assert!(headers[n - 1].header.number.checked_add(1) == Some(last.header.number), "SPEC shape: without samples the last-N section must end right before the last header");
            }
            if s > 0 {
                assert!(l >= last_n, "SPEC shape: samples present but fewer than last-N trailing headers");
                let f = td(&headers[r + s]);          // total difficulty of the first last-N header
                let p = headers[r + s].root.td.0;     // and of its parent
                // (a) every sampled header is the first block reaching some requested difficulty
                let mut i = 0;
                while i < N {
                    if i >= r && i < r + s {
                        assert!(td(&headers[i]) < boundary, "SPEC shape: a sampled header is at or above the difficulty boundary");
                        let mut cov = false; let mut j = 0;
                        while j < ND { if j < nd { let d = req.diffs[j].0; if d < f && headers[i].root.td.0 < d && d <= td(&headers[i]) { cov = true; } } j += 1; }
                        assert!(cov, "SPEC shape: a sampled header covers no requested difficulty");
                    }
                    i += 1;
                }
                // (b) every requested difficulty below the first last-N header is covered by a sample or lies inside that block
                let mut j = 0;
                while j < ND {
                    if j < nd && req.diffs[j].0 < f {
                        let d = req.diffs[j].0; let mut cov = d > p; let mut i = 0;
                        while i < N { if i >= r && i < r + s && headers[i].root.td.0 < d && d <= td(&headers[i]) { cov = true; } i += 1; }
                        assert!(cov, "SPEC shape: a requested difficulty has no sampled block");
                    }
                    j += 1;
                }
                if l > last_n { assert!(f >= boundary, "SPEC shape: last-N section longer than last-N although its first header is below the boundary"); }
            }
            kani::cover!(s == 2 && l >= 1, "two samples accepted");
            kani::cover!(r >= 1 && s == 0 && l >= 1, "reorg + last-N accepted");
            kani::cover!(r >= 1 && s >= 1, "reorg + samples accepted");
        }
    }
    // ------------------------------------------------------------------------------------------------
    // O5.1: completeness - the response an RFC-44 server builds for the client's own request is accepted
    // ------------------------------------------------------------------------------------------------
    /// Reference model of the honest prover (RFC 44, "GetLastStateProof"): blocks 0..=T with positive difficulties, TD(n) = cumulative
    /// difficulty up to and including block n.  No reorg (the start block is on the prover's chain).
    ///   T - start <= last_n : all blocks start..T
    ///   otherwise           : bb = first block in [start, T) with TD >= boundary, moved down to T - last_n if fewer than last_n follow;
    ///                         last-N section = bb..T ; samples = for each requested difficulty the first block in [start, bb) reaching it
    fn honest<const T: usize, const ND: usize, const KNOWN_CASE: bool>() {
        let mut d = [0u64; T]; let mut tdv = [0u64; T];
        let mut i = 0; let mut acc: u64 = 0;
        while i < T { let c: u32 = kani::any(); kani::assume(c >= 1); d[i] = c as u64; acc += c as u64; tdv[i] = acc; i += 1; }
        let last_no = T - 1;                       // the last header is block T-1; candidates are blocks 0..T-1
        let last_n: usize = kani::any(); kani::assume(last_n >= 1 && last_n <= 2);
        let start: usize = kani::any(); kani::assume(start < last_no);
        let start_td = tdv[start];
        let gap = last_no - start;
        // the client's request (C15 post-conditions)
        let nd: usize = kani::any(); kani::assume(nd <= ND);
        let mut req = packed::GetLastStateProof { start_number: start as u64, boundary: U256(start_td), diffs: [U256(0); 4], nd: 0 };
        let mut resp = [VerifiableHeader::default(); T]; let mut n = 0usize; let mut ns = 0usize;
        let mk = |k: usize| { let mut v = VerifiableHeader::default(); v.header.number = k as u64; v.header.compact_target = d[k] as u32; v.header.diff = d[k]; v.root.td = U256(tdv[k] - d[k]); v };
        if gap <= last_n {
            let mut k = start; while k < last_no { resp[n] = mk(k); n += 1; k += 1; }
        } else {
            let b: u64 = kani::any(); kani::assume(b > start_td && b <= tdv[last_no]);
            kani::assume(nd >= 1);   // C15 post-condition: a sampling request carries at least one difficulty
            req.boundary = U256(b); req.nd = nd;
            let mut j = 0; while j < ND { if j < nd { let x: u64 = kani::any(); kani::assume(x >= start_td && x < b); if j > 0 { kani::assume(req.diffs[j - 1].0 < x); } req.diffs[j] = U256(x); } j += 1; }
            let mut bb = last_no; let mut k = start; let mut found = false;
            while k < last_no { if !found && tdv[k] >= b { bb = k; found = true; } k += 1; }
            if last_no - bb < last_n { bb = last_no - last_n; }
            // samples: first block in [start, bb) reaching each requested difficulty, de-duplicated, ascending
            let mut k = start;
            while k < bb { let mut hit = false; let mut j = 0; while j < ND { if j < nd { let x = req.diffs[j].0; if tdv[k] >= x && (k == start || tdv[k - 1] < x) && !(k == start && x <= tdv[k] - d[k]) { hit = true; } } j += 1; }
                if hit { resp[n] = mk(k); n += 1; ns += 1; } k += 1; }
            let mut k = bb; while k < last_no { resp[n] = mk(k); n += 1; k += 1; }
        }
        let mut last = VerifiableHeader::default(); last.header.number = last_no as u64;
        // the case recorded as known finding C05/KF-1: a SAMPLING request whose honest answer carries NO sampled header (every requested
        // difficulty is reached inside the last-N section), e.g. always when the peer is exactly last_n + 1 blocks ahead
        let known_case = gap > last_n && ns == 0;
        kani::assume(known_case == KNOWN_CASE);
        let r = check_if_response_is_matched(last_n, &req, &resp[..n], &last);
        if KNOWN_CASE { assert!(r.is_ok(), "SPEC completeness (sampling request answered without any sampled header): the honest response was rejected"); }
        else { assert!(r.is_ok(), "SPEC completeness: the response an honest RFC-44 prover builds for the client's own request was rejected"); }
        if !KNOWN_CASE { kani::cover!(gap > last_n && n >= 3, "a sampled response"); kani::cover!(gap <= last_n, "an all-blocks response"); }
        else { kani::cover!(true, "a sampling request answered without any sampled header"); kani::cover!(gap == last_n + 1, "the peer is exactly last_n + 1 blocks ahead"); }
    }
    #[kani::proof] #[kani::unwind(7)] fn honest_q() { honest::<5, 2, false>(); }
    #[kani::proof] #[kani::unwind(9)] fn honest_t() { honest::<7, 3, false>(); }
    #[kani::proof] #[kani::unwind(7)] fn honest_without_samples() { honest::<5, 2, true>(); }

    #[kani::proof] #[kani::unwind(6)] fn shape_q() { shape::<4, 3, 2, true>(); }
    #[kani::proof] #[kani::unwind(7)] fn shape_t() { shape::<5, 4, 3, true>(); }
    /// C10: same function, NO assumption on the peer-supplied numbers (overflow of parent TD + difficulty included)
    #[kani::proof] #[kani::unwind(6)] fn shape_panic_q() { shape::<4, 3, 2, false>(); }

    /// C10: the overflow guard is exact - when it answers `false`, VerifiableHeader::total_difficulty() cannot panic
    #[kani::proof] #[kani::unwind(4)]
    fn td_guard() {
        let vh = any_vh();
        let over = vh.is_total_difficulty_overflowed();
        assert!(over == vh.root.td.0.checked_add(vh.header.diff).is_none(), "SPEC overflow guard: is_total_difficulty_overflowed differs from `parent total difficulty + block difficulty overflows`");
        if !over { let t = vh.total_difficulty(); assert!(t.0 == vh.root.td.0 + vh.header.diff, "SPEC overflow guard: total difficulty"); }
        kani::cover!(over, "an overflowing header");
        kani::cover!(!over && vh.root.td.0 > 1 << 63, "a large but representable total difficulty");
    }

    // ------------------------------------------------------------------------------------------------
    // O1.2: check_continuous_headers + the real is_parent_of
    // ------------------------------------------------------------------------------------------------
    fn continuous<const N: usize>() {
        let n: usize = kani::any(); kani::assume(n <= N);
        let mut arr = [HeaderView::default(); N];
        let mut i = 0; while i < N { arr[i] = any_hv(); i += 1; }
        let r = check_continuous_headers(&arr[..n]);
        let mut ok = true; let mut i = 1;
        while i < N {
            if i < n {
                let (p, c) = (&arr[i - 1], &arr[i]);
                let succ = { let (pe, ce) = (p.epoch, c.epoch);
                    if pe.index() + 1 == pe.length() { ce.number() == pe.number() + 1 && ce.index() == 0 }
                    else { ce.number() == pe.number() && ce.index() == pe.index() + 1 && ce.length() == pe.length() } };
                let link = p.number.checked_add(1) == Some(c.number) && (p.number == 0 || succ) && p.id == c.parent;
                if !link { ok = false; }
            }
            i += 1;
        }
        assert!(r.is_ok() == ok, "SPEC continuity: Ok iff every adjacent pair is number+1, epoch successor (or parent is genesis) and hash-linked");
        if let Err(s) = r { assert!(s.code == StatusCode::InvalidParentBlock, "SPEC continuity: wrong error code"); }
        kani::cover!(n == N && r.is_ok(), "a full chain accepted");
        kani::cover!(n >= 2 && r.is_err(), "a broken chain rejected");
    }
    #[kani::proof] #[kani::unwind(6)] fn continuous_q() { continuous::<4>(); }
    #[kani::proof] #[kani::unwind(8)] fn continuous_t() { continuous::<6>(); }

    // ------------------------------------------------------------------------------------------------
    // O1.3: patched_is_valid
    // ------------------------------------------------------------------------------------------------
    #[kani::proof] #[kani::unwind(8)]
    fn patched_valid() {
                let vh = any_vh();
        let act: u64 = kani::any(); kani::assume(act < EpochNumberWithFraction::NUMBER_MAXIMUM_VALUE);
        let got = vh.patched_is_valid(act);
        // specification, with the same uninterpreted functions
        let e = vh.header.epoch;
        let above = e.number() > act || (e.number() == act && e.index() * 1 > 0 * e.length());
        let mut want = true;
        if above {
            if vh.header.number == 0 { if !(vh.root.td.0 == 0 && vh.root.end_number == 0 && vh.root.id == 0) { want = false; } }
            else { match vh.ext { None => want = false, Some(x) => { if !(x.len >= 1 && x.b[0] == vh.root.calc_mmr_hash().0) { want = false; } } } }
        }
        let eh = ExtraHashView::new(Byte32(vh.uncles), vh.ext.map(|x| x.calc_raw_data_hash())).extra_hash();
        if eh.0 != vh.header.extra_hash { want = false; }
        assert!(got == want, "SPEC chain root: patched_is_valid differs from the specification");
        kani::cover!(got && above && vh.header.number != 0, "a header above activation accepted");
        kani::cover!(!got && above, "a header above activation rejected");
    }

    // ------------------------------------------------------------------------------------------------
    // O1.4: verify_mmr_proof
    // ------------------------------------------------------------------------------------------------
    fn mmr<const N: usize>() {
        unsafe { MMR_ANSWER = kani::any(); kani::assume(MMR_ANSWER < 3); MMR = None; }
        let last = any_vh();
        let act: u64 = kani::any(); kani::assume(act < EpochNumberWithFraction::NUMBER_MAXIMUM_VALUE);
        let n: usize = kani::any(); kani::assume(n <= N);
        let mut arr = [HeaderView::default(); N];
        let mut i = 0; while i < N { arr[i].id = kani::any(); kani::assume(arr[i].id < 4); arr[i].number = kani::any(); i += 1; }
        let np: usize = kani::any(); kani::assume(np <= 2);
        let items = [PHeaderDigest(kani::any()), PHeaderDigest(kani::any())];
        let r = verify_mmr_proof(act, &last, packed::HeaderDigestVecReader { items: &items[..np] }, arr[..n].iter());
        if r.is_ok() {
            assert!(last.patched_is_valid(act), "SPEC mmr: accepted although the last header does not commit to its chain root");
            unsafe {
                let g = MMR.as_ref();
                assert!(g.is_some(), "SPEC mmr: accepted without calling the MMR verification");
                let g = g.unwrap();
                assert!(g.answer == 2, "SPEC mmr: accepted although the MMR verification did not return Ok(true)");
                assert!(g.root == last.root, "SPEC mmr: verified against a root other than the last header's parent chain root");
                assert!(g.mmr_size == leaf_index_to_mmr_size(last.root.end_number), "SPEC mmr: wrong MMR size");
                assert!(g.leaves.len == n, "SPEC mmr: not every header is a leaf of the verified proof");
                assert!(g.proof_items.len == np, "SPEC mmr: proof items dropped");
                let mut i = 0;
                while i < N {
                    if i < n {
                        assert!(g.leaves.buf[i].0 == leaf_index_to_pos(arr[i].number) && g.leaves.buf[i].1.of_header == arr[i].id, "SPEC mmr: leaf position/digest mismatch");
                        assert!(DIGEST_OK.apply(arr[i].id as u64) & 1 == 1, "SPEC mmr: a header digest that fails verify() was accepted");
                    }
                    if i < np { assert!(g.proof_items.buf[i].0 == items[i].0, "SPEC mmr: proof item altered"); }
                    i += 1;
                }
            }
            kani::cover!(n == N, "a full proof accepted");
        } else {
            if let Err(s) = r { assert!(s.code == StatusCode::InvalidProof, "SPEC mmr: wrong error code"); }
            kani::cover!(n >= 1, "a proof rejected");
        }
    }
    #[kani::proof] #[kani::unwind(8)] fn mmr_q() { mmr::<3>(); }
    #[kani::proof] #[kani::unwind(8)] fn mmr_t() { mmr::<4>(); }
}
