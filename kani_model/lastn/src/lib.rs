// K-model unit `lastn`: the block of SendLastStateProofProcess::execute (send_last_state_proof.rs) that selects the reorg headers and the last-N
// headers which are remembered in the new prove state (and later stored by commit_prove_state), extracted verbatim and wrapped as a method;
// real PeerState / ProveState / ProveRequest text, real check_continuous_headers.
#![allow(unused, dead_code, unused_mut, static_mut_refs, non_snake_case)]
use std::{fmt, mem};
pub const CAP: usize = 5;
#[macro_use] #[path = "../../prelude/macros.rs"] mod pmacros;
include!("../../prelude/vec.rs");
include!("../../prelude/u256.rs");
include!("../../prelude/epoch.rs");
include!("../../prelude/lc_types.rs");
pub mod packed {
    pub use super::Byte32;
    #[derive(Clone, Copy, Default, PartialEq, Eq, Debug)] pub struct GetLastStateProof(pub u8);
}
pub static mut NOW: u64 = 0;
pub fn unix_time_as_millis() -> u64 { unsafe { NOW } }
pub trait HeaderUtils { fn is_parent_of(&self, child: &Self) -> bool; }
impl HeaderUtils for HeaderView {
    // the real implementation is the subject of unit `slsp` (O1.2); here only linkage matters
    fn is_parent_of(&self, child: &Self) -> bool { self.number.wrapping_add(1) == child.number && self.id == child.parent }
}

use std::cmp::Ordering;
pub struct SendLastStateProofProcess { pub peer_index: PeerIndex, pub protocol: Proto }
// ---- PoW / continuity slice of the proof handler (variant `powcont`): recording models of the checks it calls
#[derive(Default)] pub struct Proto;
pub static mut POW_SEEN: usize = 0;
pub static mut POW_FIRST: Option<u8> = None;
pub static mut TAU_FAILED: Option<bool> = None;
pub static mut TAU_VERDICT: u8 = 0;       // 0 Ok(true), 1 Ok(false), 2 Err
pub static mut CONT_CALLS: usize = 0;
pub static mut CONT: [(usize, Option<u8>, Option<u8>); 3] = [(0, None, None); 3];    // (len, first id, last id) of each checked slice
pub static mut CONT_BAD: usize = usize::MAX;   // which call reports a gap
impl Proto {
    /// PoW check: every header it is given is looked at; Err iff one of them fails
    pub fn check_pow_for_headers<'a, I: Iterator<Item = &'a HeaderView>>(&self, it: I) -> Result<(), Status> {
        let mut bad = false;
        for h in it { unsafe { if POW_SEEN == 0 { POW_FIRST = Some(h.id); } POW_SEEN += 1; } if !h.pow_ok { bad = true; } }
        if bad { Err(StatusCode::InvalidNonce.into()) } else { Ok(()) }
    }
}
#[cfg(pow_cont)] pub fn verify_tau(_se: EpochNumberWithFraction, _sc: u32, _ee: EpochNumberWithFraction, _ec: u32, _tau: u64) -> Result<bool, Status> {
    unsafe { match TAU_VERDICT { 0 => Ok(true), 1 => Ok(false), _ => Err(StatusCode::InvalidCompactTarget.into()) } }
}
#[cfg(pow_cont)] pub(crate) fn check_continuous_headers(headers: &[HeaderView]) -> Result<(), Status> {
    unsafe {
        let k = CONT_CALLS; CONT_CALLS += 1;
        if k < 3 { CONT[k] = (headers.len(), headers.first().map(|h| h.id), headers.last().map(|h| h.id)); }
        if k == CONT_BAD { Err(StatusCode::InvalidParentBlock.into()) } else { Ok(()) }
    }
}
pub static mut OUT: Option<(Vec<HeaderView>, Vec<HeaderView>)> = None;
// ---- the total-difficulty check of the proof against the peer's previously proved state (its text is the subject of C14): records its arguments, arbitrary verdict
pub const TAU: u64 = 2;
pub static mut VTD_CALLS: usize = 0;
pub static mut VTD_ARGS: Option<(EpochNumberWithFraction, u32, U256, EpochNumberWithFraction, u32, U256, u64)> = None;
pub static mut VTD_OK: bool = true;
pub fn verify_total_difficulty(se: EpochNumberWithFraction, sc: u32, st: &U256, ee: EpochNumberWithFraction, ec: u32, et: &U256, tau: u64) -> Result<(), String> {
    unsafe { VTD_CALLS += 1; VTD_ARGS = Some((se, sc, *st, ee, ec, *et, tau)); if VTD_OK { Ok(()) } else { Err(String::new()) } }
}
include!("extracted.rs");
include!("../../prelude/status.rs");
impl fmt::Display for PeerState { fn fmt(&self, f: &mut fmt::Formatter) -> fmt::Result { Ok(()) } }
impl fmt::Display for LastState { fn fmt(&self, f: &mut fmt::Formatter) -> fmt::Result { Ok(()) } }
impl fmt::Display for ProveRequest { fn fmt(&self, f: &mut fmt::Formatter) -> fmt::Result { Ok(()) } }
impl fmt::Display for ProveState { fn fmt(&self, f: &mut fmt::Formatter) -> fmt::Result { Ok(()) } }

#[cfg(kani)]
mod harness {
    use super::*;
    fn any_vh() -> VerifiableHeader {
        let id: u8 = kani::any(); kani::assume(id < 4);
        let td: u64 = kani::any();
        VerifiableHeader { header: HeaderView { id, number: kani::any(), parent: kani::any(), diff: 0, ..Default::default() },
            uncles: 0, ext: None, root: HeaderDigest { td: U256(td), end_number: 0, id: 0 } }
    }
    fn any_ls() -> LastState { unsafe { NOW = kani::any(); } LastState::new(any_vh()) }
    fn any_req() -> ProveRequest { ProveRequest::new(any_ls(), packed::GetLastStateProof(kani::any())) }
    fn any_ps() -> ProveState { ProveState::new_from_request(any_req(), Vec::new(), Vec::new()) }
    fn any_state() -> PeerState {
        let t: u8 = kani::any(); kani::assume(t >= 1 && t <= 7);
        match t {
            1 => PeerState::Initialized,
            2 => PeerState::RequestFirstLastState { when_sent: kani::any() },
            3 => PeerState::OnlyHasLastState { last_state: any_ls() },
            4 => PeerState::RequestFirstLastStateProof { last_state: any_ls(), request: any_req(), when_sent: kani::any() },
            5 => PeerState::Ready { last_state: any_ls(), prove_state: any_ps() },
            6 => PeerState::RequestNewLastState { last_state: any_ls(), prove_state: any_ps(), when_sent: kani::any() },
            _ => PeerState::RequestNewLastStateProof { last_state: any_ls(), prove_state: any_ps(), request: any_req(), when_sent: kani::any() },
        }
    }
    fn hv(id: u8, number: u64, parent: u8) -> HeaderView { HeaderView { id, number, parent, ..Default::default() } }
    /// a proof WITH SAMPLES from a peer that already holds a proved state is accepted only if the total difficulty of the new last header is consistent with the
    /// previously proved one (verify_total_difficulty on exactly these two end points) - whatever else the response carries (reorg headers in particular)
    /// every header of the response has its PoW checked; the reorg section (if any) and the last-N section are each checked for continuity; a failure of any of
    /// them is the handler's answer
    #[cfg(pow_cont)] #[kani::proof] #[kani::unwind(7)]
    fn pow_and_continuity() {
        let r: usize = kani::any(); let sc: usize = kani::any(); let c: usize = kani::any();
        kani::assume(r <= 2 && sc <= 1 && c >= 1 && c <= 2 && r + sc + c <= 5);
        let total = r + sc + c;
        let mut hs = Vec::new(); let mut i = 0;
        while i < 5 { if i < total { let mut h = hv(i as u8 + 1, kani::any(), kani::any()); h.pow_ok = kani::any(); hs.push(h); } i += 1; }
        let mut req = any_req(); if kani::any() { req.skip_check_tau(); }
        unsafe { POW_SEEN = 0; POW_FIRST = None; TAU_FAILED = None; TAU_VERDICT = kani::any(); kani::assume(TAU_VERDICT < 3); CONT_CALLS = 0; CONT_BAD = kani::any(); }
        let p = SendLastStateProofProcess { peer_index: PeerIndex(0), protocol: Proto };
        let st = p.pow_cont(hs, r, sc, c, &req);
        unsafe {
            let mut all_pow = true; let mut i = 0; while i < 5 { if i < total && !hs.buf[i].pow_ok { all_pow = false; } i += 1; }
            assert!(POW_SEEN == total && POW_FIRST == Some(1), "SPEC proof handler: the PoW of EVERY header of the response (reorg, sampled and last-N sections) must be checked");
            if !all_pow { assert!(!st.is_ok() && CONT_CALLS == 0, "SPEC proof handler: a header without valid PoW was not rejected"); return; }
            let tau_err = !req.if_skip_check_tau() && sc != 0 && TAU_VERDICT == 2;
            if tau_err { assert!(!st.is_ok(), "SPEC proof handler: the error of verify_tau was dropped"); return; }
            // continuity: the reorg section [0, r) when present, then the last-N section [r + sc, total)
            let want_calls = if r != 0 { 2 } else { 1 };
            let bad = CONT_BAD < want_calls;
            if st.is_ok() {
                assert!(CONT_CALLS == want_calls && !bad, "SPEC proof handler: accepted without checking the continuity of the reorg section and of the last-N section");
                let last_sec = CONT[want_calls - 1];
                assert!(last_sec == (c, Some((r + sc) as u8 + 1), Some(total as u8)), "SPEC proof handler: the continuity check of the last-N section does not cover exactly the headers after the sampled ones");
                if r != 0 { assert!(CONT[0] == (r, Some(1), Some(r as u8)), "SPEC proof handler: the continuity check of the reorg section does not cover exactly the reorg headers"); }
                assert!(TAU_FAILED == Some(!req.if_skip_check_tau() && sc != 0 && TAU_VERDICT == 1), "SPEC proof handler: the tau verdict was not carried on");
            } else { assert!(bad, "SPEC proof handler: rejected although PoW, tau and continuity all pass"); }
            kani::cover!(st.is_ok() && r == 2 && sc == 1, "reorg + sampled + last-N accepted");
            kani::cover!(!st.is_ok() && CONT_BAD == 0 && r != 0 && sc != 0, "gap in the reorg section next to sampled headers rejected");
        }
    }
    #[cfg(td_gate)] #[kani::proof] #[kani::unwind(7)]
    fn td_gate_runs() {
        let r: usize = kani::any(); let s: usize = kani::any(); let c: usize = kani::any();
        kani::assume(r <= 2 && s <= 1 && c >= 1 && c <= 2 && r + s + c <= 5);
        let total = r + s + c;
        let mut hs = Vec::new(); let mut i = 0;
        while i < 5 { if i < total { hs.push(hv(kani::any(), kani::any(), kani::any())); } i += 1; }
        let peer_state = any_state();
        let mut last = any_vh(); last.header.epoch = EpochNumberWithFraction(kani::any()); last.header.compact_target = kani::any(); last.header.diff = kani::any();
        // the overflow guard of the handler ran before (unit slsp / O10.td-guard)
        kani::assume(last.root.td.0.checked_add(last.header.diff).is_some());
        if let Some(ps) = peer_state.get_prove_state() { let p = ps.get_last_header(); kani::assume(p.root.td.0.checked_add(p.header.diff).is_some()); }
        let req = any_req();
        unsafe { VTD_CALLS = 0; VTD_ARGS = None; VTD_OK = kani::any(); }
        let p = SendLastStateProofProcess { peer_index: PeerIndex(0), protocol: Proto };
        let st = p.td_gate(&hs[..], r, s, c, &peer_state, &last, &req);
        unsafe {
            match (s != 0, peer_state.get_prove_state()) {
                (true, Some(ps)) => {
                    let prev = ps.get_last_header();
                    assert!(VTD_CALLS >= 1, "SPEC total difficulty gate: a sampled proof from a peer with a proved state was accepted without checking its total difficulty against the proved state");
                    let a = VTD_ARGS.unwrap();
                    assert!(a.0 == prev.header.epoch && a.1 == prev.header.compact_target && a.2 == prev.total_difficulty() && a.3 == last.header.epoch && a.4 == last.header.compact_target && a.5 == last.total_difficulty() && a.6 == 2,
                            "SPEC total difficulty gate: verify_total_difficulty was not called with (previously proved last header, new last header, TAU)");
                    assert!(st.is_ok() == VTD_OK, "SPEC total difficulty gate: the verdict of verify_total_difficulty was not honoured");
                    if !VTD_OK { assert!(st.code() == StatusCode::InvalidTotalDifficulty, "SPEC total difficulty gate: wrong status for an inconsistent total difficulty"); }
                    kani::cover!(r > 0 && !VTD_OK, "inconsistent total difficulty next to reorg headers rejected");
                }
                _ => { assert!(st.is_ok(), "SPEC total difficulty gate: rejected although there is nothing to compare with"); }
            }
        }
    }
    #[cfg(not(any(td_gate, pow_cont)))] #[kani::proof] #[kani::unwind(7)]
    fn select_last_headers() {
        let n_blocks: usize = kani::any(); kani::assume(n_blocks >= 1 && n_blocks <= 3);
        let r: usize = kani::any(); let s: usize = kani::any(); let c: usize = kani::any();
        kani::assume(r <= 2 && s <= 1 && c >= 1 && c <= 4 && r + s + c <= 5);
        // what check_if_response_is_matched guarantees for the accepted shape: samples only together with a full last-N section
        kani::assume(s == 0 || c >= n_blocks);
        let total = r + s + c;
        let mut hs = Vec::new(); let mut i = 0;
        while i < 5 { if i < total { hs.push(hv(kani::any(), kani::any(), kani::any())); } i += 1; }
        // the previous prove state (if any) remembers <= 2 headers
        let has_prev: bool = kani::any();
        let nold: usize = kani::any(); kani::assume(nold <= 2);
        let mut old = Vec::new(); let mut i = 0; while i < 2 { if i < nold { old.push(hv(kani::any(), kani::any(), kani::any())); } i += 1; }
        let peer_state = if has_prev { PeerState::Ready { last_state: any_ls(), prove_state: ProveState::new_from_request(any_req(), Vec::new(), old) } } else { PeerState::OnlyHasLastState { last_state: any_ls() } };
        let req = any_req();
        let p = SendLastStateProofProcess { peer_index: PeerIndex(0), protocol: Proto };
        unsafe { OUT = None; }
        let st = p.select(&hs[..], r, s, c, n_blocks, &peer_state, &req);
        if !st.is_ok() {
            assert!(!has_prev && r > 0 && c < n_blocks, "SPEC last-N selection: an accepted proof shape was rejected while selecting the remembered headers");
            return;
        }
        let (reorg, last) = unsafe { OUT.unwrap() };
        assert!(reorg.len == r, "SPEC last-N selection: the remembered reorg headers are not the reorg section of the proof");
        let mut i = 0; while i < 2 { if i < r { assert!(reorg.buf[i] == hs.buf[i], "SPEC last-N selection: the remembered reorg headers are not the reorg section of the proof"); } i += 1; }
        // reference: the remembered headers END with the last min(c, N) headers of the proof, in order
        let keep = if c < n_blocks { c } else { n_blocks };
        assert!(last.len >= keep && last.len <= n_blocks, "SPEC last-N selection: wrong number of remembered headers (must hold the last min(count, N) headers of the proof and never more than N)");
        let mut i = 0; while i < 3 { if i < keep { assert!(last.buf[last.len - 1 - i] == hs.buf[total - 1 - i], "SPEC last-N selection: the remembered headers do not end with the last headers of the proof (a later fork within last-N would look like a long fork)"); } i += 1; }
        // and are completed from the older remembered / reorg headers when the proof carries fewer than N
        if c < n_blocks {
            let need = n_blocks - c;
            let (src_len, from_reorg) = if has_prev && r == 0 { (nold, false) } else { (r, true) };
            let take = if src_len < need { src_len } else { need };
            assert!(last.len == take + c, "SPEC last-N selection: fewer than N headers are remembered although older proven headers are available");
            let mut i = 0; while i < 2 { if i < take { let want = if from_reorg { hs.buf[r - take + i] } else { old.buf[nold - take + i] }; assert!(last.buf[i] == want, "SPEC last-N selection: the older part of the remembered headers is not the tail of the previously remembered / reorg headers"); } i += 1; }
        } else { assert!(last.len == n_blocks, "SPEC last-N selection: a proof with at least N last headers must leave exactly N remembered"); }
        kani::cover!(c > n_blocks, "more than N last headers");
        kani::cover!(c < n_blocks && has_prev && r == 0 && nold == 2, "completed from the previous prove state");
        kani::cover!(c < n_blocks && r == 2, "completed from the reorg headers");
    }
}
