// K-model unit `lbfh`: real text of LatestBlockFilterHashes (peers.rs): update_latest_block_filter_hashes and helpers.
#![allow(unused, dead_code, unused_mut, static_mut_refs, non_snake_case)]
use std::{fmt, mem};
pub const CAP: usize = 6;
#[macro_use] #[path = "../../prelude/macros.rs"] mod pmacros;
include!("../../prelude/vec.rs");
include!("../../prelude/u256.rs");
include!("../../prelude/epoch.rs");
include!("../../prelude/lc_types.rs");
include!("../../prelude/status.rs");
pub mod packed { pub use super::Byte32; }

include!("extracted.rs");

#[cfg(kani)]
mod harness {
    use super::*;
    fn hashes<const N: usize>() -> (Vec<Byte32>, usize) {
        let n: usize = kani::any(); kani::assume(n <= N);
        let mut v = Vec::new(); let mut i = 0;
        while i < N { if i < n { v.push(Byte32(kani::any())); } i += 1; }
        (v, n)
    }
    fn update<const N: usize>() {
        let cp: u64 = kani::any(); kani::assume(cp < (1u64 << 40));   // interval * finalized index: local state, not peer-supplied
        let (stored, len) = hashes::<N>();
        let mut l = LatestBlockFilterHashes { check_point_number: cp, inner: stored };
        let last_proved: u64 = kani::any(); kani::assume(last_proved < (1u64 << 63));   // number of a PROVEN header
        let fin: u64 = kani::any(); let fin_cp = Byte32(kani::any());
        let start: u64 = kani::any(); let parent = Byte32(kani::any());
        let (msg, k) = hashes::<N>();
        let r = l.update_latest_block_filter_hashes(last_proved, fin, &fin_cp, start, &parent, &msg[..]);
        // S(n): stored hash of block n, for cp < n <= cp+len ; M(n): message hash of block n, for start <= n < start+k
        match r {
            Ok(next) => {
                assert!(k > 0 && fin == cp && fin < last_proved, "SPEC latest hashes: accepted with no hashes / another check point / not below the proven number");
                assert!(start <= last_proved && start <= cp + len as u64 + 1, "SPEC latest hashes: accepted a batch that neither overlaps nor directly continues the stored hashes");
                let end = start + k as u64 - 1;
                assert!(end > fin, "SPEC latest hashes: accepted a batch entirely at or below the finalized check point");
                let end_cut = if end > last_proved { last_proved } else { end };
                // tie to the finalized check point
                if start <= fin { assert!(msg.buf[(fin - start) as usize] == fin_cp, "SPEC latest hashes: the finalized check point is not matched inside the message"); }
                else if start == fin + 1 { assert!(parent == fin_cp, "SPEC latest hashes: the parent hash is not the finalized check point"); }
                else { assert!(stored.buf[(start - cp - 2) as usize] == parent, "SPEC latest hashes: the parent hash is not the stored hash of the previous block"); }
                // result: old hashes untouched, overlap agrees, only the non-overlapping tail (cut at the proven number) appended
                let new_last = if cp + len as u64 > end_cut { cp + len as u64 } else { end_cut };
                assert!(l.inner.len as u64 == new_last - cp, "SPEC latest hashes: wrong number of hashes appended");
                let mut i = 0;
                while i < CAP {
                    if i < l.inner.len {
                        let n = cp + 1 + i as u64;
                        if i < len { assert!(l.inner.buf[i] == stored.buf[i], "SPEC latest hashes: a stored hash was rewritten");
                            if n >= start && n <= end_cut { assert!(msg.buf[(n - start) as usize] == stored.buf[i], "SPEC latest hashes: accepted although an overlapping position disagrees"); } }
                        else { assert!(n >= start && n <= end_cut && l.inner.buf[i] == msg.buf[(n - start) as usize], "SPEC latest hashes: appended hash is not the message's hash of that block"); }
                    }
                    i += 1;
                }
                match next { Some(x) => assert!(x == end_cut + 1 && end_cut < last_proved, "SPEC latest hashes: wrong continuation number"), None => assert!(end_cut >= last_proved, "SPEC latest hashes: continuation missing") }
                kani::cover!(l.inner.len == len + 2, "two hashes appended");
                kani::cover!(start <= fin && len > 0, "overlap with the check point inside the message");
            }
            Err(_) => {
                assert!(l.inner == stored && l.check_point_number == cp, "SPEC latest hashes: a rejected message changed the stored hashes");
                kani::cover!(k > 0 && fin == cp, "a plausible batch rejected");
            }
        }
    }
    #[kani::proof] #[kani::unwind(8)] fn update_q() { update::<3>(); }
    #[kani::proof] #[kani::unwind(9)] fn update_t() { update::<4>(); }
}
