// K-model unit `proofs`: real text of BlocksProofRequest::check_block_hashes, TransactionsProofRequest::check_tx_hashes,
// verify_extra_hash, Peer::add_block / Peers::add_block / BlocksRequest (peers.rs, send_blocks_proof.rs).
#![allow(unused, dead_code, unused_mut, static_mut_refs, non_snake_case)]
use std::{fmt, mem};
pub const CAP: usize = 3;
pub const MAP_CAP: usize = 6;
#[macro_use] #[path = "../../prelude/macros.rs"] mod pmacros;
include!("../../prelude/vec.rs");
include!("../../prelude/hashmap.rs");
include!("../../prelude/u256.rs");
include!("../../prelude/epoch.rs");
include!("../../prelude/lc_types.rs");
include!("../../prelude/uf.rs");
include!("../../prelude/status.rs");
pub static mut H_EXT: Uf = Uf::new();
pub static mut H_EXTRA: Uf = Uf::new();
impl PBytes { pub fn calc_raw_data_hash(&self) -> Byte32 { unsafe { Byte32(H_EXT.apply(self.key())) } } }
pub struct ExtraHashView { u: Byte32, e: Option<Byte32> }
impl ExtraHashView {
    pub fn new(u: Byte32, e: Option<Byte32>) -> Self { ExtraHashView { u, e } }
    pub fn extra_hash(&self) -> Byte32 { unsafe { Byte32(H_EXTRA.apply(((self.u.0 as u64) << 16) | match self.e { None => 0, Some(b) => 0x100 | b.0 as u64 })) } }
}
impl<'a> Default for &'a Byte32 { fn default() -> Self { &Byte32(0) } }
pub mod packed {
    use super::*;
    pub use super::Byte32;
    pub type Bytes = PBytes;
    #[derive(Clone, Copy, Default)] pub struct Byte32Vec(pub Vec<Byte32>);
    impl Byte32Vec { pub fn len(&self) -> usize { self.0.len } pub fn into_iter(self) -> VecIntoIter<Byte32> { self.0.into_iter() } }
    #[derive(Clone, Copy, Default)] pub struct GetBlocksProof { pub hashes: Vec<Byte32>, pub last: Byte32 }
    impl GetBlocksProof { pub fn block_hashes(&self) -> Byte32Vec { Byte32Vec(self.hashes) } pub fn last_hash(&self) -> Byte32 { self.last } }
    #[derive(Clone, Copy, Default)] pub struct GetTransactionsProof { pub hashes: Vec<Byte32>, pub last: Byte32 }
    impl GetTransactionsProof { pub fn tx_hashes(&self) -> Byte32Vec { Byte32Vec(self.hashes) } pub fn last_hash(&self) -> Byte32 { self.last } }
    /// a downloaded block: identified by its header hash and a body identifier
    #[derive(Clone, Copy, Default, PartialEq, Eq, Debug)] pub struct Block { pub hdr: u8, pub body: u8 }
    impl Block { pub fn header(&self) -> PHeader { PHeader(HeaderView { id: self.hdr, ..Default::default() }) } }
}
pub struct DashRefMut<'a> { v: &'a mut Peer }
impl<'a> DashRefMut<'a> { pub fn value_mut(&mut self) -> &mut Peer { self.v } }
pub struct DashMap { pub peers: std::cell::UnsafeCell<[Peer; 2]>, pub n: usize }
impl DashMap { pub fn iter_mut(&self) -> impl Iterator<Item = DashRefMut<'_>> { let n = self.n; unsafe { (&mut *self.peers.get())[..n].iter_mut().map(|v| DashRefMut { v }) } } }
pub struct Peers { pub inner: DashMap }
#[derive(Clone, Default)]
pub struct Peer { pub blocks_request: Option<BlocksRequest> }

include!("extracted.rs");

#[cfg(kani)]
mod harness {
    use super::*;
    fn ids<const N: usize>(max: u8) -> (Vec<Byte32>, usize) {
        let n: usize = kani::any(); kani::assume(n <= N);
        let mut v = Vec::new(); let mut i = 0;
        while i < CAP { if i < n { let x: u8 = kani::any(); kani::assume(x < max); v.push(Byte32(x)); } i += 1; }
        (v, n)
    }
    fn count(v: &Vec<Byte32>, x: u8) -> usize { let mut c = 0; let mut i = 0; while i < CAP { if i < v.len && v.buf[i].0 == x { c += 1; } i += 1; } c }

    #[kani::proof] #[kani::unwind(8)]
    fn hashes_match() {
        let (req, nr) = ids::<3>(4); let (rec, nrec) = ids::<3>(4); let (mis, nmis) = ids::<3>(4);
        // requested hashes are the keys of a DashMap: distinct
        kani::assume(count(&req, 0) <= 1 && count(&req, 1) <= 1 && count(&req, 2) <= 1 && count(&req, 3) <= 1);
        let which: bool = kani::any();
        let got = if which {
            BlocksProofRequest::new(packed::GetBlocksProof { hashes: req, last: Byte32(0) }, 0, false).check_block_hashes(&rec[..], &mis[..])
        } else {
            TransactionsProofRequest::new(packed::GetTransactionsProof { hashes: req, last: Byte32(0) }, 0).check_tx_hashes(&rec[..], &mis[..])
        };
        // specification: received (+) missing is a permutation of the request
        let mut want = true; let mut x = 0u8;
        while x < 4 { if count(&rec, x) + count(&mis, x) != count(&req, x) { want = false; } x += 1; }
        assert!(got == want, "SPEC request match: accepted iff received + missing is exactly the requested set");
        kani::cover!(got && nr == 3 && nmis == 1, "a full answer accepted");
        kani::cover!(!got && nr == nrec + nmis, "same count, wrong members rejected");
    }

    #[kani::proof] #[kani::unwind(8)]
    fn extra_hash() {
        let n: usize = kani::any(); kani::assume(n <= 3);
        let nu: usize = kani::any(); kani::assume(nu <= 3);
        let ne: usize = kani::any(); kani::assume(ne <= 3);
        let mut hs = [HeaderView::default(); 3]; let mut us = [Byte32(0); 3]; let mut es: [Option<PBytes>; 3] = [None; 3];
        let mut i = 0;
        while i < 3 { hs[i].extra_hash = kani::any(); us[i] = Byte32(kani::any()); let e: Option<u8> = kani::any(); es[i] = e.map(|x| PBytes::of(x % 3, kani::any(), kani::any())); i += 1; }
        let r = verify_extra_hash(&hs[..n], &us[..nu], &es[..ne]);
        if r.is_ok() {
            assert!(n == nu && n == ne, "SPEC extra hash: accepted with mismatched lengths");
            let mut i = 0;
            while i < 3 { if i < n { let want = ExtraHashView::new(us[i], es[i].map(|e| e.calc_raw_data_hash())).extra_hash(); assert!(want.0 == hs[i].extra_hash, "SPEC extra hash: a header whose extra hash does not commit to the given uncles hash / extension was accepted"); } i += 1; }
            kani::cover!(n == 3, "three headers accepted");
        } else { kani::cover!(n == nu && n == ne && n > 0, "same lengths rejected"); }
    }

    #[kani::proof] #[kani::unwind(8)]
    fn add_block() {
        // in-memory matched blocks: <=3 entries (hash -> (proved, downloaded?))
        let mut mb: HashMap<H256, (bool, Option<packed::Block>)> = HashMap::new();
        let n: usize = kani::any(); kani::assume(n <= 3);
        let mut i = 0;
        while i < 3 { if i < n { let h: u8 = kani::any(); kani::assume(h < 4); let have: bool = kani::any(); mb.insert(H256(h), (kani::any(), if have { Some(packed::Block { hdr: h, body: 0 }) } else { None })); } i += 1; }
        let mb0 = mb;
        // two peers with outstanding GetBlocks requests
        let mut ps = [Peer::default(), Peer::default()];
        let mut p = 0;
        while p < 2 { if kani::any() { let (hs, _) = ids::<3>(4); ps[p].blocks_request = Some(BlocksRequest::new(hs, 0)); } p += 1; }
        let peers = Peers { inner: DashMap { peers: std::cell::UnsafeCell::new(ps), n: 2 } };
        let blk = packed::Block { hdr: kani::any(), body: kani::any() };
        kani::assume(blk.hdr < 4 && blk.body != 0);
        let r = peers.add_block(&mut mb, blk);
        let key = H256(blk.hdr);
        match mb0.get(&key) {
            None => { assert!(r.is_none(), "SPEC add_block: unknown block must be ignored"); }
            Some((proved, _)) => { assert!(r == Some(*proved), "SPEC add_block: result is not the proved flag"); }
        }
        let mut i = 0;
        while i < 3 {
            if i < mb.len {
                let k = mb.keys[i]; let v = mb.vals[i]; let v0 = mb0.get(&k);
                assert!(v0.is_some(), "SPEC add_block: an entry appeared");
                let v0 = v0.unwrap();
                assert!(v.0 == v0.0, "SPEC add_block: proved flag changed");
                if k == key && v0.0 { assert!(v.1 == Some(blk), "SPEC add_block: body not stored for a proved matched block"); }
                else { assert!(v.1 == v0.1, "SPEC add_block: a body was stored under a key that is not proved / not this block"); }
            }
            i += 1;
        }
        assert!(mb.len == mb0.len, "SPEC add_block: entries removed");
        kani::cover!(r == Some(true), "body stored");
        kani::cover!(r == Some(false), "unproved block not stored");
    }
}
