// prelude/uf.rs has no real counterpart (it stands for hash functions / proof checks).  What the proofs rely on is only
// that `apply` is a FUNCTION of its argument; natively that is checked against a std HashMap used as the memo table.
use crate::model::{Uf, UF_CAP};
use crate::util::Rng;
#[test]
fn uf_is_a_function_of_its_argument() {
    let mut g = Rng::new(0x0F0F_0001);
    for _ in 0..3000 {
        let mut uf = Uf::new();
        let mut memo: std::collections::HashMap<u64, u8> = std::collections::HashMap::new();
        for _ in 0..1 + g.below(12) {
            let key = if g.coin() { g.below(UF_CAP as u64) } else { (g.below(UF_CAP as u64) << 40) | 7 };
            if !memo.contains_key(&key) && memo.len() == UF_CAP { continue; }
            let v = uf.apply(key);
            assert_eq!(*memo.entry(key).or_insert(v), v, "Uf::apply({key}) changed its answer");
            assert_eq!(uf.n, memo.len());
        }
    }
}
