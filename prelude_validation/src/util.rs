// Deterministic pseudo-random driver and the "both panic or both don't" helper.
use std::panic::{catch_unwind, AssertUnwindSafe};
use std::sync::Once;

/// xorshift64* seeded by a constant: the runs are reproducible and need no external crate
pub struct Rng(u64);
impl Rng {
    pub fn new(seed: u64) -> Self { Rng(seed.wrapping_mul(0x9E37_79B9_7F4A_7C15) | 1) }
    pub fn next(&mut self) -> u64 {
        let mut x = self.0;
        x ^= x >> 12; x ^= x << 25; x ^= x >> 27;
        self.0 = x;
        x.wrapping_mul(0x2545_F491_4F6C_DD1D)
    }
    /// uniform-enough value in 0..n (n > 0)
    pub fn below(&mut self, n: u64) -> u64 { (self.next() >> 11) % n }
    pub fn coin(&mut self) -> bool { self.below(2) == 1 }
}

/// Outcome of an operation that may panic: the value, or the panic message.
#[derive(Debug, Clone, PartialEq, Eq)]
pub enum Outcome<T> { Value(T), Panic(String) }
impl<T> Outcome<T> {
    pub fn panicked(&self) -> bool { matches!(self, Outcome::Panic(_)) }
}

static HOOK: Once = Once::new();
thread_local! { static SILENT: std::cell::Cell<bool> = const { std::cell::Cell::new(false) }; }

/// Runs `f`, catching a panic.  The panic hook stays silent for panics raised inside `attempt` on this thread only, so a
/// genuine assertion failure of a test (outside `attempt`) is still printed.
pub fn attempt<T>(f: impl FnOnce() -> T) -> Outcome<T> {
    HOOK.call_once(|| {
        let prev = std::panic::take_hook();
        std::panic::set_hook(Box::new(move |info| { if !SILENT.with(|s| s.get()) { prev(info); } }));
    });
    SILENT.with(|s| s.set(true));
    let r = catch_unwind(AssertUnwindSafe(f));
    SILENT.with(|s| s.set(false));
    match r {
        Ok(v) => Outcome::Value(v),
        Err(p) => Outcome::Panic(
            if let Some(s) = p.downcast_ref::<&'static str>() { s.to_string() }
            else if let Some(s) = p.downcast_ref::<String>() { s.clone() }
            else { "<non-string panic payload>".to_string() }),
    }
}

/// A model panic that stands for a REAL panic must not be a model-capacity panic: the drivers never exceed the capacity,
/// and a capacity assertion must never be mistaken for agreement with a panicking real operation.
pub fn assert_not_capacity_panic<T>(o: &Outcome<T>, ctx: &str) {
    if let Outcome::Panic(m) = o {
        assert!(!m.contains("capacity") && !m.contains("MODEL-BOUND"), "{ctx}: the MODEL hit its capacity bound: {m}");
    }
}

/// `model` and `real` both panicked or both returned; returns the two values when they returned.
pub fn same_panic_behaviour<A, B>(model: Outcome<A>, real: Outcome<B>, ctx: &str) -> Option<(A, B)> {
    assert_not_capacity_panic(&model, ctx);
    match (model, real) {
        (Outcome::Value(a), Outcome::Value(b)) => Some((a, b)),
        (Outcome::Panic(_), Outcome::Panic(_)) => None,
        (Outcome::Panic(m), Outcome::Value(_)) => panic!("DISAGREEMENT {ctx}: the model panics ({m}), the real type does not"),
        (Outcome::Value(_), Outcome::Panic(m)) => panic!("DISAGREEMENT {ctx}: the real type panics ({m}), the model does not"),
    }
}
