// The MODEL side: the prelude files are textually included from ../kani_model/prelude (always the current text), with the
// capacity constants an includer has to define.  The prelude's `vec!` / `format!` / logging macros shadow std's from the
// `pmacros` line to the end of THIS file only (textual macro scope), so everything that exercises the model `vec!` lives in
// the child module at the bottom; the other test modules see std's macros.
#![allow(unused, dead_code, unused_mut, non_snake_case)]
pub const CAP: usize = 8;
pub const MAP_CAP: usize = 8;
pub const DM_CAP: usize = 8;
pub const LHM_CAP: usize = 8;
#[macro_use]
#[path = "../../kani_model/prelude/macros.rs"]
mod pmacros;
include!("../../kani_model/prelude/vec.rs");
include!("../../kani_model/prelude/hashmap.rs");
include!("../../kani_model/prelude/dashmap.rs");
include!("../../kani_model/prelude/u256.rs");
include!("../../kani_model/prelude/epoch.rs");
include!("../../kani_model/prelude/uf.rs");
// LinkedHashMap model, cut out of ../kani_model/pending/src/lib.rs by build.rs
#[cfg(has_lhm_model)]
include!(concat!(env!("OUT_DIR"), "/lhm_model.rs"));

/// the model `vec!` macro (macros.rs) against `std::vec!`
mod vec_macro {
    use super::Vec;
    use crate::util::Rng;
    #[test]
    fn vec_macro_agrees_with_std() {
        let e: Vec<u8> = vec![];
        let r: std::vec::Vec<u8> = std::vec![];
        assert_eq!(&e[..], &r[..]);
        let mut rng = Rng::new(0x5EED_0001);
        let mut n_cases = 0u32;
        for _ in 0..2000 {
            let (a, b, c, d) = (rng.below(6) as u8, rng.below(6) as u8, rng.below(6) as u8, rng.below(6) as u8);
            let n = rng.below(super::CAP as u64 + 1) as usize;
            // vec![e; n]: the element expression is evaluated for every element in the model and cloned in std;
            // the two agree for the side-effect-free element expressions the extracted sources use
            let m: Vec<u8> = vec![a; n];
            let r: std::vec::Vec<u8> = std::vec![a; n];
            assert_eq!(&m[..], &r[..], "vec![{a}; {n}]");
            let m: Vec<u8> = vec![a];
            assert_eq!(&m[..], &std::vec![a][..]);
            let m: Vec<u8> = vec![a, b, c, d];
            assert_eq!(&m[..], &std::vec![a, b, c, d][..]);
            let m: Vec<(u8, u8)> = vec![(a, b), (c, d),];
            assert_eq!(&m[..], &std::vec![(a, b), (c, d),][..]);
            n_cases += 4;
        }
        assert!(n_cases >= 8000);
    }
}
