//! Native differential validation of the Kani model prelude ("the Serval way").
//!
//! Every model type of `../kani_model/prelude` (and the LinkedHashMap model of the `pending` unit) is driven by
//! deterministic pseudo-random operation sequences side by side with the REAL type it stands for; every return value and the
//! whole observable state are compared after every step, and panicking operations must panic on both sides or on neither.
//! The prelude files are `include!`d by relative path (src/model.rs), so it is always the current text that is tested.
//!
//!   cd /verif/prelude_validation && RUSTUP_TOOLCHAIN=nightly-2026-08-21 cargo test --offline --target-dir /verif/.cache/pv-target
#![allow(unknown_lints, unexpected_cfgs)]
#[cfg(test)] mod util;
#[cfg(test)] mod model;
#[cfg(test)] mod t_vec;
#[cfg(test)] mod t_maps;
#[cfg(test)] mod t_u256;
#[cfg(test)] mod t_epoch;
#[cfg(test)] mod t_lhm;
#[cfg(test)] mod t_uf;
