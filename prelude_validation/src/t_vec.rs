// model Vec (prelude/vec.rs, array-backed, CAP = 8) against std::vec::Vec.
use crate::model::{self, CAP};
use crate::util::{attempt, same_panic_behaviour, Rng};
use std::fmt::Debug;

type MVec<T> = model::Vec<T>;
type RVec<T> = std::vec::Vec<T>;

/// everything observable through `&self`, compared after every step
fn observe<T: Copy + Default + Ord + Debug>(m: &MVec<T>, r: &RVec<T>, probe: T, trace: &str) {
    assert_eq!(m.len(), r.len(), "len after {trace}");
    assert_eq!(m.is_empty(), r.is_empty(), "is_empty after {trace}");
    assert_eq!(&m[..], &r[..], "contents (Deref) after {trace}");
    assert_eq!(m.first(), r.first(), "first after {trace}");
    assert_eq!(m.last(), r.last(), "last after {trace}");
    assert_eq!(m.contains(&probe), r.contains(&probe), "contains({probe:?}) after {trace}");
    for i in 0..CAP + 2 { assert_eq!(m.get(i), r.get(i), "get({i}) after {trace}"); }
    // the three IntoIterator forms and .iter()
    let mut by_ref: RVec<T> = RVec::new();
    for x in m { by_ref.push(*x); }
    assert_eq!(by_ref, *r, "`for x in &v` after {trace}");
    let owned: RVec<T> = (*m).into_iter().collect();
    assert_eq!(owned, r.clone().into_iter().collect::<RVec<T>>(), "into_iter after {trace}");
    assert_eq!(m.iter().rev().copied().collect::<RVec<T>>(), r.iter().rev().copied().collect::<RVec<T>>(), "iter().rev() after {trace}");
    assert_eq!(m.iter().position(|x| *x == probe), r.iter().position(|x| *x == probe), "position after {trace}");
}

fn drive<T: Copy + Default + Ord + Debug>(seed: u64, sequences: usize, gen: fn(&mut Rng) -> T, key: fn(&T) -> u8, bump: fn(T) -> T) -> usize {
    let mut rng = Rng::new(seed);
    let mut steps = 0usize;
    for s in 0..sequences {
        let (mut m, mut r): (MVec<T>, RVec<T>) = match rng.below(3) {
            0 => (MVec::new(), RVec::new()),
            1 => { let n = rng.below(20) as usize; (MVec::with_capacity(n), RVec::with_capacity(n)) }
            _ => (MVec::default(), RVec::default()),
        };
        // a second vector for `==`: a copy taken at some earlier point
        let (mut m2, mut r2): (MVec<T>, RVec<T>) = (MVec::new(), RVec::new());
        let mut trace = format!("sequence #{s} (seed {seed:#x}): new");
        // start from a non-empty vector half of the time
        if rng.coin() { let n = rng.below(CAP as u64 + 1); for _ in 0..n { let t = gen(&mut rng); m.push(t); r.push(t); trace += &format!("; push({t:?})"); } }
        let len = 1 + rng.below(12);
        for _ in 0..len {
            steps += 1;
            match rng.below(25) {
                0 | 1 | 2 => if r.len() < CAP { let t = gen(&mut rng); trace += &format!("; push({t:?})"); m.push(t); r.push(t); },
                3 => { trace += "; pop()"; assert_eq!(m.pop(), r.pop(), "pop result, {trace}"); }
                4 => if rng.below(4) == 0 { trace += "; clear()"; m.clear(); r.clear(); },
                5 | 6 => {
                    let idx = rng.below(r.len() as u64 + 2) as usize;
                    trace += &format!("; remove({idx})");
                    let (a, b) = (attempt(|| m.remove(idx)), attempt(|| r.remove(idx)));
                    if let Some((a, b)) = same_panic_behaviour(a, b, &trace) { assert_eq!(a, b, "remove result, {trace}"); }
                }
                7 => {
                    let room = CAP - r.len();
                    let n = rng.below(room.min(3) as u64 + 1) as usize;
                    let s: RVec<T> = (0..n).map(|_| gen(&mut rng)).collect();
                    trace += &format!("; extend_from_slice({s:?})");
                    m.extend_from_slice(&s); r.extend_from_slice(&s);
                }
                8 => {
                    let room = CAP - r.len();
                    let n = rng.below(room.min(3) as u64 + 1) as usize;
                    let s: RVec<T> = (0..n).map(|_| gen(&mut rng)).collect();
                    trace += &format!("; extend({s:?})");
                    // once from a std iterator, once from a model vector (both occur in the extracted sources)
                    if rng.coin() { m.extend(s.iter().copied()); } else { let ms: MVec<T> = s.iter().copied().collect(); m.extend(ms); }
                    r.extend(s.iter().copied());
                }
                9 => {
                    trace += "; to_vec/to_owned/clone/into_boxed_slice";
                    assert_eq!(&m.to_vec()[..], &r.to_vec()[..], "to_vec, {trace}");
                    assert_eq!(&m.to_owned()[..], &r.to_owned()[..], "to_owned, {trace}");
                    assert_eq!(&m.clone()[..], &r.clone()[..], "clone, {trace}");
                    assert_eq!(&m.into_boxed_slice()[..], &r.clone().into_boxed_slice()[..], "into_boxed_slice, {trace}");
                }
                10 | 11 => {
                    let n = rng.below(r.len() as u64 + 2) as usize;
                    trace += &format!("; drain(..{n})");
                    let (a, b) = (attempt(|| { m.drain(..n); }), attempt(|| { r.drain(..n); }));
                    same_panic_behaviour(a, b, &trace);
                }
                12 | 13 => {
                    // ..=n is in range iff n < len; usize::MAX is the end+1 overflow corner
                    let n = if rng.below(40) == 0 { usize::MAX } else { rng.below(r.len() as u64 + 1) as usize };
                    trace += &format!("; drain(..={n})");
                    let (a, b) = (attempt(|| { m.drain(..=n); }), attempt(|| { r.drain(..=n); }));
                    same_panic_behaviour(a, b, &trace);
                }
                14 | 15 => {
                    let at = rng.below(r.len() as u64 + 2) as usize;
                    trace += &format!("; split_off({at})");
                    let (a, b) = (attempt(|| m.split_off(at)), attempt(|| r.split_off(at)));
                    if let Some((a, b)) = same_panic_behaviour(a, b, &trace) {
                        assert_eq!(&a[..], &b[..], "split_off result, {trace}");
                        assert_eq!(a.len(), b.len(), "split_off result len, {trace}");
                        if rng.coin() { m2 = a; r2 = b; }
                    }
                }
                16 => {
                    let k = rng.below(7) as u8;
                    let parity = rng.coin();
                    trace += &format!("; retain(key < {k} || key odd == {parity})");
                    let (mut seen_m, mut seen_r): (RVec<T>, RVec<T>) = (RVec::new(), RVec::new());
                    m.retain(|x| { seen_m.push(*x); key(x) < k || (key(x) % 2 == 1) == parity });
                    r.retain(|x| { seen_r.push(*x); key(x) < k || (key(x) % 2 == 1) == parity });
                    assert_eq!(seen_m, seen_r, "elements offered to the retain predicate (order, each once), {trace}");
                }
                22 => { trace += "; dedup()"; m.dedup(); r.dedup(); }
                23 => { let n = rng.below(r.len() as u64 + 2) as usize; trace += &format!("; truncate({n})"); m.truncate(n); r.truncate(n); }
                24 => if r.len() < CAP {
                    let idx = rng.below(r.len() as u64 + 2) as usize; let t = gen(&mut rng);
                    trace += &format!("; insert({idx}, {t:?})");
                    let (a, b) = (attempt(|| m.insert(idx, t)), attempt(|| r.insert(idx, t)));
                    same_panic_behaviour(a, b, &trace);
                },
                17 => { trace += "; sort()"; m.sort(); r.sort(); }
                18 => {
                    // stability is observable through the second component
                    trace += "; sort_by_key(key)";
                    m.sort_by_key(|x| key(x)); r.sort_by_key(|x| key(x));
                }
                19 => {
                    trace += "; sort_by_key(Reverse(key))";
                    m.sort_by_key(|x| std::cmp::Reverse(key(x))); r.sort_by_key(|x| std::cmp::Reverse(key(x)));
                }
                20 => {
                    // DerefMut: indexed store, iter_mut, `for x in &mut v`, slice methods
                    if !r.is_empty() {
                        let i = rng.below(r.len() as u64) as usize; let t = gen(&mut rng);
                        trace += &format!("; v[{i}] = {t:?}");
                        m[i] = t; r[i] = t;
                    }
                    match rng.below(4) {
                        0 => { trace += "; iter_mut bump"; for x in m.iter_mut() { *x = bump(*x); } for x in r.iter_mut() { *x = bump(*x); } }
                        1 => { trace += "; for x in &mut v bump"; for x in &mut m { *x = bump(*x); } for x in &mut r { *x = bump(*x); } }
                        2 => { trace += "; reverse()"; m.reverse(); r.reverse(); }
                        _ => {}
                    }
                }
                _ => {
                    // FromIterator / a copy for the equality check
                    if rng.coin() {
                        let n = rng.below(CAP as u64 + 1) as usize;
                        let s: RVec<T> = (0..n).map(|_| gen(&mut rng)).collect();
                        trace += &format!("; = collect({s:?})");
                        m = s.iter().copied().collect(); r = s.iter().copied().collect();
                    } else if rng.coin() {
                        trace += "; v2 = v";
                        m2 = m; r2 = r.clone();
                    } else {
                        // same contents, but a fresh buffer (no stale slots beyond len)
                        trace += "; v2 = v.iter().collect()";
                        m2 = m.iter().copied().collect(); r2 = r.iter().copied().collect();
                    }
                }
            }
            let probe = gen(&mut rng);
            observe(&m, &r, probe, &trace);
            assert_eq!(&m2[..], &r2[..], "second vector, {trace}");
            assert_eq!(m == m2, r == r2, "v == v2, {trace}");
            assert_eq!(m != m2, r != r2, "v != v2, {trace}");
            assert_eq!(m2 == m, r2 == r, "v2 == v, {trace}");
        }
    }
    steps
}

#[test]
fn vec_u8() {
    let steps = drive::<u8>(0xC0FF_EE01, 6000, |g| g.below(6) as u8, |x| *x, |x| (x + 1) % 6);
    println!("vec_u8: 6000 sequences, {steps} compared steps");
}

/// (key, tag): `sort_by_key` on the key makes (in)stability visible through the tag
#[test]
fn vec_pairs_sort_stability() {
    let steps = drive::<(u8, u8)>(0xC0FF_EE02, 6000, |g| (g.below(4) as u8, g.below(4) as u8), |x| x.0, |x| ((x.0 + 1) % 4, x.1));
    println!("vec_pairs: 6000 sequences, {steps} compared steps");
}

/// the panicking operations at and just beyond every boundary, exhaustively for every length 0..=CAP
#[test]
fn vec_panic_boundaries_exhaustive() {
    let mut cases = 0;
    for len in 0..=CAP {
        let base: RVec<u8> = (0..len as u8).collect();
        for arg in (0..=CAP + 2).chain([usize::MAX - 1, usize::MAX]) {
            for op in 0..4 {
                let mut m: MVec<u8> = base.iter().copied().collect();
                let mut r = base.clone();
                let ctx = format!("len {len}, op {} ({arg})", ["remove", "split_off", "drain(..n)", "drain(..=n)"][op]);
                let (a, b) = match op {
                    0 => (attempt(|| { m.remove(arg); }), attempt(|| { r.remove(arg); })),
                    1 => (attempt(|| { let _ = m.split_off(arg); }), attempt(|| { let _ = r.split_off(arg); })),
                    2 => (attempt(|| { m.drain(..arg); }), attempt(|| { r.drain(..arg); })),
                    _ => (attempt(|| { m.drain(..=arg); }), attempt(|| { r.drain(..=arg); })),
                };
                same_panic_behaviour(a, b, &ctx);
                assert_eq!(&m[..], &r[..], "state after {ctx}");
                cases += 1;
            }
        }
    }
    println!("vec_panic_boundaries: {cases} cases");
}
