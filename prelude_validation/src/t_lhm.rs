// model LinkedHashMap (cut out of the `pending` unit by build.rs) against linked-hash-map 0.5.6.  Order is observable
// here (pop_front, iteration), so it is compared exactly: in particular `insert` of an existing key replaces the value AND
// moves the entry to the back in the real map.
#[cfg(has_lhm_model)]
#[test]
fn linked_hash_map() {
    use crate::model::{self, LHM_CAP};
    use crate::util::Rng;
    type K = u8; type V = u16;
    let seed = 0x11ED_0001u64;
    let mut g = Rng::new(seed);
    let mut steps = 0;
    assert!(6 <= LHM_CAP);
    for s in 0..6000 {
        let mut m: model::LinkedHashMap<K, V> = model::LinkedHashMap::new();
        let mut r: linked_hash_map::LinkedHashMap<K, V> = linked_hash_map::LinkedHashMap::new();
        let mut trace = format!("sequence #{s} (seed {seed:#x}): new");
        for _ in 0..1 + g.below(12) {
            steps += 1;
            let k = g.below(6) as K; let v = g.below(5) as V;
            match g.below(10) {
                0 | 1 | 2 | 3 | 4 => { trace += &format!("; insert({k}, {v})"); assert_eq!(m.insert(k, v), r.insert(k, v), "insert result, {trace}"); }
                5 | 6 => { trace += "; pop_front()"; assert_eq!(m.pop_front(), r.pop_front(), "pop_front result, {trace}"); }
                7 => {
                    trace += "; iter_mut v += 10";
                    for (_, v) in m.iter_mut() { *v = v.wrapping_add(10); } for (_, v) in r.iter_mut() { *v = v.wrapping_add(10); }
                }
                8 => { trace += "; copy"; let c = m; m = c; }   // the model is Copy (the real one is not)
                _ => { trace += &format!("; insert({k}, {v}) twice"); assert_eq!(m.insert(k, v), r.insert(k, v)); assert_eq!(m.insert(k, v + 1), r.insert(k, v + 1), "second insert, {trace}"); }
            }
            assert_eq!(m.len(), r.len(), "len after {trace}");
            assert_eq!(m.is_empty(), r.is_empty(), "is_empty after {trace}");
            for q in 0..7u8 { assert_eq!(m.get(&q), r.get(&q), "get({q}) after {trace}"); }
            let order_m: Vec<(K, V)> = m.iter_mut().map(|(k, v)| (*k, *v)).collect();
            let order_r: Vec<(K, V)> = r.iter_mut().map(|(k, v)| (*k, *v)).collect();
            assert_eq!(order_m, order_r, "iteration ORDER after {trace}");
            assert_eq!(order_r, r.iter().map(|(k, v)| (*k, *v)).collect::<Vec<_>>());
        }
        // drain both through pop_front: the complete order once more
        loop { let (a, b) = (m.pop_front(), r.pop_front()); assert_eq!(a, b, "final pop_front drain, {trace}"); if a.is_none() { break; } }
    }
    println!("linked_hash_map: 6000 sequences, {steps} compared steps");
}

#[cfg(not(has_lhm_model))]
#[test]
fn linked_hash_map() { println!("SKIPPED: no LinkedHashMap model found in ../kani_model/pending/src/lib.rs"); }
