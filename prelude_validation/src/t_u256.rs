// model U256 (prelude/u256.rs: 64 bits wide) against numext-fixed-uint 0.1.6 U256 (256 bits wide).
//  * wherever the mathematically true result fits in 64 bits the two must agree exactly;
//  * the panic / None / saturation behaviour is checked at EACH type's own width boundary with mirrored operands
//    (model: u64::MAX - d, real: U256::max_value() - d) and must correspond, including the panic message text.
use crate::model::{self, Unpack as _};
use crate::util::{attempt, Outcome, Rng};
use numext_fixed_uint::U256 as R;
type M = model::U256;

fn low64(x: &R) -> Option<u64> {
    let b = x.to_le_bytes();
    if b[8..].iter().all(|z| *z == 0) { Some(u64::from_le_bytes(b[..8].try_into().unwrap())) } else { None }
}
fn operand(g: &mut Rng) -> u64 {
    match g.below(9) {
        0 | 1 => g.below(6),
        2 => (1u64 << 32) - 3 + g.below(7),
        3 => u64::MAX - g.below(6),
        4 => (1u64 << 63) - 3 + g.below(7),
        5 => g.next() >> 32,
        6 => g.next() >> 48,
        7 => g.next() >> g.below(64),
        _ => g.next(),
    }
}

/// one binary operation in every operand form the model implements; `truth` is the exact mathematical result
fn check_binop(name: &str, a: u64, b: u64, truth: Option<u128>, mo: Outcome<M>, ro: Outcome<R>) {
    let ctx = format!("{name} with a = {a}, b = {b}");
    // the real type: operands below 2^64 can only underflow
    match (&ro, truth) {
        (Outcome::Value(v), Some(t)) => assert_eq!(*v, R::from(t), "real result of {ctx}"),
        (Outcome::Panic(_), None) => {}
        _ => panic!("real U256 unexpected for {ctx}: {ro:?} (true result {truth:?})"),
    }
    // the model: panics exactly when the true result is not a u64
    match (&mo, truth) {
        (Outcome::Value(v), Some(t)) if t <= u64::MAX as u128 => {
            assert_eq!(v.0 as u128, t, "model result of {ctx}");
            match &ro { Outcome::Value(r) => assert_eq!(low64(r), Some(v.0), "DISAGREEMENT model / real result of {ctx}"), _ => unreachable!() }
        }
        (Outcome::Panic(m), Some(t)) if t > u64::MAX as u128 => assert!(m.starts_with("U256: attempt to"), "model panic text for {ctx}: {m}"),
        (Outcome::Panic(m), None) => match &ro { Outcome::Panic(r) => assert_eq!(m, r, "DISAGREEMENT panic message of {ctx}"), _ => unreachable!() },
        _ => panic!("DISAGREEMENT model U256 for {ctx}: {mo:?}, true result {truth:?}, real {ro:?}"),
    }
}

#[test]
fn u256_results_agree_where_they_fit() {
    let mut g = Rng::new(0x0256_0001);
    let mut cases = 0u32;
    for _ in 0..20000 {
        let (a, b) = (operand(&mut g), operand(&mut g));
        let (ma, mb, ra, rb) = (M::from(a), M::from(b), R::from(a), R::from(b));
        let sum = Some(a as u128 + b as u128);
        check_binop("U256 + U256", a, b, sum, attempt(|| ma + mb), attempt(|| ra.clone() + rb.clone()));
        check_binop("U256 + &U256", a, b, sum, attempt(|| ma + &mb), attempt(|| ra.clone() + &rb));
        check_binop("&U256 + U256", a, b, sum, attempt(|| &ma + mb), attempt(|| &ra + rb.clone()));
        check_binop("&U256 + &U256", a, b, sum, attempt(|| &ma + &mb), attempt(|| &ra + &rb));
        let diff = (a as u128).checked_sub(b as u128);
        check_binop("U256 - U256", a, b, diff, attempt(|| ma - mb), attempt(|| ra.clone() - rb.clone()));
        check_binop("&U256 - &U256", a, b, diff, attempt(|| &ma - &mb), attempt(|| &ra - &rb));
        let b32 = b as u32;
        check_binop("&U256 - u32", a, b32 as u64, (a as u128).checked_sub(b32 as u128), attempt(|| &ma - b32), attempt(|| &ra - b32));
        let prod = Some(a as u128 * b as u128);
        check_binop("U256 * u64", a, b, prod, attempt(|| ma * b), attempt(|| ra.clone() * b));
        check_binop("&U256 * u64", a, b, prod, attempt(|| &ma * b), attempt(|| &ra * b));
        // `/= u64`: the quotient always fits; a zero divisor panics in both, with the same message
        let quot = if b == 0 { None } else { Some((a / b) as u128) };
        check_binop("U256 /= u64", a, b, quot, attempt(|| { let mut x = ma; x /= b; x }), attempt(|| { let mut x = ra.clone(); x /= b; x }));

        // saturating_mul / checked_add / checked_sub
        let (ms, rs) = (ma.saturating_mul(&mb), ra.saturating_mul(&rb));
        assert_eq!(rs, R::from(a as u128 * b as u128), "real saturating_mul({a}, {b})");
        match low64(&rs) { Some(x) => assert_eq!(ms.0, x, "DISAGREEMENT saturating_mul({a}, {b})"), None => assert_eq!(ms.0, u64::MAX, "model saturating_mul({a}, {b}) must saturate at its own width") }
        let (mc, rc) = (ma.checked_add(&mb), ra.checked_add(&rb));
        assert_eq!(rc, Some(R::from(a as u128 + b as u128)), "real checked_add({a}, {b})");
        match low64(rc.as_ref().unwrap()) { Some(x) => assert_eq!(mc, Some(M::from(x)), "DISAGREEMENT checked_add({a}, {b})"), None => assert_eq!(mc, None, "model checked_add({a}, {b}) must be None beyond its own width") }
        let (mc, rc) = (ma.checked_sub(&mb), ra.checked_sub(&rb));
        assert_eq!(mc.map(|x| x.0), rc.map(|x| low64(&x).unwrap()), "DISAGREEMENT checked_sub({a}, {b})");
        assert_eq!(mc.is_none(), a < b);

        // order, equality, zero tests, conversions
        assert_eq!(ma.cmp(&mb), ra.cmp(&rb), "cmp({a}, {b})");
        assert_eq!(ma.partial_cmp(&mb), ra.partial_cmp(&rb));
        assert_eq!((ma == mb, ma != mb, ma < mb, ma <= mb, ma > mb, ma >= mb), (ra == rb, ra != rb, ra < rb, ra <= rb, ra > rb, ra >= rb), "comparisons({a}, {b})");
        assert_eq!(std::cmp::max(ma, mb).0, low64(&std::cmp::max(ra.clone(), rb.clone())).unwrap());
        assert_eq!(ma.is_zero(), ra.is_zero(), "is_zero({a})");
        assert_eq!(M::from(a as u32).0, low64(&R::from(a as u32)).unwrap(), "From<u32>");
        assert_eq!(M::from(a).0, low64(&R::from(a)).unwrap(), "From<u64>");
        // little-endian bytes: the model's 8 bytes are the low 8 of the real 32, the rest is zero
        let (mbts, rbts) = (ma.to_le_bytes(), ra.to_le_bytes());
        assert_eq!(&mbts[..], &rbts[..8], "to_le_bytes({a})");
        assert!(rbts[8..].iter().all(|z| *z == 0));
        let mut wide = [0u8; 32]; wide[..8].copy_from_slice(&mbts);
        assert_eq!(M::from_le_bytes(&mbts).0, low64(&R::from_le_bytes(&wide)).unwrap(), "from_le_bytes");
        // pack / unpack round trips (model: PU256 / PU64; real: ckb-types packed::Uint256 / Uint64)
        {
            use ckb_types::prelude::{Pack as _, Unpack as _};
            let p: ckb_types::packed::Uint256 = ra.pack(); let back: R = p.unpack();
            assert_eq!(back, ra);
            let p: ckb_types::packed::Uint64 = ckb_types::prelude::Pack::pack(&a); let back: u64 = p.unpack();
            assert_eq!(back, a);
        }
        { let back: M = ma.pack().unpack(); assert_eq!(back, ma); let back: u64 = model::PackU64::pack(&a).unpack(); assert_eq!(back, a); let back: u32 = model::PU32(a as u32).unpack(); assert_eq!(back, a as u32); }
        cases += 1;
    }
    assert_eq!((M::zero().0, M::one().0, M::default().0), (low64(&R::zero()).unwrap(), low64(&R::one()).unwrap(), low64(&R::default()).unwrap()), "zero / one / default");
    assert!(M::zero().is_zero() && R::zero().is_zero() && !M::one().is_zero() && !R::one().is_zero());
    println!("u256: {cases} operand pairs, every operator form on each");
}

/// distance from the type's own maximum, if it is below 2^64
fn m_from_top(x: M) -> u64 { u64::MAX - x.0 }
fn r_from_top(x: &R) -> u64 { low64(&(R::max_value() - x)).expect("not near the top") }

/// both panicked with the same message, or both returned values at the same distance from their own maximum
fn mirrored(ctx: &str, mo: Outcome<M>, ro: Outcome<R>) {
    match (mo, ro) {
        (Outcome::Value(m), Outcome::Value(r)) => assert_eq!(m_from_top(m), r_from_top(&r), "DISAGREEMENT {ctx}: results differ relative to the type's maximum"),
        (Outcome::Panic(m), Outcome::Panic(r)) => assert_eq!(m, r, "DISAGREEMENT {ctx}: panic messages differ"),
        (m, r) => panic!("DISAGREEMENT {ctx}: model {m:?}, real {r:?}"),
    }
}

#[test]
fn u256_overflow_boundary_at_own_width() {
    let mut cases = 0u32;
    for d in 0..8u64 {
        for e in 0..10u64 {
            let (ma, ra) = (M::from(u64::MAX - d), R::max_value() - d);
            let (mb, rb) = (M::from(e), R::from(e));
            mirrored(&format!("(MAX - {d}) + {e}"), attempt(|| ma + mb), attempt(|| ra.clone() + rb.clone()));
            mirrored(&format!("(MAX - {d}) + &{e}"), attempt(|| ma + &mb), attempt(|| ra.clone() + &rb));
            mirrored(&format!("&(MAX - {d}) + {e}"), attempt(|| &ma + mb), attempt(|| &ra + rb.clone()));
            mirrored(&format!("&(MAX - {d}) + &{e}"), attempt(|| &ma + &mb), attempt(|| &ra + &rb));
            mirrored(&format!("{e} + (MAX - {d})"), attempt(|| mb + ma), attempt(|| rb.clone() + ra.clone()));
            // checked_add: None iff None
            let (mc, rc) = (ma.checked_add(&mb), ra.checked_add(&rb));
            assert_eq!(mc.map(m_from_top), rc.as_ref().map(r_from_top), "DISAGREEMENT checked_add at (MAX - {d}) + {e}");
            assert_eq!(mc.is_none(), e > d);
            // subtraction never overflows at the top, underflows at the bottom in both
            let (lo_m, lo_r) = (M::from(d), R::from(d));
            let (mo, ro) = (attempt(|| lo_m - mb), attempt(|| lo_r.clone() - rb.clone()));
            match (mo, ro) {
                (Outcome::Value(m), Outcome::Value(r)) => assert_eq!(Some(m.0), low64(&r)),
                (Outcome::Panic(m), Outcome::Panic(r)) => { assert!(e > d); assert_eq!(m, r, "sub panic message"); }
                (m, r) => panic!("DISAGREEMENT {d} - {e}: model {m:?}, real {r:?}"),
            }
            let (mo, ro) = (attempt(|| &lo_m - e as u32), attempt(|| &lo_r - e as u32));
            assert_eq!(mo.panicked(), ro.panicked(), "DISAGREEMENT &{d} - {e}u32");
            assert_eq!(lo_m.checked_sub(&mb).is_none(), lo_r.checked_sub(&rb).is_none(), "DISAGREEMENT checked_sub({d}, {e})");
            cases += 1;
        }
    }
    // multiplication: (MAX / k) * k fits, (MAX / k + 1) * k does not -- at either width
    for k in [2u64, 3, 5, 7, 10, 1000, 65_537, 1 << 32, (1 << 63) + 1, u64::MAX] {
        for delta in -3i64..=3 {
            let mbase = u64::MAX / k; let rbase = R::max_value() / k;
            if delta < 0 && mbase < (-delta) as u64 { continue; }
            let (ma, ra) = if delta < 0 { (M::from(mbase - (-delta) as u64), &rbase - (-delta) as u64) } else { (M::from(mbase + delta as u64), &rbase + delta as u64) };
            let ctx = format!("(MAX / {k} + {delta}) * {k}");
            let (mo, ro) = (attempt(|| ma * k), attempt(|| ra.clone() * k));
            assert_eq!(mo.panicked(), delta > 0, "model {ctx}");
            match (&mo, &ro) {
                (Outcome::Panic(m), Outcome::Panic(r)) => assert_eq!(m, r, "DISAGREEMENT {ctx}: panic messages differ"),
                (Outcome::Value(_), Outcome::Value(_)) => {}
                _ => panic!("DISAGREEMENT {ctx}: model {mo:?}, real {ro:?}"),
            }
            let (mo2, ro2) = (attempt(|| &ma * k), attempt(|| &ra * k));
            assert_eq!((mo2.panicked(), ro2.panicked()), (delta > 0, delta > 0), "DISAGREEMENT & form of {ctx}");
            // saturating_mul saturates at the type's own maximum in exactly the same cases
            let (ms, rs) = (ma.saturating_mul(&M::from(k)), ra.saturating_mul(&R::from(k)));
            assert_eq!((ms.0 == u64::MAX, rs == R::max_value()), (delta > 0 || u64::MAX % k == 0 && delta == 0, delta > 0 || (R::max_value() % k).is_zero() && delta == 0), "DISAGREEMENT saturating_mul {ctx}");
            if delta <= 0 { assert_eq!(Outcome::Value(ms), mo, "saturating_mul == mul when it fits (model) {ctx}"); assert_eq!(Outcome::Value(rs), ro, "saturating_mul == mul when it fits (real) {ctx}"); }
            cases += 1;
        }
    }
    // division by zero, whatever the dividend
    for a in [0u64, 1, 5, u64::MAX] {
        let (mo, ro) = (attempt(|| { let mut x = M::from(a); x /= 0u64; x }), attempt(|| { let mut x = R::from(a); x /= 0u64; x }));
        match (mo, ro) { (Outcome::Panic(m), Outcome::Panic(r)) => assert_eq!(m, r, "division-by-zero message"), (m, r) => panic!("DISAGREEMENT {a} /= 0: model {m:?}, real {r:?}") }
        let mut x = R::max_value(); x /= u64::MAX; assert!(!x.is_zero());
        cases += 1;
    }
    println!("u256 boundary: {cases} mirrored cases");
}
