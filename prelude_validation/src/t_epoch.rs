// model EpochNumberWithFraction (prelude/epoch.rs, a copy of the ckb-types 0.113.0 text) against the real one.
use crate::model::EpochNumberWithFraction as M;
use crate::util::{attempt, same_panic_behaviour, Rng};
use ckb_types::core::EpochNumberWithFraction as R;

fn field(g: &mut Rng, bits: u32) -> u64 {
    match g.below(6) {
        0 | 1 => g.below(5),
        2 => (1u64 << bits) - 1 - g.below(3),
        3 => (1u64 << bits) + g.below(3),          // out of range for `new`
        4 => g.next() >> (64 - bits),
        _ => g.below(1200),
    }
}
fn raw(g: &mut Rng) -> u64 {
    match g.below(4) {
        0 => g.next(),
        1 => g.next() >> 8,                          // the 56 used bits
        2 => 0,
        _ => M::new_unchecked(g.below(4), g.below(5), g.below(5)).full_value(),
    }
}
fn same(m: M, r: R, ctx: &str) {
    assert_eq!(m.full_value(), r.full_value(), "full_value, {ctx}");
    assert_eq!((m.number(), m.index(), m.length()), (r.number(), r.index(), r.length()), "number/index/length, {ctx}");
    assert_eq!((m.is_genesis(), m.is_well_formed()), (r.is_genesis(), r.is_well_formed()), "is_genesis/is_well_formed, {ctx}");
}

#[test]
fn epoch_constants() {
    assert_eq!((M::NUMBER_OFFSET, M::NUMBER_BITS, M::NUMBER_MAXIMUM_VALUE, M::NUMBER_MASK), (R::NUMBER_OFFSET, R::NUMBER_BITS, R::NUMBER_MAXIMUM_VALUE, R::NUMBER_MASK));
    assert_eq!((M::INDEX_OFFSET, M::INDEX_BITS, M::INDEX_MAXIMUM_VALUE, M::INDEX_MASK), (R::INDEX_OFFSET, R::INDEX_BITS, R::INDEX_MAXIMUM_VALUE, R::INDEX_MASK));
    assert_eq!((M::LENGTH_OFFSET, M::LENGTH_BITS, M::LENGTH_MAXIMUM_VALUE, M::LENGTH_MASK), (R::LENGTH_OFFSET, R::LENGTH_BITS, R::LENGTH_MAXIMUM_VALUE, R::LENGTH_MASK));
}

#[test]
fn epoch() {
    let mut g = Rng::new(0xE90C_0001);
    let mut cases = 0u32;
    for _ in 0..20000 {
        // constructors
        let (n, i, l) = (field(&mut g, 24), field(&mut g, 16), field(&mut g, 16));
        let ctx = format!("new_unchecked({n}, {i}, {l})");
        same(M::new_unchecked(n, i, l), R::new_unchecked(n, i, l), &ctx);
        // `new` debug-asserts its ranges (this is a debug build on both sides)
        let ctx = format!("new({n}, {i}, {l})");
        if let Some((m, r)) = same_panic_behaviour(attempt(|| M::new(n, i, l)), attempt(|| R::new(n, i, l)), &ctx) { same(m, r, &ctx); }
        // two arbitrary values; the second is often a neighbour of the first
        let x = raw(&mut g);
        let (mx, rx) = (M(x), R::from_full_value_unchecked(x));
        let y = match g.below(6) {
            0 => x,
            1 => M::new_unchecked(mx.number(), mx.index() + 1, mx.length()).full_value(),
            2 => M::new_unchecked(mx.number() + 1, 0, g.below(5)).full_value(),
            3 => M::new_unchecked(mx.number(), g.below(5), g.below(5)).full_value(),
            4 => M::new_unchecked(mx.number() + 1, g.below(2), mx.length()).full_value(),
            _ => raw(&mut g),
        };
        let (my, ry) = (M(y), R::from_full_value_unchecked(y));
        let ctx = format!("x = {x:#x}, y = {y:#x}");
        same(mx, rx, &ctx); same(my, ry, &ctx);
        assert_eq!(mx.cmp(&my), rx.cmp(&ry), "cmp, {ctx}");
        assert_eq!(my.cmp(&mx), ry.cmp(&rx), "cmp reversed, {ctx}");
        assert_eq!(mx.partial_cmp(&my), rx.partial_cmp(&ry), "partial_cmp, {ctx}");
        assert_eq!((mx == my, mx < my, mx <= my, mx > my, mx >= my), (rx == ry, rx < ry, rx <= ry, rx > ry, rx >= ry), "comparisons, {ctx}");
        assert_eq!(mx.is_successor_of(my), rx.is_successor_of(ry), "x.is_successor_of(y), {ctx}");
        assert_eq!(my.is_successor_of(mx), ry.is_successor_of(rx), "y.is_successor_of(x), {ctx}");
        cases += 1;
    }
    println!("epoch: {cases} cases");
}
