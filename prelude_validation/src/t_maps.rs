// model HashMap / HashSet (prelude/hashmap.rs) against std, model DashMap (prelude/dashmap.rs) against dashmap 5.5.3.
// The real iteration order is unspecified, so iteration results are compared as sorted lists (= multisets: a duplicate
// key in the model's iteration would be caught as well).
use crate::model::{self, DM_CAP, MAP_CAP};
use crate::util::Rng;

type K = u8;
type V = u16;
fn sorted<T: Ord>(mut v: Vec<T>) -> Vec<T> { v.sort(); v }

fn observe_map(m: &model::HashMap<K, V>, r: &std::collections::HashMap<K, V>, trace: &str) {
    assert_eq!(m.len(), r.len(), "len after {trace}");
    assert_eq!(m.is_empty(), r.is_empty(), "is_empty after {trace}");
    for k in 0..7u8 {
        assert_eq!(m.get(&k), r.get(&k), "get({k}) after {trace}");
        assert_eq!(m.contains_key(&k), r.contains_key(&k), "contains_key({k}) after {trace}");
    }
    assert_eq!(sorted(m.iter().map(|(k, v)| (*k, *v)).collect()), sorted(r.iter().map(|(k, v)| (*k, *v)).collect()), "iter after {trace}");
    assert_eq!(sorted(m.keys().copied().collect()), sorted(r.keys().copied().collect()), "keys after {trace}");
    assert_eq!(sorted(m.values().copied().collect()), sorted(r.values().copied().collect()), "values after {trace}");
    let mut by_ref = Vec::new();
    for (k, v) in m { by_ref.push((*k, *v)); }
    assert_eq!(sorted(by_ref), sorted(r.iter().map(|(k, v)| (*k, *v)).collect()), "`for (k, v) in &map` after {trace}");
    assert_eq!(sorted((*m).into_iter().collect()), sorted(r.clone().into_iter().collect()), "into_iter after {trace}");
    assert_eq!(sorted((*m).into_values().collect()), sorted(r.clone().into_values().collect()), "into_values after {trace}");
    assert_eq!(sorted(m.clone().iter().map(|(k, v)| (*k, *v)).collect()), sorted(r.clone().into_iter().collect()), "clone after {trace}");
}

#[test]
fn hashmap() {
    let seed = 0xBEEF_0001u64;
    let mut rng = Rng::new(seed);
    let mut steps = 0;
    for s in 0..6000 {
        let (mut m, mut r): (model::HashMap<K, V>, std::collections::HashMap<K, V>) = match rng.below(3) {
            0 => (model::HashMap::new(), std::collections::HashMap::new()),
            1 => { let n = rng.below(20) as usize; (model::HashMap::with_capacity(n), std::collections::HashMap::with_capacity(n)) }
            _ => (Default::default(), Default::default()),
        };
        let mut trace = format!("sequence #{s} (seed {seed:#x}): new");
        let len = 1 + rng.below(12);
        for _ in 0..len {
            steps += 1;
            // key domain 0..6 with MAP_CAP = 8: the capacity cannot be exceeded
            let k = rng.below(6) as K; let v = rng.below(5) as V;
            assert!(6 <= MAP_CAP);
            match rng.below(16) {
                0 | 1 | 2 | 3 => { trace += &format!("; insert({k}, {v})"); assert_eq!(m.insert(k, v), r.insert(k, v), "insert result, {trace}"); }
                4 | 5 => { trace += &format!("; remove({k})"); assert_eq!(m.remove(&k), r.remove(&k), "remove result, {trace}"); }
                6 => {
                    trace += &format!("; get_mut({k}) += 10");
                    let (a, b) = (m.get_mut(&k), r.get_mut(&k));
                    assert_eq!(a.is_some(), b.is_some(), "get_mut presence, {trace}");
                    if let (Some(a), Some(b)) = (a, b) { assert_eq!(*a, *b, "get_mut value, {trace}"); *a = a.wrapping_add(10); *b = b.wrapping_add(10); }
                }
                7 | 8 => {
                    trace += &format!("; *entry({k}).or_default() += 3");
                    let a = m.entry(k).or_default(); let b = r.entry(k).or_default();
                    assert_eq!(*a, *b, "entry().or_default() value, {trace}");
                    *a = a.wrapping_add(3); *b = b.wrapping_add(3);
                }
                9 => {
                    let t = rng.below(7) as K; let bump = rng.coin();
                    trace += &format!("; retain(k < {t} || v even; bump {bump})");
                    let (mut seen_m, mut seen_r) = (Vec::new(), Vec::new());
                    m.retain(|k, v| { seen_m.push((*k, *v)); if bump { *v = v.wrapping_add(1); } *k < t || *v % 2 == 0 });
                    r.retain(|k, v| { seen_r.push((*k, *v)); if bump { *v = v.wrapping_add(1); } *k < t || *v % 2 == 0 });
                    assert_eq!(sorted(seen_m), sorted(seen_r), "entries offered to the retain predicate (each once), {trace}");
                }
                10 => if rng.below(3) == 0 { trace += "; clear()"; m.clear(); r.clear(); },
                11 => { trace += "; iter_mut v += 100"; for (_, v) in m.iter_mut() { *v = v.wrapping_add(100); } for (_, v) in r.iter_mut() { *v = v.wrapping_add(100); } }
                12 => { trace += "; values_mut v *= 2"; for v in m.values_mut() { *v = v.wrapping_mul(2); } for v in r.values_mut() { *v = v.wrapping_mul(2); } }
                13 => {
                    // iter_mut hands out the right keys with the values
                    trace += "; iter_mut v = k";
                    for (k, v) in m.iter_mut() { *v = *k as V; } for (k, v) in r.iter_mut() { *v = *k as V; }
                }
                14 => {
                    // FromIterator with duplicate keys: the last one wins
                    let n = rng.below(9) as usize;
                    let items: Vec<(K, V)> = (0..n).map(|_| (rng.below(6) as K, rng.below(5) as V)).collect();
                    trace += &format!("; = collect({items:?})");
                    m = items.iter().copied().collect(); r = items.iter().copied().collect();
                }
                _ => { trace += &format!("; remove({k}); insert({k}, {v})"); assert_eq!(m.remove(&k), r.remove(&k)); assert_eq!(m.insert(k, v), r.insert(k, v)); }
            }
            observe_map(&m, &r, &trace);
        }
    }
    println!("hashmap: 6000 sequences, {steps} compared steps");
}

/// keys borrowed through `Borrow<Q>` with Q != K (the extracted sources look maps up with slices / references)
#[test]
fn hashmap_borrowed_key_lookup() {
    let mut rng = Rng::new(0xBEEF_0002);
    for _ in 0..2000 {
        let mut m: model::HashMap<[u8; 2], V> = model::HashMap::new();
        let mut r: std::collections::HashMap<[u8; 2], V> = std::collections::HashMap::new();
        for _ in 0..rng.below(9) {
            let k = [rng.below(2) as u8, rng.below(3) as u8]; let v = rng.below(5) as V;
            match rng.below(3) {
                0 => assert_eq!(m.remove(&k[..]), r.remove(&k[..])),
                _ => assert_eq!(m.insert(k, v), r.insert(k, v)),
            }
            for a in 0..3u8 { for b in 0..4u8 {
                let q = [a, b];
                assert_eq!(m.get(&q[..]), r.get(&q[..]));
                assert_eq!(m.contains_key(&q[..]), r.contains_key(&q[..]));
                assert_eq!(m.get_mut(&q[..]).map(|x| *x), r.get_mut(&q[..]).map(|x| *x));
            } }
        }
    }
}

fn observe_set(m: &model::HashSet<K>, r: &std::collections::HashSet<K>, trace: &str) {
    assert_eq!(m.len(), r.len(), "len after {trace}");
    assert_eq!(m.is_empty(), r.is_empty(), "is_empty after {trace}");
    for k in 0..7u8 { assert_eq!(m.contains(&k), r.contains(&k), "contains({k}) after {trace}"); }
    assert_eq!(sorted(m.iter().copied().collect()), sorted(r.iter().copied().collect()), "iter after {trace}");
    assert_eq!(sorted((*m).into_iter().collect()), sorted(r.clone().into_iter().collect()), "into_iter after {trace}");
    assert_eq!(sorted(m.clone().iter().copied().collect()), sorted(r.clone().into_iter().collect()), "clone after {trace}");
}

#[test]
fn hashset() {
    let seed = 0xBEEF_0003u64;
    let mut rng = Rng::new(seed);
    let mut steps = 0;
    for s in 0..6000 {
        let (mut m, mut r): (model::HashSet<K>, std::collections::HashSet<K>) =
            if rng.coin() { (model::HashSet::new(), std::collections::HashSet::new()) } else { (Default::default(), Default::default()) };
        let mut trace = format!("sequence #{s} (seed {seed:#x}): new");
        let len = 1 + rng.below(12);
        for _ in 0..len {
            steps += 1;
            let k = rng.below(6) as K;
            match rng.below(10) {
                0 | 1 | 2 | 3 => { trace += &format!("; insert({k})"); assert_eq!(m.insert(k), r.insert(k), "insert result, {trace}"); }
                4 | 5 | 6 => { trace += &format!("; remove({k})"); assert_eq!(m.remove(&k), r.remove(&k), "remove result, {trace}"); }
                7 => if rng.below(3) == 0 { trace += "; clear()"; m.clear(); r.clear(); },
                8 => {
                    let n = rng.below(9) as usize;
                    let items: Vec<K> = (0..n).map(|_| rng.below(6) as K).collect();
                    trace += &format!("; = collect({items:?})");
                    m = items.iter().copied().collect(); r = items.iter().copied().collect();
                }
                _ => { trace += &format!("; insert({k}) twice"); assert_eq!(m.insert(k), r.insert(k)); assert_eq!(m.insert(k), r.insert(k), "second insert, {trace}"); }
            }
            observe_set(&m, &r, &trace);
        }
    }
    println!("hashset: 6000 sequences, {steps} compared steps");
}

fn observe_dm(m: &model::DashMap<K, V>, r: &dashmap::DashMap<K, V>, trace: &str) {
    assert_eq!(m.len(), r.len(), "len after {trace}");
    assert_eq!(m.is_empty(), r.is_empty(), "is_empty after {trace}");
    for k in 0..7u8 {
        assert_eq!(m.contains_key(&k), r.contains_key(&k), "contains_key({k}) after {trace}");
        let (a, b) = (m.get(&k), r.get(&k));
        assert_eq!(a.is_some(), b.is_some(), "get({k}) presence after {trace}");
        if let (Some(a), Some(b)) = (a, b) {
            assert_eq!((*a.key(), *a.value()), (*b.key(), *b.value()), "get({k}).key()/value() after {trace}");
            assert_eq!(a.pair(), b.pair(), "get({k}).pair() after {trace}");
            assert_eq!(*a, *b, "get({k}) deref after {trace}");
        }
    }
    assert_eq!(sorted(m.iter().map(|e| (*e.key(), *e.value())).collect()), sorted(r.iter().map(|e| (*e.key(), *e.value())).collect()), "iter key()/value() after {trace}");
    assert_eq!(sorted(m.iter().map(|e| { let (k, v) = e.pair(); (*k, *v) }).collect()), sorted(r.iter().map(|e| { let (k, v) = e.pair(); (*k, *v) }).collect()), "iter pair() after {trace}");
    assert_eq!(sorted(m.iter().map(|e| *e).collect()), sorted(r.iter().map(|e| *e).collect()), "iter deref after {trace}");
}

#[test]
fn dashmap() {
    let seed = 0xBEEF_0004u64;
    let mut rng = Rng::new(seed);
    let mut steps = 0;
    assert!(6 <= DM_CAP);
    for s in 0..6000 {
        // both are mutated through a shared reference
        let (m, r): (model::DashMap<K, V>, dashmap::DashMap<K, V>) =
            if rng.coin() { (model::DashMap::new(), dashmap::DashMap::new()) } else { (Default::default(), Default::default()) };
        let (m, r) = (&m, &r);
        let mut trace = format!("sequence #{s} (seed {seed:#x}): new");
        let len = 1 + rng.below(12);
        for _ in 0..len {
            steps += 1;
            let k = rng.below(6) as K; let v = rng.below(5) as V;
            match rng.below(12) {
                0 | 1 | 2 | 3 => { trace += &format!("; insert({k}, {v})"); assert_eq!(m.insert(k, v), r.insert(k, v), "insert result, {trace}"); }
                4 | 5 | 6 => { trace += &format!("; remove({k})"); assert_eq!(m.remove(&k), r.remove(&k), "remove result, {trace}"); }
                7 | 8 => {
                    trace += &format!("; get_mut({k}) += 10");
                    let (a, b) = (m.get_mut(&k), r.get_mut(&k));
                    assert_eq!(a.is_some(), b.is_some(), "get_mut presence, {trace}");
                    if let (Some(mut a), Some(mut b)) = (a, b) {
                        assert_eq!((*a.key(), *a.value()), (*b.key(), *b.value()), "get_mut key()/value(), {trace}");
                        assert_eq!(*a, *b, "get_mut deref, {trace}");
                        if rng.coin() { *a = a.wrapping_add(10); *b = b.wrapping_add(10); } else { let x = a.value_mut(); *x = x.wrapping_add(10); let y = b.value_mut(); *y = y.wrapping_add(10); }
                    }
                }
                9 => {
                    trace += "; iter_mut v += k (DerefMut / value_mut)";
                    if rng.coin() { for mut e in m.iter_mut() { let k = *e.key() as V; *e = e.wrapping_add(k); } } else { for mut e in m.iter_mut() { let k = *e.key() as V; let x = e.value_mut(); *x = x.wrapping_add(k); } }
                    for mut e in r.iter_mut() { let k = *e.key() as V; let x = e.value_mut(); *x = x.wrapping_add(k); }
                }
                10 => {
                    // fill up to six keys, then empty again: slot reuse after removals
                    trace += "; refill";
                    for k in 0..6u8 { assert_eq!(m.insert(k, k as V), r.insert(k, k as V), "refill insert({k}), {trace}"); }
                    let d = rng.below(6) as K;
                    assert_eq!(m.remove(&d), r.remove(&d), "refill remove({d}), {trace}");
                }
                _ => { trace += &format!("; remove({k}); insert({k}, {v})"); assert_eq!(m.remove(&k), r.remove(&k)); assert_eq!(m.insert(k, v), r.insert(k, v)); }
            }
            observe_dm(m, r, &trace);
        }
    }
    println!("dashmap: 6000 sequences, {steps} compared steps");
}

/// a value type that is not Copy (the model only asks for `K: Copy + Eq`)
#[test]
fn dashmap_non_copy_values() {
    let mut rng = Rng::new(0xBEEF_0005);
    for _ in 0..1500 {
        let m: model::DashMap<K, Vec<u8>> = model::DashMap::new();
        let r: dashmap::DashMap<K, Vec<u8>> = dashmap::DashMap::new();
        for _ in 0..1 + rng.below(12) {
            let k = rng.below(6) as K; let x = rng.below(5) as u8;
            match rng.below(4) {
                0 => assert_eq!(m.insert(k, vec![x]), r.insert(k, vec![x])),
                1 => assert_eq!(m.remove(&k), r.remove(&k)),
                2 => { if let Some(mut e) = m.get_mut(&k) { e.push(x); } if let Some(mut e) = r.get_mut(&k) { e.push(x); } }
                _ => { for mut e in m.iter_mut() { e.push(x); } for mut e in r.iter_mut() { e.push(x); } }
            }
            assert_eq!(m.len(), r.len());
            assert_eq!(sorted(m.iter().map(|e| (*e.key(), e.value().clone())).collect()), sorted(r.iter().map(|e| (*e.key(), e.value().clone())).collect()));
        }
    }
}
