// The LinkedHashMap model is not a prelude file: it lives inside the `pending` K-model unit
// (../kani_model/pending/src/lib.rs).  So that the CURRENT text is what gets tested, the struct (with its attributes) and
// every `impl ... LinkedHashMap<..>` block are cut out of that file here (brace matching that skips string literals, char
// literals and comments) and written to $OUT_DIR/lhm_model.rs, which src/model.rs includes.  If the unit or the model is
// gone, the cfg `has_lhm_model` is not set and the LinkedHashMap comparison is skipped (the test prints that it was).
use std::{env, fs, path::PathBuf};

const UNIT: &str = "../kani_model/pending/src/lib.rs";

/// index just past the `}` that closes the `{` at `open`
fn match_brace(s: &[u8], open: usize) -> Option<usize> {
    let (mut i, mut depth) = (open, 0usize);
    while i < s.len() {
        match s[i] {
            b'/' if s.get(i + 1) == Some(&b'/') => { while i < s.len() && s[i] != b'\n' { i += 1; } continue; }
            b'/' if s.get(i + 1) == Some(&b'*') => { i += 2; while i + 1 < s.len() && !(s[i] == b'*' && s[i + 1] == b'/') { i += 1; } i += 2; continue; }
            b'"' => { i += 1; while i < s.len() && s[i] != b'"' { if s[i] == b'\\' { i += 1; } i += 1; } }
            // char literal ('{', '\'', '\n') as opposed to a lifetime ('a)
            b'\'' => {
                if s.get(i + 1) == Some(&b'\\') { i += 2; while i < s.len() && s[i] != b'\'' { i += 1; } }
                else if s.get(i + 2) == Some(&b'\'') { i += 2; }
            }
            b'{' => depth += 1,
            b'}' => { depth -= 1; if depth == 0 { return Some(i + 1); } }
            _ => {}
        }
        i += 1;
    }
    None
}

fn extract(src: &str) -> Option<String> {
    let b = src.as_bytes();
    let mut out = String::new();
    // the struct, together with the attribute lines directly above it
    let st = src.find("pub struct LinkedHashMap")?;
    let mut start = src[..st].rfind('\n').map(|p| p + 1).unwrap_or(0);
    loop {
        if start == 0 { break; }
        let prev = src[..start - 1].rfind('\n').map(|p| p + 1).unwrap_or(0);
        let line = src[prev..start].trim_start();
        if line.starts_with("#[") || line.starts_with("///") { start = prev; } else { break; }
    }
    let open = st + src[st..].find('{')?;
    let end = match_brace(b, open)?;
    out.push_str(&src[start..end]);
    out.push('\n');
    // every impl block whose header names LinkedHashMap
    let mut from = 0;
    while let Some(p) = src[from..].find("\nimpl") {
        let p = from + p + 1;
        let open = match src[p..].find('{') { Some(o) => p + o, None => break };
        let end = match_brace(b, open)?;
        if src[p..open].contains("LinkedHashMap") { out.push_str(&src[p..end]); out.push('\n'); }
        from = end;
    }
    Some(out)
}

fn main() {
    println!("cargo:rerun-if-changed=build.rs");
    println!("cargo:rerun-if-changed={}", UNIT);
    let out = PathBuf::from(env::var("OUT_DIR").unwrap()).join("lhm_model.rs");
    let text = fs::read_to_string(UNIT).ok().and_then(|s| extract(&s));
    match text {
        Some(t) => { fs::write(&out, t).unwrap(); println!("cargo:rustc-cfg=has_lhm_model"); }
        None => { fs::write(&out, "// no LinkedHashMap model found in the pending unit\n").unwrap(); println!("cargo:warning=no LinkedHashMap model found in {}: comparison skipped", UNIT); }
    }
}
