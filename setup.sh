#!/bin/bash
# MANIFEST.setup_cmd: build everything the checks need from files on disk only (offline).
#  1. generated vendor directory (directory source for Kani's / nightly's cargo)
#  2. compiled dependencies of /repo under Kani (K-real) and under the nightly (MIR dump, engine M)
#  3. validation of the model prelude against the real containers / the repo's own unit-test tables
set -u
cd "$(dirname "$0")"
export CARGO_NET_OFFLINE=true
mkdir -p .cache/logs
python3 tools/mkvendor.py "$PWD/.cache/vendor" || exit 1
S="${VERIF_SCRATCH:-/var/tmp}/verif-setup-$$"
rm -rf "$S"; mkdir -p "$S"
trap 'rm -rf "$S"' EXIT
python3 - "$S" <<'PY' || exit 1
import sys, os
sys.path.insert(0, 'tools')
os.environ['VERIF_KEEP_SCRATCH'] = '1'
import vlib
vlib._scratch = sys.argv[1]
print(vlib.repo_copy())
PY
R="$S/repo"
cat > "$S/warm.rs" <<'RS'
use super::*;
#[kani::proof]
fn verif_warmup() { let x: u8 = kani::any(); assert!(x as u16 <= 255); }
RS
echo "#[cfg(kani)] #[path = \"$S/warm.rs\"] mod verif_kani_warm;" >> "$R/src/protocols/light_client/sampling.rs"
echo "[setup] Kani dependency build ..."
( cd "$R" && time cargo kani -Z stubbing --harness verif_warmup --target-dir /verif/.cache/kani-target > /verif/.cache/logs/setup-kani.log 2>&1 ) || { tail -30 /verif/.cache/logs/setup-kani.log; echo "[setup] WARNING: K-real dependency build failed"; }
echo "[setup] nightly MIR dependency build ..."
( cd "$R" && time cargo +nightly rustc --offline --bin ckb-light-client --target-dir /verif/.cache/mir-target -- -Zunpretty=mir -o "$S/crate.mir" > /verif/.cache/logs/setup-mir.log 2>&1 ) || { tail -30 /verif/.cache/logs/setup-mir.log; echo "[setup] WARNING: MIR dependency build failed"; }
if [ -d prelude_validation ]; then
  echo "[setup] prelude validation ..."
  ( set -o pipefail; cd prelude_validation && RUSTUP_TOOLCHAIN=nightly-2026-08-21 cargo test --offline --target-dir /verif/.cache/pv-target 2>&1 | tee /verif/.cache/logs/setup-prelude-validation.log | tail -5 ) || echo "[setup] WARNING: prelude validation FAILED (see .cache/logs/setup-prelude-validation.log): the model prelude disagrees with a real container"
fi
echo "[setup] done"
