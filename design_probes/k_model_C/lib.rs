#![allow(unused, dead_code, unused_mut)]
use std::fmt;
use std::ops::{Index, RangeInclusive, RangeTo};

macro_rules! trace { ($($t:tt)*) => {{ if false { let _ = format_args!($($t)*); } }} }
macro_rules! debug { ($($t:tt)*) => {{ if false { let _ = format_args!($($t)*); } }} }
macro_rules! info { ($($t:tt)*) => {{ if false { let _ = format_args!($($t)*); } }} }
macro_rules! error { ($($t:tt)*) => {{ if false { let _ = format_args!($($t)*); } }} }
macro_rules! warn { ($($t:tt)*) => {{ if false { let _ = format_args!($($t)*); } }} }
macro_rules! log_enabled { ($($t:tt)*) => { false } }
pub enum Level { Trace }

pub const CAP: usize = 4;

// ---------- array-backed Vec ----------
#[derive(Clone, Copy)]
pub struct Vec<T: Copy + Default> { buf: [T; CAP], len: usize }
impl<T: Copy + Default> Default for Vec<T> { fn default() -> Self { Self::new() } }
impl<T: Copy + Default> Vec<T> {
    pub fn new() -> Self { Vec { buf: [T::default(); CAP], len: 0 } }
    pub fn push(&mut self, t: T) { assert!(self.len < CAP, "model Vec capacity"); self.buf[self.len] = t; self.len += 1; }
    pub fn len(&self) -> usize { self.len }
    pub fn is_empty(&self) -> bool { self.len == 0 }
    pub fn get(&self, i: usize) -> Option<&T> { if i < self.len { Some(&self.buf[i]) } else { None } }
    pub fn iter(&self) -> std::slice::Iter<'_, T> { self.buf[..self.len].iter() }
    pub fn drain(&mut self, r: RangeTo<usize>) {
        let n = r.end; assert!(n <= self.len, "drain out of range");
        let mut i = 0;
        while i + n < self.len { self.buf[i] = self.buf[i + n]; i += 1; }
        self.len -= n;
    }
    pub fn sort(&mut self) where T: Ord {
        let mut i = 1;
        while i < self.len { let mut j = i; while j > 0 && self.buf[j - 1] > self.buf[j] { let t = self.buf[j]; self.buf[j] = self.buf[j - 1]; self.buf[j - 1] = t; j -= 1; } i += 1; }
    }
}
impl<T: Copy + Default> Index<usize> for Vec<T> { type Output = T; fn index(&self, i: usize) -> &T { assert!(i < self.len, "index out of bounds"); &self.buf[i] } }
impl<T: Copy + Default> Index<RangeInclusive<usize>> for Vec<T> { type Output = [T]; fn index(&self, r: RangeInclusive<usize>) -> &[T] { &self.buf[..self.len][r] } }
impl<T: Copy + Default> FromIterator<T> for Vec<T> { fn from_iter<I: IntoIterator<Item = T>>(it: I) -> Self { let mut v = Vec::new(); for x in it { v.push(x); } v } }


pub struct VecIntoIter<T: Copy + Default> { v: Vec<T>, pos: usize }
impl<T: Copy + Default> Iterator for VecIntoIter<T> { type Item = T; fn next(&mut self) -> Option<T> { if self.pos < self.v.len { let r = self.v.buf[self.pos]; self.pos += 1; Some(r) } else { None } } }
impl<T: Copy + Default> IntoIterator for Vec<T> { type Item = T; type IntoIter = VecIntoIter<T>; fn into_iter(self) -> VecIntoIter<T> { VecIntoIter { v: self, pos: 0 } } }

// ---------- array-backed HashMap (dense, insertion order) ----------
#[derive(Clone, Copy)]
pub struct HashMap<K: Copy + Default + Eq, V: Copy + Default> { keys: [K; CAP], vals: [V; CAP], len: usize }
pub struct Entry<'a, V> { slot: &'a mut V }
impl<'a, V: Default> Entry<'a, V> { pub fn or_default(self) -> &'a mut V { self.slot } }
impl<K: Copy + Default + Eq, V: Copy + Default> HashMap<K, V> {
    pub fn new() -> Self { HashMap { keys: [K::default(); CAP], vals: [V::default(); CAP], len: 0 } }
    pub fn len(&self) -> usize { self.len }
    pub fn insert(&mut self, k: K, v: V) { let mut i = 0; while i < self.len { if self.keys[i] == k { self.vals[i] = v; return; } i += 1; } assert!(self.len < CAP, "model HashMap capacity"); self.keys[self.len] = k; self.vals[self.len] = v; self.len += 1; }
    pub fn entry(&mut self, k: K) -> Entry<'_, V> {
        let mut i = 0; let mut found = self.len;
        while i < self.len { if self.keys[i] == k { found = i; } i += 1; }
        if found == self.len { assert!(self.len < CAP, "model HashMap capacity"); self.keys[found] = k; self.vals[found] = V::default(); self.len += 1; }
        Entry { slot: &mut self.vals[found] }
    }
    pub fn remove(&mut self, k: &K) -> Option<V> {
        let mut i = 0;
        while i < self.len { if self.keys[i] == *k { let r = self.vals[i]; let mut j = i; while j + 1 < self.len { self.keys[j] = self.keys[j + 1]; self.vals[j] = self.vals[j + 1]; j += 1; } self.len -= 1; return Some(r); } i += 1; }
        None
    }
    pub fn retain<F: FnMut(&K, &mut V) -> bool>(&mut self, mut f: F) {
        let mut w = 0; let mut r = 0;
        while r < self.len { let keep = f(&self.keys[r], &mut self.vals[r]); if keep { self.keys[w] = self.keys[r]; self.vals[w] = self.vals[r]; w += 1; } r += 1; }
        self.len = w;
    }
    pub fn iter(&self) -> std::iter::Zip<std::slice::Iter<'_, K>, std::slice::Iter<'_, V>> { self.keys[..self.len].iter().zip(self.vals[..self.len].iter()) }
    pub fn iter_mut(&mut self) -> std::iter::Zip<std::slice::Iter<'_, K>, std::slice::IterMut<'_, V>> { let n = self.len; self.keys[..n].iter().zip(self.vals[..n].iter_mut()) }
    pub fn values(&self) -> std::slice::Iter<'_, V> { self.vals[..self.len].iter() }
    pub fn into_values(self) -> MapIntoValues<K, V> { MapIntoValues { m: self, pos: 0 } }
}
pub struct MapIntoValues<K: Copy + Default + Eq, V: Copy + Default> { m: HashMap<K, V>, pos: usize }
impl<K: Copy + Default + Eq, V: Copy + Default> Iterator for MapIntoValues<K, V> { type Item = V; fn next(&mut self) -> Option<V> { if self.pos < self.m.len { let r = self.m.vals[self.pos]; self.pos += 1; Some(r) } else { None } } }
pub struct MapIntoIter<K: Copy + Default + Eq, V: Copy + Default> { m: HashMap<K, V>, pos: usize }
impl<K: Copy + Default + Eq, V: Copy + Default> Iterator for MapIntoIter<K, V> { type Item = (K, V); fn next(&mut self) -> Option<(K, V)> { if self.pos < self.m.len { let r = (self.m.keys[self.pos], self.m.vals[self.pos]); self.pos += 1; Some(r) } else { None } } }
impl<K: Copy + Default + Eq, V: Copy + Default> IntoIterator for HashMap<K, V> { type Item = (K, V); type IntoIter = MapIntoIter<K, V>; fn into_iter(self) -> Self::IntoIter { MapIntoIter { m: self, pos: 0 } } }

// ---------- domain models ----------
#[derive(Clone, Copy, PartialEq, Eq, Debug, Default, PartialOrd, Ord)]
pub struct Byte32(pub u8);
impl fmt::LowerHex for Byte32 { fn fmt(&self, f: &mut fmt::Formatter) -> fmt::Result { Ok(()) } }
#[derive(Clone, Copy, PartialEq, Eq, Debug, Default)]
pub struct PeerIndex(pub u8);
impl fmt::Display for PeerIndex { fn fmt(&self, f: &mut fmt::Formatter) -> fmt::Result { Ok(()) } }
pub mod packed { pub use super::Byte32; }
pub const BAD_MESSAGE_BAN_TIME: u64 = 300;

pub struct Ghost { pub banned: [bool; CAP], pub removed_first_n: [usize; CAP], pub upd_start: u32, pub upd: [Byte32; CAP], pub upd_len: usize, pub upd_calls: usize, pub new_max: u32, pub max_calls: usize }
pub static mut G: Ghost = Ghost { banned: [false; CAP], removed_first_n: [0; CAP], upd_start: 0, upd: [Byte32(0); CAP], upd_len: 0, upd_calls: 0, new_max: 0, max_calls: 0 };

pub trait CKBProtocolContext { fn ban_peer(&self, p: PeerIndex, d: u64, reason: String); }
pub struct Nc;
impl CKBProtocolContext for Nc { fn ban_peer(&self, p: PeerIndex, _d: u64, _r: String) { unsafe { G.banned[p.0 as usize] = true; } } }

pub struct Peers { pub required: usize, pub data: HashMap<PeerIndex, (u32, Vec<Byte32>)> }
impl Peers {
    pub fn required_peers_count(&self) -> usize { self.required }
    pub fn get_all_proved_check_points(&self) -> HashMap<PeerIndex, (u32, Vec<Byte32>)> { self.data }
    pub fn remove_first_n_check_points(&self, p: PeerIndex, n: usize) { unsafe { G.removed_first_n[p.0 as usize] += n; } }
}
pub struct Storage { pub last_idx: u32, pub last_cp: Byte32 }
impl Storage {
    pub fn get_last_check_point(&self) -> (u32, Byte32) { (self.last_idx, self.last_cp) }
    pub fn update_check_points(&self, start: u32, cps: &[Byte32]) { unsafe { G.upd_calls += 1; G.upd_start = start; G.upd_len = cps.len(); let mut i = 0; while i < cps.len() { G.upd[i] = cps[i]; i += 1; } } }
    pub fn update_max_check_point_index(&self, idx: u32) { unsafe { G.max_calls += 1; G.new_max = idx; } }
}
pub struct LightClientProtocol { pub storage: Storage, pub peers: Peers }
impl LightClientProtocol { pub fn peers(&self) -> &Peers { &self.peers } }

include!("extracted.rs");

#[cfg(kani)]
mod harness {
    use super::*;
    #[kani::proof]
    #[kani::unwind(6)]
    fn finalize_quorum() {
        let npeers: usize = kani::any();
        kani::assume(npeers <= 3);
        let required: usize = kani::any();
        kani::assume(required >= 1 && required <= 2);
        let last_idx: u32 = kani::any();
        kani::assume(last_idx < 1000);
        let last_cp = Byte32(kani::any());
        let mut data = HashMap::new();
        let mut starts = [0u32; 3];
        let mut vecs = [Vec::<Byte32>::new(); 3];
        let mut i = 0;
        while i < npeers {
            let start: u32 = kani::any();
            kani::assume(start < 1000);
            let len: usize = kani::any();
            kani::assume(len >= 1 && len <= 3);
            let mut v = Vec::new();
            let mut j = 0;
            while j < len { let b: u8 = kani::any(); kani::assume(b < 3); v.push(Byte32(b)); j += 1; }
            starts[i] = start; vecs[i] = v;
            data.insert(PeerIndex(i as u8), (start, v));
            i += 1;
        }
        let mut p = LightClientProtocol { storage: Storage { last_idx, last_cp }, peers: Peers { required, data } };
        p.finalize_check_points(&Nc);
        unsafe {
            assert!(G.upd_calls <= 1 && G.max_calls == G.upd_calls);
            if G.upd_calls == 1 {
                // monotone, contiguous
                assert!(G.upd_start == last_idx + 1);
                assert!(G.upd_len >= 1);
                assert!(G.new_max == last_idx + G.upd_len as u32);
                // quorum on every newly final index, by peers consistent with the old final value
                let mut k = 0;
                while k < G.upd_len {
                    let abs = last_idx + 1 + k as u32;
                    let mut agree = 0;
                    let mut q = 0;
                    while q < npeers {
                        if starts[q] <= last_idx {
                            let base = (last_idx - starts[q]) as usize;
                            if base < vecs[q].len() && vecs[q][base] == last_cp {
                                let pos = (abs - starts[q]) as usize;
                                if pos < vecs[q].len() && vecs[q][pos] == G.upd[k] { agree += 1; }
                            }
                        }
                        q += 1;
                    }
                    assert!(agree >= required);
                    k += 1;
                }
                kani::cover!(G.upd_len == 2);
            }
            kani::cover!(G.banned[0]);
        }
    }
}
