use super::*;
fn stub_format(_a: std::fmt::Arguments<'_>) -> String { String::new() }
fn stub_log(_a: std::fmt::Arguments, _l: log::Level, _t: &(&str, &'static str, &'static str), _line: u32, _kvs: Option<&[(&str, &str)]>) {}

fn any_u256() -> U256 { U256(kani::any()) }

fn stub_u512_div(this: &U512, other: &U512) -> Option<(U512, U512)> {
    if other.is_zero() { return None; }
    let q = U512(kani::any());
    let r = U512(kani::any());
    kani::assume(r < *other);
    let (prod, of) = q.overflowing_mul(other);
    kani::assume(!of);
    let (sum, of2) = prod.overflowing_add(&r);
    kani::assume(!of2);
    kani::assume(sum == *this);
    Some((q, r))
}

#[kani::proof]
#[kani::unwind(10)]
#[kani::stub(alloc::fmt::format, stub_format)]
#[kani::stub(log::__private_api::log, stub_log)]
#[kani::stub(numext_fixed_uint::U512::_div_with_rem, stub_u512_div)]
fn p_multiply() {
    let u = any_u256();
    let ratio: f64 = kani::any();
    kani::assume(ratio >= 0.0 && ratio < 1.0);
    let r = multiply(&u, ratio);
    assert!(r <= u || (u.is_zero() && r == U256::one()));
    assert!(!r.is_zero());
}

#[kani::proof]
#[kani::unwind(4)]
fn p_estimate_k() {
    let l: u64 = kani::any();
    let n: u64 = kani::any();
    kani::assume(l >= 1 && l < n);
    let k = estimate_k(l, n, 0.5);
    assert!(k > 0.0);
}
