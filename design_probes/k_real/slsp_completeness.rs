use super::*;
use ckb_types::{core::EpochNumberWithFraction, U256};

fn any_u256() -> U256 { U256(kani::any()) }
fn small_u256() -> U256 { let a: u64 = kani::any(); U256([a >> 8, 0, 0, 0]) }
fn stub_format(_a: std::fmt::Arguments<'_>) -> String { String::new() }
fn stub_log(_a: std::fmt::Arguments, _l: log::Level, _t: &(&str, &'static str, &'static str), _line: u32, _kvs: Option<&[(&str, &str)]>) {}
fn stub_div_with_rem(this: &U256, other: &U256) -> Option<(U256, U256)> {
    if other.is_zero() { return None; }
    let q = any_u256();
    let r = any_u256();
    kani::assume(r < *other);
    let (prod, of) = q.overflowing_mul(other);
    kani::assume(!of);
    let (sum, of2) = prod.overflowing_add(&r);
    kani::assume(!of2);
    kani::assume(sum == *this);
    Some((q, r))
}
static mut D1: [u64; 4] = [0; 4];
static mut D2: [u64; 4] = [0; 4];
static mut C1: u32 = 0;
fn stub_c2d(compact: u32) -> U256 { unsafe { if compact == C1 { U256(D1) } else { U256(D2) } } }

fn legal_step(prev: &U256, next: &U256) -> bool {
    let two = U256::from(2u64);
    *next <= prev.saturating_mul(&two) && next.saturating_mul(&two) >= *prev
}

#[kani::proof]
#[kani::unwind(5)]
#[kani::stub(alloc::fmt::format, stub_format)]
#[kani::stub(log::__private_api::log, stub_log)]
#[kani::stub(numext_fixed_uint::U256::_div_with_rem, stub_div_with_rem)]
#[kani::stub(ckb_types::utilities::compact_to_difficulty, stub_c2d)]
fn p7_complete_n2_small() {
    // two epoch switches: start epoch s, one full middle epoch, end epoch s+2
    let b0 = small_u256(); let bn = small_u256();
    kani::assume(!b0.is_zero() && !bn.is_zero());
    let c0: u32 = kani::any(); let cn: u32 = kani::any();
    kani::assume(c0 != cn);
    unsafe { C1 = c0; D1 = b0.0; D2 = bn.0; }
    let s: u64 = kani::any(); kani::assume(s < 1000);
    let l0: u64 = kani::any(); let i0: u64 = kani::any(); kani::assume(l0 >= 1 && l0 < 16 && i0 < l0);
    let ln: u64 = kani::any(); let i_n: u64 = kani::any(); kani::assume(ln >= 1 && ln < 16 && i_n < ln);
    let se = EpochNumberWithFraction::new_unchecked(s, i0, l0);
    let ee = EpochNumberWithFraction::new_unchecked(s + 2, i_n, ln);
    let e0 = &b0 * l0;
    let e2 = &bn * ln;
    let e1 = small_u256();
    kani::assume(legal_step(&e0, &e1) && legal_step(&e1, &e2));
    let t0 = small_u256();
    let total = &(&b0 * (l0 - i0 - 1)) + &e1;
    let total = &total + &(&bn * (i_n + 1));
    let t1 = &t0 + &total;
    let tau_ok = verify_tau(se, c0, ee, cn, 2);
    assert!(matches!(tau_ok, Ok(true)), "legal history rejected by verify_tau");
    let r = verify_total_difficulty(se, c0, &t0, ee, cn, &t1, 2);
    assert!(r.is_ok(), "legal history rejected by verify_total_difficulty");
}
