use super::*;

fn stub_format(_a: std::fmt::Arguments<'_>) -> String { String::new() }
fn stub_log(_a: std::fmt::Arguments, _l: log::Level, _t: &(&str, &'static str, &'static str), _line: u32, _kvs: Option<&[(&str, &str)]>) {}
fn stub_now() -> u64 { kani::any() }
fn stub_same(_l: &VerifiableHeader, _r: &VerifiableHeader) -> bool { kani::any() }

fn vh() -> VerifiableHeader {
    VerifiableHeader::new(
        packed::Header::default().into_view().fake_hash(packed::Byte32::zero()),
        Default::default(), None, Default::default())
}
fn stub_hash(_h: &packed::Header) -> packed::Byte32 { packed::Byte32::zero() }

fn tag(s: &PeerState) -> u8 {
    match s {
        PeerState::Initialized => 1,
        PeerState::RequestFirstLastState { .. } => 2,
        PeerState::OnlyHasLastState { .. } => 3,
        PeerState::RequestFirstLastStateProof { .. } => 4,
        PeerState::Ready { .. } => 5,
        PeerState::RequestNewLastState { .. } => 6,
        PeerState::RequestNewLastStateProof { .. } => 7,
    }
}

#[kani::proof]
#[kani::unwind(4)]
#[kani::stub(alloc::fmt::format, stub_format)]
#[kani::stub(log::__private_api::log, stub_log)]
#[kani::stub(ckb_systemtime::unix_time_as_millis, stub_now)]
#[kani::stub(ckb_types::packed::Header::calc_header_hash, stub_hash)]
fn p_peerstate_steps() {
    let mut st = PeerState::Initialized;
    let mut i = 0;
    while i < 3 {
        let ev: u8 = kani::any();
        kani::assume(ev < 4);
        let before = tag(&st);
        let had_proof = st.get_prove_state().is_some();
        let r = match ev {
            0 => st.clone().request_last_state(kani::any()),
            1 => st.clone().receive_last_state(LastState::new(vh())),
            2 => st.clone().request_last_state_proof(ProveRequest::new(LastState::new(vh()), Default::default()), kani::any()),
            _ => st.clone().receive_last_state_proof(ProveState::new_from_request(ProveRequest::new(LastState::new(vh()), Default::default()), Vec::new(), Vec::new())),
        };
        if let Ok(n) = r {
            let after = tag(&n);
            if ev == 1 { assert!(n.get_prove_state().is_some() == had_proof); }
            if ev == 0 { assert!(after == 2 || after == 3 || after == 6); }
            st = n;
        }
        i += 1;
    }
}

#[kani::proof]
#[kani::unwind(6)]
#[kani::stub(alloc::fmt::format, stub_format)]
#[kani::stub(log::__private_api::log, stub_log)]
fn p_checkpoints_add() {
    let interval: u64 = 2000;
    let idx: u32 = kani::any();
    kani::assume(idx < 1000);
    let mut cps = CheckPoints::new(interval, idx, packed::Byte32::zero());
    let last_proved: u64 = kani::any();
    let start: u64 = kani::any();
    let n: usize = kani::any();
    kani::assume(n <= 3);
    let b: [u8; 3] = kani::any();
    let mut v = Vec::new();
    let mut i = 0;
    while i < n {
        let mut raw = [0u8; 32];
        raw[0] = b[i];
        v.push(raw.pack());
        i += 1;
    }
    let before_len = cps.inner.len();
    let r = cps.add_check_points(last_proved, start, &v);
    match r {
        Ok(_) => {
            assert!(n >= 2);
            assert!(start == interval * idx as u64);
            assert!(b[0] == 0);
            assert!(cps.inner.len() >= before_len);
        }
        Err(_) => { assert!(cps.inner.len() == before_len); }
    }
}
