#![allow(unused, dead_code, unused_mut)]
use std::{fmt, mem};
macro_rules! format { ($($t:tt)*) => {{ if false { let _ = format_args!($($t)*); } String::new() }} }
pub const CAP: usize = 3;
#[derive(Clone, Copy)]
pub struct Vec<T: Copy + Default> { buf: [T; CAP], len: usize }
impl<T: Copy + Default> Default for Vec<T> { fn default() -> Self { Vec { buf: [T::default(); CAP], len: 0 } } }
impl<T: Copy + Default> Vec<T> {
    pub fn new() -> Self { Self::default() }
    pub fn len(&self) -> usize { self.len }
    pub fn is_empty(&self) -> bool { self.len == 0 }
    pub fn push(&mut self, t: T) { assert!(self.len < CAP, "model Vec capacity"); self.buf[self.len] = t; self.len += 1; }
    pub fn remove(&mut self, i: usize) -> T { assert!(i < self.len); let r = self.buf[i]; let mut j = i; while j + 1 < self.len { self.buf[j] = self.buf[j + 1]; j += 1; } self.len -= 1; r }
}
impl<T: Copy + Default> std::ops::Index<std::ops::RangeFull> for Vec<T> { type Output = [T]; fn index(&self, _: std::ops::RangeFull) -> &[T] { &self.buf[..self.len] } }
impl<T: Copy + Default> std::ops::Index<usize> for Vec<T> { type Output = T; fn index(&self, i: usize) -> &T { assert!(i < self.len); &self.buf[i] } }

#[derive(Clone, Copy, PartialEq, Eq, Default, Debug)] pub struct U256(pub u64);
#[derive(Clone, Copy, PartialEq, Eq, Default, Debug)] pub struct Byte32(pub u8);
impl fmt::LowerHex for Byte32 { fn fmt(&self, f: &mut fmt::Formatter) -> fmt::Result { Ok(()) } }
#[derive(Clone, Copy, PartialEq, Eq, Default, Debug)]
pub struct HeaderView { pub id: u8, pub number: u64, pub parent: u8 }
impl HeaderView { pub fn number(&self) -> u64 { self.number } pub fn hash(&self) -> Byte32 { Byte32(self.id) }
    pub fn is_parent_of(&self, c: &HeaderView) -> bool { self.number + 1 == c.number && self.id == c.parent } }
#[derive(Clone, Copy, PartialEq, Eq, Default, Debug)] pub struct PBytes(pub u8);
impl PBytes { pub fn as_slice(&self) -> &[u8] { std::slice::from_ref(&self.0) } }
#[derive(Clone, Copy, Default, Debug)]
pub struct VerifiableHeader { pub header: HeaderView, pub uncles: u8, pub ext: Option<PBytes>, pub td: u64 }
impl VerifiableHeader {
    pub fn header(&self) -> &HeaderView { &self.header }
    pub fn uncles_hash(&self) -> Byte32 { Byte32(self.uncles) }
    pub fn extension(&self) -> Option<PBytes> { self.ext }
    pub fn total_difficulty(&self) -> U256 { U256(self.td) }
}
pub mod packed { #[derive(Clone, Copy, Default)] pub struct GetLastStateProof(pub u8); }
pub static mut NOW: u64 = 0;
pub fn unix_time_as_millis() -> u64 { unsafe { NOW } }
#[derive(Debug, Clone, Copy, PartialEq, Eq)] pub enum StatusCode { IncorrectLastState }
#[derive(Debug)] pub struct Status(pub StatusCode);
impl StatusCode { pub fn with_context<S>(self, _s: S) -> Status { Status(self) } }
pub trait HeaderUtils {} 

include!("extracted.rs");
impl fmt::Display for PeerState { fn fmt(&self, f: &mut fmt::Formatter) -> fmt::Result { Ok(()) } }

#[cfg(kani)]
mod harness {
    use super::*;
    fn any_vh() -> VerifiableHeader { let id: u8 = kani::any(); kani::assume(id < 3); VerifiableHeader { header: HeaderView { id, number: kani::any(), parent: kani::any() }, uncles: 0, ext: None, td: kani::any() } }
    fn tag(s: &PeerState) -> u8 { match s { PeerState::Initialized => 1, PeerState::RequestFirstLastState { .. } => 2, PeerState::OnlyHasLastState { .. } => 3, PeerState::RequestFirstLastStateProof { .. } => 4, PeerState::Ready { .. } => 5, PeerState::RequestNewLastState { .. } => 6, PeerState::RequestNewLastStateProof { .. } => 7 } }
    fn proved_id(s: &PeerState) -> Option<u8> { s.get_prove_state().map(|p| p.get_last_header().header().id) }
    #[kani::proof]
    #[kani::unwind(5)]
    fn walk() {
        let mut st = PeerState::default();
        let mut i = 0;
        while i < 4 {
            let ev: u8 = kani::any(); kani::assume(ev < 4);
            let before = tag(&st); let pid = proved_id(&st);
            let ls = LastState::new(any_vh());
            let r = match ev {
                0 => st.clone().request_last_state(kani::any()),
                1 => st.clone().receive_last_state(ls.clone()),
                2 => st.clone().request_last_state_proof(ProveRequest::new(ls.clone(), Default::default()), kani::any()),
                _ => st.clone().receive_last_state_proof(ProveState::new_from_request(ProveRequest::new(ls.clone(), Default::default()), Vec::new(), Vec::new())),
            };
            match r {
                Ok(n) => {
                    let after = tag(&n);
                    // documented table
                    let ok = match (before, ev) {
                        (1, 0) => after == 2, (3, 0) => after == 3, (5, 0) => after == 6,
                        (2, 1) => after == 3, (6, 1) => after == 5, (3, 1) | (4, 1) | (5, 1) | (7, 1) => after == before,
                        (3, 2) => after == 4, (5, 2) => after == 7, (4, 2) | (7, 2) => after == before,
                        (3, 3) | (4, 3) | (5, 3) | (7, 3) => after == 5,
                        _ => false,
                    };
                    assert!(ok, "transition outside the table");
                    if ev != 3 { assert!(proved_id(&n) == pid, "prove state changed without a proof"); }
                    st = n;
                }
                Err(_) => {}
            }
            i += 1;
        }
        kani::cover!(tag(&st) == 7);
    }
}
