#![allow(unused, dead_code, unused_mut, static_mut_refs)]
use std::ops::Deref;

pub const KCAP: usize = 32;
pub const VCAP: usize = 8;
pub const DBCAP: usize = 6;
pub const BCAP: usize = 8;
pub const CAP: usize = 3;
pub type BlockNumber = u64;

// ---- model byte string: zero-padded fixed array + length; loop-free compare ----
#[derive(Clone, Copy)]
pub struct ByteVec { pub buf: [u8; KCAP], pub len: usize }
impl ByteVec {
    pub fn new() -> Self { ByteVec { buf: [0; KCAP], len: 0 } }
    pub fn push(&mut self, b: u8) { assert!(self.len < KCAP, "model ByteVec capacity"); self.buf[self.len] = b; self.len += 1; }
    pub fn extend_from_slice(&mut self, s: &[u8]) { let n = s.len(); assert!(self.len + n <= KCAP, "model ByteVec capacity"); self.buf[self.len..self.len + n].copy_from_slice(s); self.len += n; }
    pub fn from_slice(s: &[u8]) -> Self { let mut v = Self::new(); v.extend_from_slice(s); v }
    fn hi(&self) -> u128 { let mut a = [0u8; 16]; a.copy_from_slice(&self.buf[..16]); u128::from_be_bytes(a) }
    fn lo(&self) -> u128 { let mut a = [0u8; 16]; a.copy_from_slice(&self.buf[16..32]); u128::from_be_bytes(a) }
    pub fn same(&self, o: &ByteVec) -> bool { self.len == o.len && self.hi() == o.hi() && self.lo() == o.lo() }
    pub fn lt(&self, o: &ByteVec) -> bool { let (a, b, c, d) = (self.hi(), o.hi(), self.lo(), o.lo()); a < b || (a == b && (c < d || (c == d && self.len < o.len))) }
}
impl Deref for ByteVec { type Target = [u8]; fn deref(&self) -> &[u8] { &self.buf[..self.len] } }
impl AsRef<[u8]> for ByteVec { fn as_ref(&self) -> &[u8] { &self.buf[..self.len] } }

// ---- molecule models ----
#[derive(Clone, Copy, PartialEq, Eq, Default)]
pub struct Script { pub bytes: [u8; 2] }
impl Script {
    pub fn as_slice(&self) -> &[u8] { &self.bytes[..] }
    pub fn from_slice(s: &[u8]) -> Result<Script, ()> { if s.len() == 2 { Ok(Script { bytes: [s[0], s[1]] }) } else { Err(()) } }
    pub fn code_hash(&self) -> Bs { Bs { b: [self.bytes[0]] } }
    pub fn hash_type(&self) -> Bs { Bs { b: [0] } }
    pub fn args(&self) -> Bs { Bs { b: [self.bytes[1]] } }
}
pub struct Bs { b: [u8; 1] }
impl Bs { pub fn as_slice(&self) -> &[u8] { &self.b[..] } pub fn raw_data(&self) -> std::vec::Vec<u8> { self.b.to_vec() } }
#[derive(Clone, Copy, PartialEq, Eq, Default)]
pub struct Byte32(pub u8);
impl Byte32 { pub fn as_slice(&self) -> &[u8] { std::slice::from_ref(&self.0) } }
#[derive(Clone, Copy, Default)] pub struct Block;

// ---- key/value store model: sorted array ----
#[derive(Clone, Copy)]
pub struct Ent { pub k: ByteVec, pub v: [u8; VCAP], pub vlen: usize }
pub struct Db { pub e: [Ent; DBCAP], pub n: usize }
pub static mut DB: Db = Db { e: [Ent { k: ByteVec { buf: [0; KCAP], len: 0 }, v: [0; VCAP], vlen: 0 }; DBCAP], n: 0 };
pub static mut GENESIS_FILTERED: bool = false;
impl Db {
    fn find(&self, k: &[u8]) -> Option<usize> { let kk = ByteVec::from_slice(k); let mut i = 0; while i < self.n { if self.e[i].k.same(&kk) { return Some(i); } i += 1; } None }
    pub fn put_raw(&mut self, k: &[u8], v: &[u8]) {
        assert!(v.len() <= VCAP, "model value capacity");
        let mut val = [0u8; VCAP]; val[..v.len()].copy_from_slice(v);
        if let Some(i) = self.find(k) { self.e[i].v = val; self.e[i].vlen = v.len(); return; }
        assert!(self.n < DBCAP, "model db capacity");
        let kk = ByteVec::from_slice(k);
        let mut pos = 0; while pos < self.n && self.e[pos].k.lt(&kk) { pos += 1; }
        let mut i = self.n; while i > pos { self.e[i] = self.e[i - 1]; i -= 1; }
        self.e[pos] = Ent { k: kk, v: val, vlen: v.len() }; self.n += 1;
    }
    pub fn del_raw(&mut self, k: &[u8]) { if let Some(i) = self.find(k) { let mut j = i; while j + 1 < self.n { self.e[j] = self.e[j + 1]; j += 1; } self.n -= 1; } }
}
#[derive(Clone, Copy)] pub struct MVal { v: [u8; VCAP], len: usize }
impl AsRef<[u8]> for MVal { fn as_ref(&self) -> &[u8] { &self.v[..self.len] } }
pub enum Direction { Forward, Reverse }
pub enum IteratorMode<'a> { From(&'a [u8], Direction) }
pub struct DbIter { pos: usize, from: ByteVec }
impl Iterator for DbIter { type Item = (ByteVec, MVal); fn next(&mut self) -> Option<Self::Item> { unsafe { while self.pos < DB.n { let e = DB.e[self.pos]; self.pos += 1; if !e.k.lt(&self.from) { return Some((e.k, MVal { v: e.v, len: e.vlen })); } } None } } }
pub struct DbHandle;
impl DbHandle {
    pub fn iterator(&self, mode: IteratorMode) -> DbIter { let IteratorMode::From(from, _d) = mode; DbIter { pos: 0, from: ByteVec::from_slice(from) } }
    pub fn get_pinned<K: AsRef<[u8]>>(&self, k: K) -> Result<Option<MVal>, ()> { unsafe { Ok(DB.find(k.as_ref()).map(|i| MVal { v: DB.e[i].v, len: DB.e[i].vlen })) } }
    pub fn put<K: AsRef<[u8]>, V: AsRef<[u8]>>(&self, k: K, v: V) -> Result<(), ()> { unsafe { DB.put_raw(k.as_ref(), v.as_ref()); } Ok(()) }
}
#[derive(Clone, Copy)] pub struct Op { put: bool, k: ByteVec, v: [u8; VCAP], vlen: usize }
pub struct Batch { ops: [Op; BCAP], n: usize }
impl Batch {
    pub fn put<K: AsRef<[u8]>, V: AsRef<[u8]>>(&mut self, k: K, v: V) -> Result<(), ()> { assert!(self.n < BCAP, "model batch capacity"); let vs = v.as_ref(); let mut val = [0u8; VCAP]; val[..vs.len()].copy_from_slice(vs); self.ops[self.n] = Op { put: true, k: ByteVec::from_slice(k.as_ref()), v: val, vlen: vs.len() }; self.n += 1; Ok(()) }
    pub fn delete<K: AsRef<[u8]>>(&mut self, k: K) -> Result<(), ()> { assert!(self.n < BCAP, "model batch capacity"); self.ops[self.n] = Op { put: false, k: ByteVec::from_slice(k.as_ref()), v: [0; VCAP], vlen: 0 }; self.n += 1; Ok(()) }
    pub fn commit(self) -> Result<(), ()> { unsafe { let mut i = 0; while i < self.n { let o = self.ops[i]; if o.put { DB.put_raw(&o.k, &o.v[..o.vlen]); } else { DB.del_raw(&o.k); } i += 1; } } Ok(()) }
}
pub struct Storage { pub db: DbHandle }
impl Storage {
    fn batch(&self) -> Batch { Batch { ops: [Op { put: false, k: ByteVec::new(), v: [0; VCAP], vlen: 0 }; BCAP], n: 0 } }
    pub fn get_genesis_block(&self) -> Block { Block }
    pub fn filter_block(&self, _b: Block) { unsafe { GENESIS_FILTERED = true; } }
}
impl Default for ScriptType { fn default() -> Self { ScriptType::Lock } }
impl Clone for ScriptStatus { fn clone(&self) -> Self { ScriptStatus { script: self.script, script_type: self.script_type, block_number: self.block_number } } }
impl Copy for ScriptStatus {}
impl Default for ScriptStatus { fn default() -> Self { ScriptStatus { script: Script::default(), script_type: ScriptType::Lock, block_number: 0 } } }

include!("extracted.rs");

#[cfg(kani)]
mod harness {
    use super::*;
    fn skey(id: u8, ty: u8) -> ByteVec { let mut k = ByteVec::new(); k.push(224); k.extend_from_slice(b"FILTER_SCRIPTS"); k.push(id); k.push(7); k.push(ty); k }
    fn mkey(start: u64) -> ByteVec { let mut k = ByteVec::new(); k.push(224); k.extend_from_slice(b"MATCHED_BLOCKS"); k.extend_from_slice(&start.to_be_bytes()); k }
    fn minkey() -> ByteVec { let mut k = ByteVec::new(); k.push(224); k.extend_from_slice(b"MIN_FILTERED_NUMBER"); k }
    unsafe fn script_number(id: u8) -> Option<u64> { DB.find(&skey(id, 0)).map(|i| u64::from_be_bytes(DB.e[i].v)) }
    #[kani::proof]
    #[kani::unwind(24)]
    fn set_scripts_partial() {
        let st = Storage { db: DbHandle };
        let min0: u64 = kani::any();
        let a_num: u64 = kani::any();
        let has_a: bool = kani::any();
        let pending: bool = kani::any();
        unsafe {
            DB.put_raw(&minkey(), &min0.to_le_bytes());
            if has_a { DB.put_raw(&skey(1, 0), &a_num.to_be_bytes()); }
            // invariant J: A may lag min0 only while a pending record covers the gap
            if has_a && !pending { kani::assume(a_num >= min0); }
            if pending { kani::assume(has_a && a_num < min0); DB.put_raw(&mkey(a_num + 1), &[1u8; 8]); }
        }
        let b_num: u64 = kani::any();
        kani::assume(b_num != 0);
        let mut scripts = std::vec::Vec::new();
        scripts.push(ScriptStatus { script: Script { bytes: [2, 7] }, script_type: ScriptType::Lock, block_number: b_num });
        st.update_filter_scripts(scripts, SetScriptsCommand::Partial);
        unsafe {
            // documented upsert
            assert!(script_number(2) == Some(b_num));
            assert!(script_number(1) == if has_a { Some(a_num) } else { None });
            // pending records discarded
            assert!(DB.find(&mkey(a_num.wrapping_add(1))).is_none());
            let min1 = st.get_min_filtered_block_number();
            assert!(min1 <= b_num);
            kani::cover!(pending && min1 > a_num);
            if has_a { assert!(min1 <= a_num, "kept script loses blocks"); }
        }
    }
}
