#![allow(unused, dead_code)]
use std::fmt;
use std::cmp::Ordering;

// ---- model prelude ----
macro_rules! trace { ($($t:tt)*) => {{ if false { let _ = format_args!($($t)*); } }} }
macro_rules! debug { ($($t:tt)*) => {{ if false { let _ = format_args!($($t)*); } }} }
macro_rules! error { ($($t:tt)*) => {{ if false { let _ = format_args!($($t)*); } }} }
macro_rules! warn { ($($t:tt)*) => {{ if false { let _ = format_args!($($t)*); } }} }
macro_rules! log_enabled { ($($t:tt)*) => { false } }
macro_rules! format { ($($t:tt)*) => {{ if false { let _ = format_args!($($t)*); } String::new() }} }
pub enum Level { Trace }


// ---- array-backed Vec model (capacity CAP) ----
pub const CAP: usize = 4;
#[derive(Clone, Copy)]
pub struct Vec<T: Copy + Default> { buf: [T; CAP], len: usize }
impl<T: Copy + Default> Vec<T> {
    pub fn new() -> Self { Vec { buf: [T::default(); CAP], len: 0 } }
    pub fn push(&mut self, t: T) { assert!(self.len < CAP, "model Vec capacity"); self.buf[self.len] = t; self.len += 1; }
    pub fn first(&self) -> Option<&T> { if self.len == 0 { None } else { Some(&self.buf[0]) } }
    pub fn is_empty(&self) -> bool { self.len == 0 }
    pub fn len(&self) -> usize { self.len }
    pub fn remove(&mut self, idx: usize) -> T {
        assert!(idx < self.len, "removal index out of bounds");
        let r = self.buf[idx];
        let mut i = idx;
        while i + 1 < self.len { self.buf[i] = self.buf[i + 1]; i += 1; }
        self.len -= 1;
        r
    }
    pub fn iter(&self) -> std::slice::Iter<'_, T> { self.buf[..self.len].iter() }
}
impl<T: Copy + Default> FromIterator<T> for Vec<T> {
    fn from_iter<I: IntoIterator<Item = T>>(it: I) -> Self { let mut v = Vec::new(); for x in it { v.push(x); } v }
}
pub struct VecIntoIter<T: Copy + Default> { v: Vec<T>, pos: usize }
impl<T: Copy + Default> Iterator for VecIntoIter<T> {
    type Item = T;
    fn next(&mut self) -> Option<T> { if self.pos < self.v.len { let r = self.v.buf[self.pos]; self.pos += 1; Some(r) } else { None } }
}
impl<T: Copy + Default> IntoIterator for Vec<T> { type Item = T; type IntoIter = VecIntoIter<T>; fn into_iter(self) -> VecIntoIter<T> { VecIntoIter { v: self, pos: 0 } } }
impl<'a, T: Copy + Default> IntoIterator for &'a Vec<T> { type Item = &'a T; type IntoIter = std::slice::Iter<'a, T>; fn into_iter(self) -> Self::IntoIter { self.iter() } }

pub type BlockNumber = u64;

#[derive(Clone, Copy, PartialEq, Eq, PartialOrd, Ord, Debug, Default)]
pub struct U256(pub u64);
impl fmt::LowerHex for U256 { fn fmt(&self, f: &mut fmt::Formatter) -> fmt::Result { Ok(()) } }
impl fmt::Display for U256 { fn fmt(&self, f: &mut fmt::Formatter) -> fmt::Result { Ok(()) } }

#[derive(Clone, Copy, PartialEq, Eq, Debug, Default)]
pub struct Byte32(pub u8);
impl fmt::LowerHex for Byte32 { fn fmt(&self, f: &mut fmt::Formatter) -> fmt::Result { Ok(()) } }

pub trait Unpack<T> { fn unpack(&self) -> T; }
#[derive(Clone, Copy)] pub struct PU64(pub u64);
impl Unpack<u64> for PU64 { fn unpack(&self) -> u64 { self.0 } }
#[derive(Clone, Copy, Default)] pub struct PU256(pub U256);
impl Unpack<U256> for PU256 { fn unpack(&self) -> U256 { self.0 } }

#[derive(Clone, Copy, Default)]
pub struct EpochNumberWithFraction(pub u64);
impl fmt::Display for EpochNumberWithFraction { fn fmt(&self, f: &mut fmt::Formatter) -> fmt::Result { Ok(()) } }

#[derive(Clone, Copy, Default)]
pub struct HeaderView { pub number: u64, pub hash: Byte32, pub parent_hash: Byte32, pub epoch: u64, pub diff: u64 }
impl HeaderView {
    pub fn number(&self) -> u64 { self.number }
    pub fn hash(&self) -> Byte32 { self.hash }
    pub fn parent_hash(&self) -> Byte32 { self.parent_hash }
    pub fn epoch(&self) -> EpochNumberWithFraction { EpochNumberWithFraction(self.epoch) }
    pub fn is_parent_of(&self, c: &HeaderView) -> bool { kani::any() }
}
#[derive(Clone, Copy, Default)]
pub struct HeaderDigest { pub td: U256 }
impl HeaderDigest { pub fn total_difficulty(&self) -> PU256 { PU256(self.td) } }
#[derive(Clone, Copy, Default)]
pub struct VerifiableHeader { pub header: HeaderView, pub parent_td: U256 }
impl VerifiableHeader {
    pub fn header(&self) -> &HeaderView { &self.header }
    pub fn parent_chain_root(&self) -> HeaderDigest { HeaderDigest { td: self.parent_td } }
    pub fn total_difficulty(&self) -> U256 {
        // numext `+` panics on overflow
        U256(self.parent_td.0.checked_add(self.header.diff).expect("U256: attempt to add with overflow"))
    }
}
pub mod packed {
    use super::*;
    pub struct GetLastStateProof { pub start_number: u64, pub boundary: U256, pub diffs: [U256; 3], pub nd: usize }
    impl GetLastStateProof {
        pub fn start_number(&self) -> PU64 { PU64(self.start_number) }
        pub fn difficulty_boundary(&self) -> PU256 { PU256(self.boundary) }
        pub fn difficulties(&self) -> Vec<PU256> { let mut v = Vec::new(); let mut i = 0; while i < self.nd { v.push(PU256(self.diffs[i])); i += 1; } v }
    }
}
#[derive(Clone, Copy, Debug, PartialEq, Eq)]
pub enum StatusCode { MalformedProtocolMessage, InvalidReorgHeaders, InvalidSamples, InvalidParentBlock }
#[derive(Debug)]
pub struct Status(pub StatusCode);
impl StatusCode { pub fn with_context<S>(self, _s: S) -> Status { Status(self) } }
impl From<StatusCode> for Status { fn from(c: StatusCode) -> Self { Status(c) } }
fn print_difficulties_distribution(_a: &packed::GetLastStateProof, _b: &[VerifiableHeader], _c: &U256) {}

include!("extracted.rs");

#[cfg(kani)]
mod harness {
    use super::*;
    fn any_vh() -> VerifiableHeader {
        VerifiableHeader { header: HeaderView { number: kani::any(), hash: Byte32(0), parent_hash: Byte32(0), epoch: 0, diff: kani::any() }, parent_td: U256(kani::any()) }
    }
    #[kani::proof]
    #[kani::unwind(6)]
    fn shape() {
        let last_n: usize = kani::any();
        kani::assume(last_n >= 1 && last_n <= 2);
        let n: usize = kani::any();
        kani::assume(n <= 4);
        let arr = [any_vh(), any_vh(), any_vh(), any_vh()];
        for i in 0..4 { kani::assume(arr[i].parent_td.0.checked_add(arr[i].header.diff).is_some()); }
        let headers = &arr[..n];
        let last = any_vh();
        let nd: usize = kani::any();
        kani::assume(nd <= 3);
        let req = packed::GetLastStateProof { start_number: kani::any(), boundary: U256(kani::any()), diffs: [U256(kani::any()), U256(kani::any()), U256(kani::any())], nd };
        let r = check_if_response_is_matched(last_n, &req, headers, &last);
        if let Ok((a, b, c)) = r {
            assert!(a + b + c == n);
            assert!(n > 0);
            // sorted
            for i in 1..n { assert!(headers[i-1].header.number < headers[i].header.number); }
            // reorg section strictly before start, rest at/after
            for i in 0..n { assert!((headers[i].header.number < req.start_number) == (i < a)); }
            if b == 0 && c > 0 {
                assert!(headers[a].header.number == req.start_number);
            }
            kani::cover!(b == 2);
            kani::cover!(a == 1 && b == 1 && c == 2);
        }
    }
}
