import sys,re
def find_item(src, header_re):
    m=re.search(header_re, src, re.M)
    assert m, header_re
    i=m.start()
    # include preceding attributes/doc comments
    j=src.index('{', m.end()-1)
    depth=0; k=j
    n=len(src)
    while k<n:
        c=src[k]
        if src.startswith('//',k):
            k=src.index('\n',k); continue
        if src.startswith('/*',k):
            k=src.index('*/',k)+2; continue
        if c=='"':
            k+=1
            while src[k]!='"':
                if src[k]=='\\': k+=1
                k+=1
            k+=1; continue
        if c=="'":
            # char literal or lifetime
            m2=re.match(r"'(\\.|[^\\'])'", src[k:])
            if m2: k+=m2.end(); continue
            k+=1; continue
        if c=='{': depth+=1
        elif c=='}':
            depth-=1
            if depth==0: return src[i:k+1]
        k+=1
    raise Exception('unbalanced')
src=open('/repo/src/protocols/light_client/components/send_last_state_proof.rs').read()
out=[]
out.append(find_item(src, r'^struct TotalDifficulties'))
out.append(find_item(src, r'^impl fmt::Display for TotalDifficulties'))
out.append(find_item(src, r'^macro_rules! trace_sample'))
out.append(find_item(src, r'^pub\(crate\) fn check_if_response_is_matched'))
out.append(find_item(src, r'^pub\(crate\) fn check_continuous_headers'))
open('src/extracted.rs','w').write('\n\n'.join(out)+'\n')
