#![allow(unused, dead_code, unused_mut, static_mut_refs)]
use std::{cmp, fmt};
use std::ops::{Deref, DerefMut, Index, RangeToInclusive};
macro_rules! trace { ($($t:tt)*) => {{ if false { let _ = format_args!($($t)*); } }} }
macro_rules! debug { ($($t:tt)*) => {{ if false { let _ = format_args!($($t)*); } }} }
macro_rules! info { ($($t:tt)*) => {{ if false { let _ = format_args!($($t)*); } }} }
macro_rules! warn { ($($t:tt)*) => {{ if false { let _ = format_args!($($t)*); } }} }
macro_rules! format { ($($t:tt)*) => {{ if false { let _ = format_args!($($t)*); } String::new() }} }
pub type BlockNumber = u64;
pub const CAP: usize = 4;
pub const INIT_BLOCKS_IN_TRANSIT_PER_PEER: usize = 16;
pub const INTERVAL: u64 = 4;   // model check-point interval (real: 2000); stated bound
pub const WIN: usize = 16;     // block numbers 0..16

#[derive(Clone, Copy)]
pub struct Vec<T: Copy + Default> { buf: [T; CAP], len: usize }
impl<T: Copy + Default> Default for Vec<T> { fn default() -> Self { Vec { buf: [T::default(); CAP], len: 0 } } }
impl<T: Copy + Default> Vec<T> {
    pub fn new() -> Self { Self::default() }
    pub fn push(&mut self, t: T) { assert!(self.len < CAP, "model Vec capacity"); self.buf[self.len] = t; self.len += 1; }
    pub fn len(&self) -> usize { self.len }
    pub fn is_empty(&self) -> bool { self.len == 0 }
    pub fn get(&self, i: usize) -> Option<&T> { if i < self.len { Some(&self.buf[i]) } else { None } }
    pub fn iter(&self) -> std::slice::Iter<'_, T> { self.buf[..self.len].iter() }
    pub fn drain(&mut self, r: RangeToInclusive<usize>) { let n = r.end + 1; assert!(n <= self.len, "drain out of range"); let mut i = 0; while i + n < self.len { self.buf[i] = self.buf[i + n]; i += 1; } self.len -= n; }
    pub fn choose<R>(&self, _r: &mut R) -> Option<&T> { if self.len == 0 { None } else { let i: usize = kani_any_usize(); if i < self.len { Some(&self.buf[i]) } else { Some(&self.buf[0]) } } }
}
#[cfg(kani)] fn kani_any_usize() -> usize { kani::any() }
#[cfg(not(kani))] fn kani_any_usize() -> usize { 0 }
impl<T: Copy + Default> Index<usize> for Vec<T> { type Output = T; fn index(&self, i: usize) -> &T { assert!(i < self.len, "index out of bounds"); &self.buf[i] } }
impl<T: Copy + Default> FromIterator<T> for Vec<T> { fn from_iter<I: IntoIterator<Item = T>>(it: I) -> Self { let mut v = Vec::new(); for x in it { v.push(x); } v } }
pub struct VecIntoIter<T: Copy + Default> { v: Vec<T>, pos: usize }
impl<T: Copy + Default> Iterator for VecIntoIter<T> { type Item = T; fn next(&mut self) -> Option<T> { if self.pos < self.v.len { let r = self.v.buf[self.pos]; self.pos += 1; Some(r) } else { None } } }
impl<T: Copy + Default> IntoIterator for Vec<T> { type Item = T; type IntoIter = VecIntoIter<T>; fn into_iter(self) -> VecIntoIter<T> { VecIntoIter { v: self, pos: 0 } } }

#[derive(Clone, Copy, PartialEq, Eq, Default, Debug)] #[repr(transparent)] pub struct Byte32(pub u8);
impl fmt::LowerHex for Byte32 { fn fmt(&self, f: &mut fmt::Formatter) -> fmt::Result { Ok(()) } }
impl Byte32 { pub fn pack(self) -> Byte32 { self } }
#[derive(Clone, Copy, PartialEq, Eq, Default, Debug)] pub struct PeerIndex(pub u8);
impl fmt::Display for PeerIndex { fn fmt(&self, f: &mut fmt::Formatter) -> fmt::Result { Ok(()) } }
pub trait Unpack<T> { fn unpack(&self) -> T; }
#[derive(Clone, Copy, Default)] pub struct PU64(pub u64);
impl Unpack<u64> for PU64 { fn unpack(&self) -> u64 { self.0 } }
#[derive(Clone, Copy, Default, PartialEq, Eq)] pub struct FilterBytes(pub u8);
pub fn calc_filter_hash(parent: &Byte32, filter: &FilterBytes) -> Byte32 { Byte32(parent.0.wrapping_mul(31).wrapping_add(filter.0.wrapping_mul(7)).wrapping_add(1)) }
pub mod packed {
    use super::*;
    #[derive(Clone, Copy, Default)]
    pub struct BlockFilters { pub start: u64, pub filters: Vec<FilterBytes>, pub hashes: Vec<Byte32> }
    impl BlockFilters { pub fn start_number(&self) -> PU64 { PU64(self.start) } pub fn filters(&self) -> Vec<FilterBytes> { self.filters } pub fn block_hashes(&self) -> Vec<Byte32> { self.hashes } }
    pub struct BlockFiltersReader<'a> { pub e: &'a BlockFilters }
    impl<'a> BlockFiltersReader<'a> { pub fn to_entity(&self) -> BlockFilters { *self.e } }
    #[derive(Clone, Copy, Default)] pub struct Header;
}
#[derive(Clone, Copy, Debug, PartialEq, Eq)] pub enum StatusCode { OK, MalformedProtocolMessage, Ignore, BlockFilterDataIsUnexpected }
#[derive(Debug, Clone, Copy, PartialEq, Eq)] pub struct Status(pub StatusCode);
impl Status { pub fn ok() -> Status { Status(StatusCode::OK) } }
impl StatusCode { pub fn with_context<S>(self, _s: S) -> Status { Status(self) } }

#[derive(Clone, Copy, Default)] pub struct HeaderView { pub hash: Byte32 }
impl HeaderView { pub fn hash(&self) -> Byte32 { self.hash } }
#[derive(Clone, Copy, Default)] pub struct VerifiableHeader { pub h: HeaderView }
impl VerifiableHeader { pub fn header(&self) -> &HeaderView { &self.h } }
#[derive(Clone, Copy, Default)] pub struct ProveState { pub last: VerifiableHeader }
impl ProveState { pub fn get_last_header(&self) -> &VerifiableHeader { &self.last } }
#[derive(Clone, Copy, Default)] pub struct PeerState { pub ps: Option<ProveState> }
impl PeerState { pub fn get_prove_state(&self) -> Option<&ProveState> { self.ps.as_ref() } }

pub struct MatchedMap { pub n: usize }
impl MatchedMap { pub fn is_empty(&self) -> bool { self.n == 0 } }
pub struct Guard<'a> { m: &'a mut MatchedMap }
impl<'a> Deref for Guard<'a> { type Target = MatchedMap; fn deref(&self) -> &MatchedMap { self.m } }
impl<'a> DerefMut for Guard<'a> { fn deref_mut(&mut self) -> &mut MatchedMap { self.m } }
pub struct RwLock { pub inner: std::cell::UnsafeCell<MatchedMap> }
impl RwLock { pub fn write(&self) -> Result<Guard<'_>, ()> { unsafe { G.lock_taken = true; Ok(Guard { m: &mut *self.inner.get() }) } } }

pub struct Ghost { pub lock_taken: bool, pub min_upd: Option<u64>, pub blk_upd: Option<u64>, pub added: Option<(u64, u64, Vec<(Byte32, bool)>)>, pub asked: bool }
pub static mut G: Ghost = Ghost { lock_taken: false, min_upd: None, blk_upd: None, added: None, asked: false };

pub struct Storage { pub scripts_empty: bool, pub min_filtered: u64, pub earliest: Option<(u64, u64, Vec<(Byte32, bool)>)>, pub fin_idx: u32, pub fh: [Byte32; WIN] }
impl Storage {
    pub fn is_filter_scripts_empty(&self) -> bool { self.scripts_empty }
    pub fn get_min_filtered_block_number(&self) -> u64 { self.min_filtered }
    pub fn get_earliest_matched_blocks(&self) -> Option<(u64, u64, Vec<(Byte32, bool)>)> { unsafe { if G.added.is_some() && self.earliest.is_none() { G.added } else { self.earliest } } }
    pub fn update_block_number(&self, n: u64) { unsafe { G.blk_upd = Some(n); } }
    pub fn get_last_check_point(&self) -> (u32, Byte32) { (self.fin_idx, self.fh[(self.fin_idx as u64 * INTERVAL) as usize]) }
    pub fn get_check_points(&self, idx: u32, limit: usize) -> Vec<Byte32> { let mut v = Vec::new(); let mut i = idx; while (i <= self.fin_idx) && v.len() < limit { v.push(self.fh[(i as u64 * INTERVAL) as usize]); i += 1; } v }
    pub fn add_matched_blocks(&self, start: u64, count: u64, blocks: Vec<(Byte32, bool)>) { assert!(!blocks.is_empty()); unsafe { G.added = Some((start, count, blocks)); } }
    pub fn get_tip_header(&self) -> packed::Header { packed::Header }
}
pub struct Peers { pub state: Option<PeerState>, pub mb: RwLock, pub cached_idx: u32, pub cached_len: usize, pub latest_len: usize, pub fh: [Byte32; WIN] }
impl Peers {
    pub fn get_state(&self, _p: &PeerIndex) -> Option<PeerState> { self.state }
    pub fn matched_blocks(&self) -> &RwLock { &self.mb }
    pub fn calc_check_point_number(&self, idx: u32) -> u64 { INTERVAL * idx as u64 }
    pub fn get_cached_block_filter_hashes(&self) -> (u32, Vec<Byte32>) { let mut v = Vec::new(); let base = self.cached_idx as u64 * INTERVAL; let mut i = 0; while i < self.cached_len { v.push(self.fh[(base + 1 + i as u64) as usize]); i += 1; } (self.cached_idx, v) }
    pub fn get_latest_block_filter_hashes(&self, fin: u32) -> Vec<Byte32> { let mut v = Vec::new(); let base = fin as u64 * INTERVAL; let mut i = 0; while i < self.latest_len { v.push(self.fh[(base + 1 + i as u64) as usize]); i += 1; } v }
    pub fn add_matched_blocks(&self, m: &mut MatchedMap, b: Vec<(Byte32, bool)>) { m.n += b.len(); }
    pub fn could_request_more_block_filters(&self, _f: u32, _n: u64) -> bool { kani_any_usize() & 1 == 1 }
    pub fn get_best_proved_peers(&self, _t: &packed::Header) -> Vec<PeerIndex> { let mut v = Vec::new(); v.push(PeerIndex(1)); v }
}
pub struct Arc<T: 'static>(pub &'static T);
impl<T> Arc<T> { pub fn clone(a: &Arc<T>) -> Arc<T> { Arc(a.0) } pub fn as_ref(&self) -> &T { self.0 } }
impl<T> Deref for Arc<T> { type Target = T; fn deref(&self) -> &T { self.0 } }
pub struct Nc;
pub struct FilterProtocol { pub storage: Storage, pub peers: Arc<Peers>, pub matched: [bool; CAP] }
impl FilterProtocol {
    pub fn check_filters_data(&self, bf: packed::BlockFilters, limit: usize) -> Vec<Byte32> { let mut v = Vec::new(); let mut i = 0; while i < limit && i < bf.filters.len() { if self.matched[i] { v.push(bf.hashes[i]); } i += 1; } v }
    pub fn update_min_filtered_block_number(&self, n: u64) { unsafe { G.min_upd = Some(n); } }
    pub fn send_get_block_filters(&self, _nc: Arc<Nc>, _p: PeerIndex, _n: u64) { unsafe { G.asked = true; } }
    pub fn try_send_get_block_filter_hashes(&self, _nc: Arc<Nc>) {}
}
pub fn prove_or_download_matched_blocks(_p: Arc<Peers>, _t: &packed::Header, _m: &MatchedMap, _nc: &Nc, _n: usize) {}
pub mod rand { pub struct Rng; pub fn thread_rng() -> Rng { Rng } }
pub struct BlockFiltersProcess<'a> { pub message: packed::BlockFiltersReader<'a>, pub filter: &'a FilterProtocol, pub nc: Arc<Nc>, pub peer: PeerIndex }

include!("extracted.rs");

#[cfg(kani)]
mod harness {
    use super::*;
    static NC: Nc = Nc;
    #[kani::proof]
    #[kani::unwind(6)]
    fn filters_step() {
        let fh: [u8; WIN] = kani::any(); let fhb: [Byte32; WIN] = unsafe { std::mem::transmute(fh) };
        let fin_idx: u32 = kani::any(); kani::assume(fin_idx <= 2);
        let min_filtered: u64 = kani::any(); kani::assume(min_filtered < 11);
        let cached_idx: u32 = kani::any(); kani::assume(cached_idx <= 2);
        let cached_len: usize = kani::any(); kani::assume(cached_len <= 4);
        let latest_len: usize = kani::any(); kani::assume(latest_len <= 4);
        let proved: bool = kani::any();
        let peers: &'static Peers = Box::leak(Box::new(Peers { state: Some(PeerState { ps: if proved { Some(ProveState::default()) } else { None } }), mb: RwLock { inner: std::cell::UnsafeCell::new(MatchedMap { n: if kani::any() { 0 } else { 1 } }) }, cached_idx, cached_len, latest_len, fh: fhb }));
        let fp = FilterProtocol { storage: Storage { scripts_empty: kani::any(), min_filtered, earliest: None, fin_idx, fh: fhb }, peers: Arc(peers), matched: kani::any() };
        let nf: usize = kani::any(); kani::assume(nf <= 3);
        let nb: usize = kani::any(); kani::assume(nb <= 3);
        let fb: [u8; 3] = kani::any(); let hb: [u8; 3] = kani::any();
        let mut filters = Vec::new(); let mut hashes = Vec::new();
        let mut i = 0; while i < nf { filters.push(FilterBytes(fb[i])); i += 1; }
        let mut i = 0; while i < nb { hashes.push(Byte32(hb[i])); i += 1; }
        let start: u64 = kani::any();
        let msg = packed::BlockFilters { start, filters, hashes };
        let p = BlockFiltersProcess { message: packed::BlockFiltersReader { e: &msg }, filter: &fp, nc: Arc(&NC), peer: PeerIndex(0) };
        let st = p.execute();
        unsafe {
            if let Some(f) = G.min_upd {
                assert!(proved && !fp.storage.scripts_empty);
                assert!(start == min_filtered + 1);
                assert!(nf == nb && nf > 0);
                assert!(f >= start - 1 && f <= start - 1 + nf as u64);
                let accepted = (f - (start - 1)) as usize;
                // authenticity of the accepted prefix against ground truth FH
                let mut parent = fhb[(start - 1) as usize];
                let mut k = 0;
                while k < accepted {
                    let h = calc_filter_hash(&parent, &FilterBytes(fb[k]));
                    assert!(h == fhb[(start as usize) + k], "accepted filter is not authentic");
                    parent = h; k += 1;
                }
                kani::cover!(accepted == 2 && start > fin_idx as u64 * INTERVAL);
                kani::cover!(accepted >= 1 && start <= fin_idx as u64 * INTERVAL);
            } else {
                assert!(G.added.is_none());
            }
            if let Some((s, c, blocks)) = G.added {
                assert!(s == start && G.min_upd == Some(start - 1 + c));
            }
        }
    }
}
