#!/usr/bin/env python3
"""Regenerate `extracted.rs` of each K-model probe from /repo's current source.
Usage: regen_extracted.py <probe> <out_file>   with probe in B2 C D E2 F G H"""
import sys, re
import extract

R = '/repo/src/'
def rd(p): return open(R + p).read()

def B2():
    s = rd('protocols/light_client/components/send_last_state_proof.rs')
    return [extract.find_item(s, r) for r in [r'^struct TotalDifficulties', r'^impl fmt::Display for TotalDifficulties',
            r'^macro_rules! trace_sample', r'^pub\(crate\) fn check_if_response_is_matched', r'^pub\(crate\) fn check_continuous_headers']]

def C():
    s = rd('protocols/light_client/mod.rs')
    return ['impl LightClientProtocol {\n' + extract.find_item(s, r'^    fn finalize_check_points') + '\n}']

def D():
    s = rd('storage.rs')
    m = lambda name: extract.find_item(s, r'^    (?:pub )?fn ' + name + r'\b')
    ms = ['update_filter_scripts', 'is_filter_scripts_empty', 'get_min_filtered_block_number',
          'update_min_filtered_block_number', 'clear_matched_blocks', 'update_block_number']
    consts = '\n'.join(re.findall(r'^(?:pub )?const [A-Z_]+: &str = "[^"]*";', s, re.M))
    types = 'pub type TxIndex = u32;\npub type CpIndex = u32;\npub type OutputIndex = u32;\npub type CellIndex = u32;\n'
    return [consts, types, extract.find_item(s, r'^pub struct ScriptStatus'), extract.find_item(s, r'^pub enum SetScriptsCommand'),
            '#[derive(PartialEq, Eq, Hash, Clone, Copy)]\n' + extract.find_item(s, r'^pub enum ScriptType'),
            extract.find_item(s, r'^pub enum CellType'), extract.find_item(s, r'^pub enum Key<'),
            '#[repr(u8)]\n' + extract.find_item(s, r'^pub enum KeyPrefix'), extract.find_item(s, r"^impl<'a> Key<'a>"),
            extract.find_item(s, r"^impl<'a> From<Key<'a>> for Vec<u8>"), extract.find_item(s, r'^fn append_key'),
            extract.find_item(s, r'^pub fn extract_raw_data'), 'impl Storage {\n' + '\n\n'.join(m(x) for x in ms) + '\n}']

def E2():
    s = rd('storage.rs')
    return ['impl Storage {\n' + extract.find_item(s, r'^    pub fn filter_block') + '\n}']

def peers_types():
    s = rd('protocols/light_client/peers.rs')
    out = []
    for r in [r'^pub\(crate\) struct LastState', r'^pub\(crate\) enum PeerState', r'^pub\(crate\) struct ProveRequest',
              r'^pub\(crate\) struct ProveState', r'^impl AsRef<VerifiableHeader> for LastState', r'^impl LastState \{',
              r'^impl ProveRequest \{', r'^impl ProveState \{', r'^impl Default for PeerState', r'^impl PeerState \{',
              r'^fn if_verifiable_headers_are_same']:
        it = extract.find_item(s, r)
        if it.startswith('pub(crate) struct') or it.startswith('pub(crate) enum'):
            it = '#[derive(Clone)]\n' + it
        out.append(it)
    return out

def F(): return peers_types()

def G():
    s = rd('protocols/filter/components/block_filters_process.rs')
    return ["impl<'a> BlockFiltersProcess<'a> {\n" + extract.find_item(s, r'^    pub fn execute\(self\) -> Status') + '\n}']

def H():
    out = peers_types()
    s2 = rd('protocols/light_client/components/send_last_state.rs')
    out.append("impl<'a> SendLastStateProcess<'a> {\n" + extract.find_item(s2, r'^    pub\(crate\) fn execute\(self\) -> Status') + '\n}')
    out.append(extract.find_item(s2, r'^fn check_last_state'))
    s3 = rd('protocols/light_client/mod.rs')
    out.append('impl LightClientProtocol {\n' + extract.find_item(s3, r'^    fn update_prove_state_to_child') + '\n}')
    s4 = rd('protocols/light_client/prelude.rs')
    out.append(extract.find_item(s4, r'^impl HeaderUtils for HeaderView'))
    return out

if __name__ == '__main__':
    items = globals()[sys.argv[1]]()
    open(sys.argv[2], 'w').write('\n\n'.join(items) + '\n')
