import re, sys, time
import z3

def load_fn(mir, name_re):
    m = re.search(r'^fn [^\n]*' + name_re + r'[^\n]*\{\n', mir, re.M)
    assert m, name_re
    end = mir.index('\n}\n', m.end())
    return mir[m.start():end]

def parse_blocks(body):
    blocks = {}
    for m in re.finditer(r'^    (bb\d+)(?: \(cleanup\))?: \{\n(.*?)^    \}', body, re.M | re.S):
        blocks[m.group(1)] = m.group(2)
    return blocks

def successors(text):
    # last statement is the terminator
    lines = [l.strip() for l in text.strip().split('\n') if l.strip()]
    term = lines[-1]
    succ = []
    m = re.search(r'-> \[(.*)\];$', term)
    if m:
        for part in m.group(1).split(', '):
            if ': ' not in part: continue
            lab, tgt = part.split(': ',1)
            if tgt.startswith('bb'):
                succ.append((lab.strip(), tgt.strip()))
    else:
        m = re.search(r'-> (bb\d+);$', term)
        if m: succ.append(('goto', m.group(1)))
    return term, succ

def analyse(mirfile, fn_re, target_re, checks):
    mir = open(mirfile).read()
    body = load_fn(mir, fn_re)
    blocks = parse_blocks(body)
    edges = []   # (src, label, dst)
    call_of = {} # block -> (dest local, callee text)
    for b, text in blocks.items():
        term, succ = successors(text)
        for lab, dst in succ:
            if lab == 'unwind': continue
            edges.append((b, lab, dst))
        m = re.match(r'(_\d+) = (.*?)\((.*)\) -> \[return: (bb\d+)', term)
        if m: call_of[b] = (m.group(1), m.group(2), m.group(4))
    targets = [b for b,(d,c,r) in call_of.items() if re.search(target_re, c)]
    # find ok-edges of each check: call dest _n; in return block: _m = discriminant(_n); switchInt(move _m) -> [0: ok, 1: err]
    ok_edges = {}
    for chk in checks:
        for b,(d,c,r) in call_of.items():
            if re.search(chk, c):
                text = blocks[r]
                m = re.search(r'(_\d+) = discriminant\(' + re.escape(d) + r'\);\s*switchInt\(move \1\) -> \[0: (bb\d+), 1: (bb\d+)', text)
                if m:
                    ok_edges.setdefault(chk, []).append((r, m.group(2), m.group(3), b))
    return blocks, edges, targets, ok_edges

def bypass_query(blocks, edges, entry, target, forbidden_edges, required_absent_blocks=()):
    """exists simple path entry -> target not using forbidden edges"""
    s = z3.Solver()
    ev = {}
    for i,(a,l,b) in enumerate(edges):
        ev[i] = z3.Bool(f'e{i}')
        if (a,b) in forbidden_edges: s.add(z3.Not(ev[i]))
    rank = {b: z3.Int('r_'+b) for b in blocks}
    for b in blocks:
        outs = [ev[i] for i,(a,l,c) in enumerate(edges) if a==b]
        ins = [ev[i] for i,(a,l,c) in enumerate(edges) if c==b]
        out_n = z3.Sum([z3.If(x,1,0) for x in outs]) if outs else z3.IntVal(0)
        in_n = z3.Sum([z3.If(x,1,0) for x in ins]) if ins else z3.IntVal(0)
        if b == entry:
            s.add(out_n == 1, in_n == 0)
        elif b == target:
            s.add(in_n == 1, out_n == 0)
        else:
            s.add(in_n == out_n, in_n <= 1)
    for i,(a,l,b) in enumerate(edges):
        s.add(z3.Implies(ev[i], rank[a] < rank[b]))
    r = s.check()
    if r == z3.sat:
        m = s.model()
        path = [(a,l,b) for i,(a,l,b) in enumerate(edges) if z3.is_true(m[ev[i]])]
        return 'sat', path
    return str(r), None

if __name__ == '__main__':
    t0=time.time()
    checks = ['check_if_response_is_matched', 'check_chain_root_for_headers', 'check_pow_for_headers', 'verify_mmr_proof', 'verify_total_difficulty']
    blocks, edges, targets, ok_edges = analyse('/scratch/probeA.mir', r'SendLastStateProofProcess<\'_>\) -> protocols::status::Status', r'commit_prove_state', checks)
    print('blocks', len(blocks), 'edges', len(edges), 'targets', targets)
    for chk, lst in ok_edges.items():
        for (retblk, ok, err, callblk) in lst:
            for t in targets:
                res, path = bypass_query(blocks, edges, 'bb0', t, {(retblk, ok)})
                print(chk, 'call@', callblk, 'ok-edge', retblk, '->', ok, ': bypass', res, '' if not path else len(path))
    # sanity: target reachable at all
    res, path = bypass_query(blocks, edges, 'bb0', targets[0], set())
    print('reach target:', res, len(path) if path else '')
    print('time', time.time()-t0)
