import sys,re
def match_brace(src, j):
    depth=0; k=j; n=len(src)
    while k<n:
        c=src[k]
        if src.startswith('//',k):
            k=src.index('\n',k); continue
        if src.startswith('/*',k):
            k=src.index('*/',k)+2; continue
        if c=='"':
            k+=1
            while src[k]!='"':
                if src[k]=='\\': k+=1
                k+=1
            k+=1; continue
        if c=="'":
            m2=re.match(r"'(\\.|[^\\'])'", src[k:])
            if m2: k+=m2.end(); continue
            k+=1; continue
        if c=='{': depth+=1
        elif c=='}':
            depth-=1
            if depth==0: return k
        k+=1
    raise Exception('unbalanced')
def find_item(src, header_re):
    m=re.search(header_re, src, re.M)
    assert m, header_re
    j=src.index('{', m.end()-1)
    return src[m.start():match_brace(src,j)+1]
if __name__=='__main__':
    path=sys.argv[1]; out=sys.argv[2]
    src=open(path).read()
    items=[find_item(src,r) for r in sys.argv[3:]]
    open(out,'w').write('\n\n'.join(items)+'\n')
