#![allow(unused, dead_code, unused_mut, static_mut_refs)]
use std::{fmt, mem};
macro_rules! format { ($($t:tt)*) => {{ if false { let _ = format_args!($($t)*); } String::new() }} }
macro_rules! trace { ($($t:tt)*) => {{ if false { let _ = format_args!($($t)*); } }} }
macro_rules! debug { ($($t:tt)*) => {{ if false { let _ = format_args!($($t)*); } }} }
macro_rules! return_if_failed { ($result:expr) => { match $result { Ok(data) => data, Err(status) => return status, } }; }
pub const CAP: usize = 3;
pub const MAX_TIP_AGE: u64 = 24 * 60 * 60 * 1000;
#[derive(Clone, Copy)]
pub struct Vec<T: Copy + Default> { buf: [T; CAP], len: usize }
impl<T: Copy + Default> Default for Vec<T> { fn default() -> Self { Vec { buf: [T::default(); CAP], len: 0 } } }
impl<T: Copy + Default> Vec<T> {
    pub fn new() -> Self { Self::default() }
    pub fn len(&self) -> usize { self.len }
    pub fn is_empty(&self) -> bool { self.len == 0 }
    pub fn push(&mut self, t: T) { assert!(self.len < CAP, "model Vec capacity"); self.buf[self.len] = t; self.len += 1; }
    pub fn remove(&mut self, i: usize) -> T { assert!(i < self.len); let r = self.buf[i]; let mut j = i; while j + 1 < self.len { self.buf[j] = self.buf[j + 1]; j += 1; } self.len -= 1; r }
}
impl<T: Copy + Default> std::ops::Index<std::ops::RangeFull> for Vec<T> { type Output = [T]; fn index(&self, _: std::ops::RangeFull) -> &[T] { &self.buf[..self.len] } }

#[derive(Clone, Copy, PartialEq, Eq, PartialOrd, Ord, Default, Debug)] pub struct U256(pub u64);
impl fmt::LowerHex for U256 { fn fmt(&self, f: &mut fmt::Formatter) -> fmt::Result { Ok(()) } }
#[derive(Clone, Copy, PartialEq, Eq, Default, Debug)] pub struct Byte32(pub u8);
impl fmt::LowerHex for Byte32 { fn fmt(&self, f: &mut fmt::Formatter) -> fmt::Result { Ok(()) } }
#[derive(Clone, Copy, PartialEq, Eq, Default, Debug)] pub struct Epoch { pub number: u64, pub index: u64, pub length: u64 }
impl Epoch { pub fn is_successor_of(self, p: Epoch) -> bool { if p.index + 1 == p.length { self.number == p.number + 1 && self.index == 0 } else { self.number == p.number && self.index == p.index + 1 && self.length == p.length } } }
#[derive(Clone, Copy, PartialEq, Eq, Default, Debug)] pub struct PHeader { pub id: u8 }
#[derive(Clone, Copy, PartialEq, Eq, Default, Debug)]
pub struct HeaderView { pub id: u8, pub number: u64, pub parent: u8, pub epoch: Epoch, pub timestamp: u64 }
impl HeaderView {
    pub fn number(&self) -> u64 { self.number } pub fn hash(&self) -> Byte32 { Byte32(self.id) } pub fn parent_hash(&self) -> Byte32 { Byte32(self.parent) }
    pub fn epoch(&self) -> Epoch { self.epoch } pub fn is_genesis(&self) -> bool { self.number == 0 } pub fn timestamp(&self) -> u64 { self.timestamp }
    pub fn data(&self) -> PHeader { PHeader { id: self.id } }
}
pub trait HeaderUtils { fn is_parent_of(&self, child: &Self) -> bool; }
#[derive(Clone, Copy, PartialEq, Eq, Default, Debug)] pub struct PBytes(pub u8);
impl PBytes { pub fn as_slice(&self) -> &[u8] { std::slice::from_ref(&self.0) } }
#[derive(Clone, Copy, Default, Debug)]
pub struct VerifiableHeader { pub header: HeaderView, pub uncles: u8, pub ext: Option<PBytes>, pub parent_root_td: u64, pub diff: u64 }
impl VerifiableHeader {
    pub fn header(&self) -> &HeaderView { &self.header }
    pub fn uncles_hash(&self) -> Byte32 { Byte32(self.uncles) }
    pub fn extension(&self) -> Option<PBytes> { self.ext }
    pub fn total_difficulty(&self) -> U256 { U256(self.parent_root_td.checked_add(self.diff).expect("U256: attempt to add with overflow")) }
}
pub mod packed {
    #[derive(Clone, Copy, Default)] pub struct GetLastStateProof(pub u8);
    #[derive(Clone, Copy)] pub struct PVH(pub super::VerifiableHeader);
    impl PVH { pub fn to_entity(&self) -> PVH { *self } }
    impl From<PVH> for super::VerifiableHeader { fn from(p: PVH) -> Self { p.0 } }
    pub struct SendLastStateReader<'a> { pub vh: &'a PVH }
    impl<'a> SendLastStateReader<'a> { pub fn last_header(&self) -> PVH { *self.vh } }
}
pub static mut NOW: u64 = 0;
pub fn unix_time_as_millis() -> u64 { unsafe { NOW } }
#[derive(Debug, Clone, Copy, PartialEq, Eq)] pub enum StatusCode { OK, IncorrectLastState, PeerIsInIBD, InvalidNonce, PeerIsNotFound }
#[derive(Debug, Clone, Copy, PartialEq, Eq)] pub struct Status(pub StatusCode);
impl Status { pub fn ok() -> Status { Status(StatusCode::OK) } }
impl StatusCode { pub fn with_context<S>(self, _s: S) -> Status { Status(self) } }
#[derive(Clone, Copy, PartialEq, Eq, Default, Debug)] pub struct PeerIndex(pub u8);
impl fmt::Display for PeerIndex { fn fmt(&self, f: &mut fmt::Formatter) -> fmt::Result { Ok(()) } }
pub struct Nc; pub trait CKBProtocolContext {} impl CKBProtocolContext for Nc {}

pub struct Ghost { pub header_checked_ok: bool, pub stored: Option<(u64, u8, usize)>, pub proved_set: bool }
pub static mut G: Ghost = Ghost { header_checked_ok: false, stored: None, proved_set: false };
pub struct Storage { pub td: u64 }
impl Storage {
    pub fn get_last_state(&self) -> (U256, PHeader) { (U256(self.td), PHeader { id: 0 }) }
    pub fn update_last_state(&self, td: &U256, h: &PHeader, last_n: &[HeaderView]) { unsafe { G.stored = Some((td.0, h.id, last_n.len())); } }
}
pub struct Peers { pub st: std::cell::RefCell<PeerState> }
impl Peers {
    pub fn update_last_state(&self, _p: PeerIndex, ls: LastState) -> Result<(), Status> { let cur = self.st.borrow().clone(); let n = cur.receive_last_state(ls)?; *self.st.borrow_mut() = n; Ok(()) }
    pub fn update_prove_state(&self, _p: PeerIndex, ps: ProveState) -> Result<(), Status> { let cur = self.st.borrow().clone(); let n = cur.receive_last_state_proof(ps)?; *self.st.borrow_mut() = n; unsafe { G.proved_set = true; } Ok(()) }
}
pub struct LightClientProtocol { pub storage: Storage, pub peers: Peers, pub pow_ok: bool }
impl LightClientProtocol {
    pub fn get_peer_state(&self, _p: &PeerIndex) -> Result<PeerState, Status> { Ok(self.peers.st.borrow().clone()) }
    pub fn check_verifiable_header(&self, _vh: &VerifiableHeader) -> Result<(), Status> { if self.pow_ok { unsafe { G.header_checked_ok = true; } Ok(()) } else { Err(Status(StatusCode::InvalidNonce)) } }
    pub fn peers(&self) -> &Peers { &self.peers }
    pub fn last_n_blocks(&self) -> u64 { 2 }
    pub fn get_last_state_proof(&self, _nc: &dyn CKBProtocolContext, _p: PeerIndex) -> Result<bool, Status> { Ok(true) }
}
pub struct SendLastStateProcess<'a> { pub message: packed::SendLastStateReader<'a>, pub protocol: &'a mut LightClientProtocol, pub peer_index: PeerIndex, pub nc: &'a dyn CKBProtocolContext }

include!("extracted.rs");
impl fmt::Display for PeerState { fn fmt(&self, f: &mut fmt::Formatter) -> fmt::Result { Ok(()) } }
impl fmt::Display for LastState { fn fmt(&self, f: &mut fmt::Formatter) -> fmt::Result { Ok(()) } }

#[cfg(kani)]
mod harness {
    use super::*;
    fn any_vh() -> VerifiableHeader {
        let id: u8 = kani::any(); kani::assume(id < 4);
        VerifiableHeader { header: HeaderView { id, number: kani::any(), parent: kani::any(), epoch: Epoch { number: kani::any(), index: kani::any(), length: kani::any() }, timestamp: kani::any() }, uncles: 0, ext: None, parent_root_td: kani::any(), diff: kani::any() }
    }
    #[kani::proof]
    #[kani::unwind(5)]
    fn child_fast_path() {
        // peer is Ready with a proven header P
        let p = any_vh();
        kani::assume(p.parent_root_td.checked_add(p.diff).is_some());
        let p_td = p.parent_root_td + p.diff;
        let ls = LastState::new(p);
        let ps = ProveState::new_from_request(ProveRequest::new(ls.clone(), Default::default()), Vec::new(), Vec::new());
        let st = PeerState::Ready { last_state: ls, prove_state: ps };
        let stored_td: u64 = kani::any();
        let mut proto = LightClientProtocol { storage: Storage { td: stored_td }, peers: Peers { st: std::cell::RefCell::new(st) }, pow_ok: kani::any() };
        let c = any_vh();
        kani::assume(c.parent_root_td.checked_add(c.diff).is_some());   // overflow panic is C10's business
        unsafe { NOW = kani::any(); }
        let pvh = packed::PVH(c);
        let nc = Nc;
        let proc_ = SendLastStateProcess { message: packed::SendLastStateReader { vh: &pvh }, protocol: &mut proto, peer_index: PeerIndex(0), nc: &nc };
        let status = proc_.execute();
        unsafe {
            if let Some((td, id, n)) = G.stored {
                assert!(G.header_checked_ok);
                assert!(td > stored_td, "tip moved without strictly more difficulty");
                assert!(p.header.number + 1 == c.header.number && c.header.parent == p.header.id, "child not linked");
                kani::cover!(true);
                assert!(td == p_td + c.diff, "stored TD is not proven parent's TD plus the child's difficulty");
            }
            if G.proved_set { assert!(G.header_checked_ok); }
        }
    }
}
